"""C06 — every sift option takes effect at the stage it configures, in every variant."""
import copy
import functools
import hashlib
import inspect
import os
import shutil
import tempfile

import numpy as np

from common import proto
from common.framework import Failure, ImplError, Stream, err_kind
from props import _cfg

ID = 'C06'
LEAN_MODULES = ['Proofs.C06']
REQUIRED = ['C06.resolve_idem', 'C06.defaults_agree', 'C06.stage_opts_effective', 'C06.route_independent',
            'C06.every_stage_reached', 'C06.legacy_mask_dropped_envelope_opts', 'C06.legacy_noise_sift_dropped_options',
            'C06.emit_total', 'C06.emit_route_missing', 'C06.emit_ok_wellformed']
TRUSTED = ['only stage calls inside the chain get_next_imf -> interp_envelope -> get_padded_extrema are observed (the wrappers track nesting); envelopes computed by frequency_transform for the if mask frequency are not sift stages',
           'the three stage functions get_next_imf / interp_envelope / get_padded_extrema are observed by wrapping the public '
           'module attributes from outside (emd.sift.<name> = wrapper, before any pool forks; workers inherit); each wrapper '
           'binds its arguments to the live signature (inspect.Signature.bind + apply_defaults) and appends the record to a '
           'per-pid file in a mkdtemp directory that is removed after the call',
           'signatures and defaults are constants of the model; they are compared with inspect.signature of the live functions '
           'on every run (stream signatures)',
           'the numerical effect of an option is not modelled: it is decided by the instance check (replay of every observed '
           'stage call with the options computed from the user dictionaries, and output comparison across routes); the padding '
           'stage itself is compared with numpy.pad applied to the actual extrema (stream pad_oracle), which trusts numpy.pad and, '
           'for the envelope, scipy.interpolate splrep/splev/pchip']
ASSUMPTIONS = ['how often a stage is called depends on the data, which records occur does not: the set of distinct records per '
               'stage is compared (validated: equality of sets on every case)',
               'option dictionaries are dicts or None; the user does not alias one dict object under two options',
               'mask_sift_second_layer forwards a copy of sift_args to mask_sift after setting max_imfs (when absent) and mask_freqs '
               '(always: an array slice, so get_mask_freqs is never called); it takes no sift function, so of the configuration routes '
               'only the unpacked configuration exists (model: Route.getFunc -> TypeError, compared on every case)']
RULE = ('grid: variant {sift, ensemble_sift, complete_ensemble_sift, mask_sift (zc / if / float / explicit frequencies), '
        'get_next_imf_mask, get_mask_freqs, get_next_imf, sift_second_layer(sift | mask_sift), mask_sift_second_layer} x imf options {sd threshold, '
        'rilling thresholds, fixed iterations, step size, energy threshold} x envelope options {splrep, pchip, mono_pchip} x '
        'extrema options {pad width, parabolic, custom np.pad dicts for locations and magnitudes, empty dict, None} x all '
        'three routes in every case x nprocesses {1, 2} x 3 signal families; plus malformed options (unknown names, duplicated '
        'names, non-dict values, invalid method). Non-trivial: at least one stage receives a non-default option. '
        'pad_oracle (instance-only, independent of the stage function): get_padded_extrema x {peaks, troughs, abs_peaks} and '
        'interp_envelope x {upper, lower, combined} x {3 interpolation methods} with custom loc_pad_opts {default, reflect/odd, '
        'linear_ramp} and mag_pad_opts {median, mean, edge, maximum, minimum, constant c / (c1,c2), linear_ramp, reflect, symmetric, '
        'wrap} x pad width 0..7 x parabolic, on 4 signal families plus signals with fewer than two extrema; the result must equal '
        'np.pad with the same dictionaries applied to the unpadded extrema (three-point rule on the samples), repeated while the '
        'locations do not reach past both ends. Non-trivial there: a non-empty mag_pad_opts and at least one padding round.')

LEGACY = 0      # 1 = model of the pinned (pre-D5-repair) code, used once to rediscover the defect

STAGES = ['get_next_imf', 'interp_envelope', 'get_padded_extrema']
_STATE = {'dir': None, 'expect': None, 'busy': False, 'fallback': [], 'active': {}}
_INSTALLED = {}


def sift_mod():
    import emd
    return emd.sift


def _same(a, b):
    if isinstance(a, tuple) and isinstance(b, tuple):
        return len(a) == len(b) and all(_same(x, y) for x, y in zip(a, b))
    if a is None or b is None:
        return a is None and b is None
    if isinstance(a, (bool, np.bool_)) or isinstance(b, (bool, np.bool_)):
        return bool(a) == bool(b)
    a, b = np.asarray(a), np.asarray(b)
    return a.shape == b.shape and np.array_equal(a, b, equal_nan=True)


def _make_wrapper(name, orig):
    sig = inspect.signature(orig)
    first = list(sig.parameters)[0]
    parent = {'interp_envelope': 'get_next_imf', 'get_padded_extrema': 'interp_envelope'}.get(name)

    def wrapper(*a, **kw):
        d = _STATE['dir']
        if d is None or _STATE['busy']:
            return orig(*a, **kw)
        if parent is not None and _STATE['active'].get(parent, 0) == 0:
            # not inside the sift chain get_next_imf -> interp_envelope -> get_padded_extrema (e.g. the amplitude
            # envelopes frequency_transform computes for the 'if' mask frequency): not a stage call of the sift
            return orig(*a, **kw)
        lines = []
        rec = None
        try:
            ba = sig.bind(*a, **kw)
            ba.apply_defaults()
            rec = dict(ba.arguments)
            x = rec.pop(first)
            lines.append('call %s %s' % (name, _cfg.safe_wire(rec)))
        except TypeError:
            lines.append('call %s !unbindable' % name)
        _STATE['active'][name] = _STATE['active'].get(name, 0) + 1
        try:
            out = orig(*a, **kw)
        except BaseException as e:  # noqa
            lines.append('raised %s %s' % (name, type(e).__name__))
            _append(d, lines)
            raise
        finally:
            _STATE['active'][name] -= 1
        exp = _STATE['expect']
        if rec is not None and exp is not None and exp.get(name) is not None:
            # replay the ORIGINAL stage function on the same data with options computed from the user's dictionaries
            kwargs = copy.deepcopy(exp[name])   # never share nested option dicts with the call under observation
            if 'mode' in rec and name != 'get_next_imf':
                kwargs['mode'] = rec['mode']
            if name == 'interp_envelope':
                kwargs['ret_extrema'] = rec.get('ret_extrema', False)
            _STATE['busy'] = True
            try:
                try:
                    ref = orig(x, **kwargs)
                    ok = _same(out, ref)
                except Exception as e:  # noqa
                    ok = False
                    ref = 'raised ' + type(e).__name__
            finally:
                _STATE['busy'] = False
            if not ok:
                lines.append('mismatch %s %s' % (name, _cfg.safe_wire(rec)))
        _append(d, lines)
        return out
    functools.update_wrapper(wrapper, orig)
    wrapper._c06_orig = orig
    return wrapper


def _append(d, lines):
    with open(os.path.join(d, '%d.trace' % os.getpid()), 'a') as f:
        f.write('\n'.join(lines) + '\n')


def install():
    """Wrap the three public stage functions from outside (idempotent)."""
    S = sift_mod()
    for name in STAGES:
        cur = getattr(S, name, None)
        if cur is None or not os.environ.get('EMD_VERIF'):      # guard: only under ./vcheck (DESIGN.md 8)
            if name not in _STATE['fallback']:
                _STATE['fallback'].append(name)
            continue
        if getattr(cur, '_c06_orig', None) is not None:
            continue
        w = _make_wrapper(name, cur)
        _INSTALLED[name] = cur
        setattr(S, name, w)


def orig(name):
    f = getattr(sift_mod(), name)
    return getattr(f, '_c06_orig', f)


class traced:
    """Context: collect the stage-call records of everything run inside (all processes)."""

    def __init__(self, expect):
        self.expect = expect

    def __enter__(self):
        install()
        self.dir = tempfile.mkdtemp(prefix='vc06-')
        _STATE['dir'] = self.dir
        _STATE['expect'] = self.expect
        return self

    def __exit__(self, *exc):
        _STATE['dir'] = None
        _STATE['expect'] = None
        self.calls = {s_: set() for s_ in STAGES}
        self.mismatch = {s_: set() for s_ in STAGES}
        self.raised = set()
        self.pids = 0
        try:
            for fn in os.listdir(self.dir):
                self.pids += 1
                with open(os.path.join(self.dir, fn)) as f:
                    for line in f:
                        parts = line.rstrip('\n').split(' ', 2)
                        if len(parts) < 3:
                            continue
                        if parts[0] == 'call':
                            self.calls[parts[1]].add(parts[2])
                        elif parts[0] == 'mismatch':
                            self.mismatch[parts[1]].add(parts[2])
                        elif parts[0] == 'raised':
                            self.raised.add(parts[1] + ':' + parts[2])
        finally:
            shutil.rmtree(self.dir, ignore_errors=True)
        return False


# ------------------------------------------------------------------------------------------------

def make_signal(spec):
    rs = np.random.RandomState(spec['seed'])
    n = spec['n']
    t = np.linspace(0, 1, n)
    fam = spec['family']
    if fam == 'tones':
        x = np.sin(2 * np.pi * 5 * t) + 0.6 * np.sin(2 * np.pi * 17 * t + 1) + 0.3 * np.cos(2 * np.pi * 41 * t)
    elif fam == 'chirp':
        x = np.sin(2 * np.pi * (3 + 20 * t) * t) * (1 + 0.5 * t)
    else:
        x = np.cumsum(rs.randn(n)) * 0.2 + np.sin(2 * np.pi * 9 * t)
    return x + 0.05 * rs.randn(n)


def digest(o):
    if isinstance(o, tuple):
        return [digest(x) for x in o]
    if isinstance(o, (float, int, np.floating, np.integer)):
        return 'scalar:%r' % float(o)
    a = np.ascontiguousarray(np.asarray(o, dtype=float))
    return '%s:%s' % ('x'.join(map(str, a.shape)), hashlib.sha1(a.tobytes()).hexdigest()[:16])


def user_dicts(case):
    return {k2: (None if case.get(k2) is None else _cfg.build(case[k2])) for k2 in ('imf', 'env', 'ext')}


def expected_stage_kwargs(u):
    """What each stage must be called with, written directly from the user's dictionaries (route A form)."""
    imf = dict(u['imf'] or {})
    env = dict(u['env'] or {})
    ext = dict(u['ext'] or {})
    return {'get_next_imf': dict(imf, envelope_opts=u['env'], extrema_opts=u['ext']),
            'interp_envelope': dict(env, extrema_opts=u['ext']),
            'get_padded_extrema': ext}


ROUTES = ['direct', 'unpack', 'get_func']
CONFIG_VARIANTS = ['sift', 'ensemble_sift', 'complete_ensemble_sift', 'mask_sift']


def routes_of(case):
    return ROUTES if case['variant'] in CONFIG_VARIANTS else ['direct']


def run_route(case, route, x, with_opts=True):
    """One top-level call of the variant with the options delivered through `route`."""
    S = sift_mod()
    v = case['variant']
    u = user_dicts(case) if with_opts else {'imf': None, 'env': None, 'ext': None}
    top = {k2: _cfg.build(v2) for k2, v2 in case.get('top', [])}
    if v == 'get_next_imf' and not with_opts:
        top = {}              # for get_next_imf itself the imf options are the top-level keywords
    func = getattr(S, v)
    if route == 'direct':
        kw = dict(top)
        for name, key in (('imf_opts', 'imf'), ('envelope_opts', 'env'), ('extrema_opts', 'ext')):
            if u[key] is not None:
                kw[name] = u[key]
        call = functools.partial(func, **kw)
        sift_func, sift_args = func, kw
    else:
        cfg = S.get_config(v)
        for k2, v2 in top.items():
            cfg[k2] = v2
        for name, key in (('imf_opts', 'imf'), ('envelope_opts', 'env'), ('extrema_opts', 'ext')):
            if u[key] is not None:
                for k2, v2 in u[key].items():
                    cfg[name + '/' + k2] = v2
        if route == 'unpack':
            call = lambda xx: func(xx, **cfg)  # noqa
            sift_func, sift_args = func, dict(cfg)
        else:
            call = cfg.get_func()
            sift_func, sift_args = call, {}
    if case.get('second') == 2:
        # mask_sift_second_layer(IA, mask_freqs, sift_args): forwards sift_args to mask_sift; it has no sift_func parameter,
        # so a ready-made callable (route get_func) cannot be delivered at all (TypeError, as in the model)
        ia = np.abs(np.c_[x, np.roll(x, 7) * 0.5]) + 0.1
        freqs = np.array([0.25, 0.1, 0.04])
        if route == 'get_func':
            return S.mask_sift_second_layer(ia, freqs, sift_func=sift_func)
        return S.mask_sift_second_layer(ia, freqs, sift_args=sift_args)
    if case.get('second'):
        ia = np.abs(np.c_[x, np.roll(x, 7) * 0.5]) + 0.1
        return S.sift_second_layer(ia, sift_func=sift_func, sift_args=sift_args)
    if v == 'get_next_imf_mask':
        return call(x, 0.12, 0.8)
    return call(x)


class Routing(Stream):
    name = 'routing'
    parallel = False          # the variants create their own worker pools
    timeout_s = 600

    # ---------------------------------------------------------------- option vocabulary
    IMF = [None, {}, {'sd_thresh': 0.02}, {'stop_method': 'rilling'},
           {'stop_method': 'rilling', 'rilling_thresh': {'$': 'tuple', 'v': [0.2, 0.7, 0.2]}},
           {'stop_method': 'fixed', 'max_iters': 3}, {'env_step_size': 0.5}, {'energy_thresh': 40, 'sd_thresh': 0.05},
           {'stop_method': 'rilling', 'rilling_thresh': [0.02, 0.3, 0.02], 'env_step_size': 0.75, 'max_iters': 40}]
    ENV = [None, {}, {'interp_method': 'pchip'}, {'interp_method': 'mono_pchip'}, {'interp_method': 'splrep'}]
    EXT = [None, {}, {'pad_width': 4}, {'pad_width': 1}, {'parabolic_extrema': True},
           {'pad_width': 3, 'parabolic_extrema': True},
           {'mag_pad_opts': {'$': 'dict', 'v': [['mode', 'mean'], ['stat_length', 2]]}},
           {'loc_pad_opts': {'$': 'dict', 'v': [['mode', 'reflect'], ['reflect_type', 'odd']]}, 'pad_width': 3},
           {'mag_pad_opts': {'$': 'dict', 'v': [['mode', 'edge']]}, 'pad_width': 4},
           {'mag_pad_opts': {'$': 'dict', 'v': []}, 'loc_pad_opts': None},
           # custom pad modes whose result differs from the default mode with the same remaining keywords
           # (mean of 2 = median of 2 and edge = median of 1, so the two entries above cannot expose a lost 'mode')
           {'mag_pad_opts': {'$': 'dict', 'v': [['mode', 'mean'], ['stat_length', 3]]}},
           {'mag_pad_opts': {'$': 'dict', 'v': [['mode', 'maximum'], ['stat_length', 3]]}, 'pad_width': 3}]
    # options that certainly change the result on the test signals (the default-option output must differ)
    EFFECTIVE = {'imf': [2, 3, 5, 6], 'env': [2, 3], 'ext': [2, 3, 5, 6]}

    VARIANTS = [
        ('sift', [], 0), ('sift', [['max_imfs', 3]], 0),
        ('ensemble_sift', [['nensembles', 2], ['max_imfs', 2]], 0),
        ('ensemble_sift', [['nensembles', 3], ['max_imfs', 2], ['nprocesses', 2], ['noise_mode', 'flip']], 0),
        ('complete_ensemble_sift', [['nensembles', 2], ['max_imfs', 2]], 0),
        ('complete_ensemble_sift', [['nensembles', 2], ['max_imfs', 1], ['nprocesses', 2]], 0),
        ('mask_sift', [['max_imfs', 3]], 0), ('mask_sift', [['max_imfs', 2], ['mask_freqs', 'if'], ['nprocesses', 2]], 0),
        ('mask_sift', [['max_imfs', 3], ['mask_freqs', 0.2]], 0),
        ('mask_sift', [['mask_freqs', {'$': 'array', 'v': [0.25, 0.1, 0.04]}], ['nphases', 2]], 0),
        ('get_next_imf_mask', [], 0), ('get_next_imf_mask', [['nphases', 3], ['nprocesses', 2]], 0),
        ('get_mask_freqs', [], 0), ('get_mask_freqs', [['first_mask_mode', 'if']], 0), ('get_mask_freqs', [['first_mask_mode', 0.3]], 0),
        ('get_next_imf', [], 0),
        ('sift', [['max_imfs', 2]], 1), ('mask_sift', [['max_imfs', 2]], 1),
        # mask_sift_second_layer (second = 2): sift_args forwarded to mask_sift, mask_freqs overwritten per column
        # (max_imfs is always given: the configuration routes carry mask_sift's default 9, the direct route would default to IA.shape[1])
        ('mask_sift', [['max_imfs', 2]], 2), ('mask_sift', [['max_imfs', 3], ['nphases', 2], ['mask_amp_mode', 'ratio_sig']], 2),
        ('mask_sift', [['max_imfs', 2], ['mask_freqs', 'if'], ['nprocesses', 2]], 2),
    ]

    @staticmethod
    def _vname(v, second):
        return v + (':mask-second-layer' if second == 2 else ':second-layer' if second else '')

    def _case(self, vi, ii, ei, xi, fam='tones', n=192, seed=1, rng_seed=7):
        v, top, second = self.VARIANTS[vi]
        imf, env, ext = self.IMF[ii], self.ENV[ei], self.EXT[xi]
        j = lambda d: None if d is None else {'$': 'dict', 'v': [[k2, v2] for k2, v2 in d.items()]}  # noqa
        c = {'variant': v, 'top': top, 'second': second, 'imf': j(imf), 'env': j(env), 'ext': j(ext),
             'signal': {'family': fam, 'n': n, 'seed': seed}, 'seed': rng_seed}
        if v == 'get_next_imf':
            # no imf_opts parameter: the imf options are the function's own keywords
            c['top'] = top + [[k2, v2] for k2, v2 in (imf or {}).items()]
            c['imf'] = None
        eff = []
        if ii in self.EFFECTIVE['imf'] and not (v == 'get_mask_freqs' and top and top[0][1] == 0.3):
            eff.append('imf')
        if ei in self.EFFECTIVE['env']:
            eff.append('env')
        if xi in self.EFFECTIVE['ext']:
            eff.append('ext')
        if v == 'get_mask_freqs':
            eff = []          # a frequency (zero-crossing count) is too coarse to certainly react
        c['expect_effect'] = eff
        return c

    def corpus(self):
        V = {n_: i_ for i_, n_ in reversed(list(enumerate([v[0] + {0: '', 1: '2', 2: 'M2'}[v[2]] for v in self.VARIANTS])))}
        out = [
            # D5 witnesses: mask_sift / get_next_imf_mask / get_mask_freqs with pchip or pad 4; complete ensemble noise sifts
            self._case(V['mask_sift'], 0, 2, 0), self._case(V['mask_sift'], 0, 0, 2), self._case(V['mask_sift'], 3, 2, 2),
            self._case(V['get_next_imf_mask'], 0, 2, 2), self._case(V['get_mask_freqs'], 0, 2, 2),
            self._case(V['complete_ensemble_sift'], 3, 0, 0), self._case(V['complete_ensemble_sift'], 0, 2, 0),
            self._case(V['complete_ensemble_sift'], 0, 0, 2), self._case(V['complete_ensemble_sift'] + 1, 5, 3, 5),
            self._case(V['sift'], 0, 0, 0), self._case(V['sift'], 1, 1, 1), self._case(V['sift'], 4, 2, 6),
            self._case(V['ensemble_sift'], 3, 2, 2), self._case(V['ensemble_sift'] + 1, 5, 3, 7),
            self._case(V['get_next_imf'], 4, 2, 8), self._case(V['sift2'], 3, 2, 2), self._case(V['mask_sift2'], 2, 3, 3),
            self._case(V['mask_sift'] + 1, 6, 2, 4), self._case(V['mask_sift'] + 2, 2, 0, 9), self._case(V['mask_sift'] + 3, 8, 4, 5),
            # a custom pad mode must survive every later padding call that shares the caller's dict (seeded change C06-2)
            self._case(V['sift'], 0, 0, 10), self._case(V['sift'] + 1, 0, 0, 11), self._case(V['mask_sift'], 0, 0, 10),
            self._case(V['sift2'], 0, 0, 10), self._case(V['ensemble_sift'], 0, 0, 11),
            # mask_sift_second_layer: every stage option, all three delivery attempts
            self._case(V['mask_siftM2'], 3, 2, 2), self._case(V['mask_siftM2'], 0, 0, 0), self._case(V['mask_siftM2'] + 1, 5, 3, 5),
            self._case(V['mask_siftM2'] + 2, 2, 2, 10), self._case(V['mask_siftM2'], 6, 0, 7),
        ]
        # malformed options: unknown names, names bound twice, non-dict values, invalid method
        bad = [
            dict(self._case(V['sift'], 0, 0, 0), imf={'$': 'dict', 'v': [['nope', 1]]}),
            dict(self._case(V['sift'], 0, 0, 0), env={'$': 'dict', 'v': [['nope', 1]]}),
            dict(self._case(V['mask_sift'], 0, 0, 0), ext={'$': 'dict', 'v': [['nope', 1]]}),
            dict(self._case(V['sift'], 0, 0, 0), imf={'$': 'dict', 'v': [['envelope_opts', {'$': 'dict', 'v': []}]]}),
            dict(self._case(V['ensemble_sift'], 0, 0, 0), env={'$': 'dict', 'v': [['extrema_opts', None]]}),
            dict(self._case(V['sift'], 0, 0, 0), ext={'$': 'dict', 'v': [['mode', 'peaks']]}),
            dict(self._case(V['sift'], 0, 0, 0), env={'$': 'dict', 'v': [['interp_method', 'cubic']]}),
            dict(self._case(V['sift'], 0, 0, 0), top=[['nope', 1]]),
            dict(self._case(V['ensemble_sift'], 0, 0, 0), top=[['nensembles', 2], ['noise_mode', 'both']]),
            dict(self._case(V['mask_siftM2'], 0, 0, 0), imf={'$': 'dict', 'v': [['nope', 1]]}),
            dict(self._case(V['mask_siftM2'], 0, 0, 0), env={'$': 'dict', 'v': [['interp_method', 'cubic']]}),
        ]
        for c in bad:
            c['expect_effect'] = []
            c['malformed'] = True
        return out + bad

    def generate(self, rng, tier):
        n_cases = 400 if tier == 'thorough' else 16
        for i in range(n_cases):
            vi = rng.randrange(len(self.VARIANTS))
            ii, ei, xi = rng.randrange(len(self.IMF)), rng.randrange(len(self.ENV)), rng.randrange(len(self.EXT))
            if rng.random() < 0.5:      # concentrate on one stage at a time half of the time
                keep = rng.choice('iex')
                ii, ei, xi = (ii if keep == 'i' else 0), (ei if keep == 'e' else 0), (xi if keep == 'x' else 0)
            yield self._case(vi, ii, ei, xi, fam=rng.choice(['tones', 'chirp', 'walk']), n=rng.choice([128, 192, 256]),
                             seed=rng.randint(0, 10 ** 6), rng_seed=rng.randint(0, 10 ** 6))

    # ---------------------------------------------------------------- implementation side
    def impl(self, case):
        x = make_signal(case['signal'])
        u = user_dicts(case)
        if case['variant'] == 'get_next_imf':
            u = dict(u, imf={k2: _cfg.build(v2) for k2, v2 in case['top']})
        expect = None if case.get('malformed') else copy.deepcopy(expected_stage_kwargs(u))
        res = {}
        for route in routes_of(case):
            with traced(expect) as t:
                np.random.seed(case['seed'])
                try:
                    outcome = digest(run_route(case, route, x))
                except Exception as e:  # noqa
                    outcome = 'e:' + err_kind(e)
            res[route] = {'outcome': outcome, 'calls': {s_: sorted(t.calls[s_]) for s_ in STAGES},
                          'mismatch': {s_: sorted(t.mismatch[s_])[:3] for s_ in STAGES if t.mismatch[s_]},
                          'pids': t.pids, 'raised': sorted(t.raised)}
        base = None
        if case.get('expect_effect'):
            np.random.seed(case['seed'])
            try:
                base = digest(run_route(case, 'direct', x, with_opts=False))
            except Exception as e:  # noqa
                base = 'e:' + err_kind(e)
        return {'routes': res, 'default_outcome': base, 'fallback': list(_STATE['fallback'])}

    # ---------------------------------------------------------------- model side
    def ops(self, case, out):
        args = {'variant': case['variant'], 'second': int(case.get('second') or 0), 'legacy': LEGACY,
                'top': _cfg.wire({k2: _cfg.build(v2) for k2, v2 in case.get('top', [])}),
                'imf': _cfg.wire(_cfg.build(case['imf'])) if case['imf'] is not None else 'N',
                'env': _cfg.wire(_cfg.build(case['env'])) if case['env'] is not None else 'N',
                'ext': _cfg.wire(_cfg.build(case['ext'])) if case['ext'] is not None else 'N'}
        return [proto.op('OPTS', dict(args, route=r)) for r in routes_of(case)]

    def compare(self, case, out, results):
        if isinstance(out, ImplError):
            if out['error'] == 'Timeout':
                return 'skip:traced run exceeded the per-case time budget'
            return 'implementation harness raised %s: %s' % (out['error'], out['msg'])
        if out['fallback']:
            return 'skip:stage functions %s cannot be wrapped from outside; output equivalence only' % out['fallback']
        skipped = None
        for route, r in zip(routes_of(case), results):
            o = out['routes'][route]
            failed = isinstance(o['outcome'], str) and o['outcome'].startswith('e:')
            if r.status == 'err':
                if not failed or o['outcome'][2:] != r.words[0]:
                    return '%s: model raises %s, implementation %s' % (route, r.words, o['outcome'])
                continue
            if not r.ok:
                return '%s: model answered %s' % (route, r.raw[:200])
            for st, key in zip(STAGES, ('gni', 'ie', 'gpe')):
                model = set(_cfg.wire(x) for x in _cfg.unwire(r.args[key]))
                impl = set(o['calls'][st])
                if failed:
                    if not impl <= model:
                        return '%s/%s: implementation raised %s after calls the model does not make: %s' % (
                            route, st, o['outcome'], _pretty(impl - model))
                    skipped = 'skip:implementation raised %s (calls made so far agree with the model)' % o['outcome']
                elif impl != model:
                    return '%s/%s: implementation-only %s  model-only %s' % (route, st, _pretty(impl - model), _pretty(model - impl))
        return skipped

    def holds(self, case, out):
        if isinstance(out, ImplError):
            if out['error'] == 'Timeout':
                return []      # run time is not part of C06; counted as skipped in compare()
            return [Failure('harness-raised:' + out['error'], out['msg'])]
        fs = []
        v = self._vname(case['variant'], case.get('second'))
        routes = routes_of(case)
        if case.get('second') == 2:
            # no callable can be handed to mask_sift_second_layer: the attempt must be rejected, and is not a delivery route
            oc = out['routes']['get_func']['outcome']
            if oc != 'e:TypeError':
                fs.append(Failure('mask-second-layer-accepts-sift-func', str(oc)))
            routes = [r_ for r_ in routes if r_ != 'get_func']
        if case.get('malformed'):
            for route in routes:
                oc = out['routes'][route]['outcome']
                if not (isinstance(oc, str) and oc.startswith('e:')):
                    fs.append(Failure('malformed-option-accepted:%s:%s' % (v, route), str(case)))
            return fs
        for route in routes:
            o = out['routes'][route]
            for st, recs in o['mismatch'].items():
                fs.append(Failure('stage-call-ignores-user-options:%s:%s' % (st, case['variant']),
                                  '%s route %s: %s was called with %s; replaying it with the user options gives a different result'
                                  % (v, route, st, _pretty(recs))))
        ocs = {route: out['routes'][route]['outcome'] for route in routes}
        ref = ocs[routes[0]]
        for route in routes[1:]:
            if ocs[route] != ref:
                fs.append(Failure('routes-disagree:%s:%s-vs-direct' % (case['variant'], route), '%s vs %s' % (ocs[route], ref)))
        # (no 'option has no effect on this signal' check: an option may legitimately not matter for one signal; whether
        #  options are honoured is decided by the per-call replay above and by the stage-call records of the correspondence)
        return fs

    def tags(self, case, out):
        t = ['variant=' + case['variant'] + ('(mask-second-layer)' if case.get('second') == 2 else '(second-layer)' if case.get('second') else '')]
        for k2 in ('imf', 'env', 'ext'):
            d = case[k2]
            t.append('%s=%s' % (k2, 'None' if d is None else ('{}' if not d['v'] else '+'.join(sorted(x[0] for x in d['v'])))))
        for k2, v2 in case.get('top', []):
            if k2 in ('nprocesses', 'mask_freqs', 'noise_mode', 'first_mask_mode', 'stop_method'):
                t.append('%s=%s' % (k2, v2 if not isinstance(v2, dict) else 'array'))
        if case.get('malformed'):
            t.append('malformed')
        if not isinstance(out, ImplError):
            for route, o in out['routes'].items():
                t.append('outcome:%s' % ('error:' + o['outcome'][2:] if str(o['outcome']).startswith('e:') else 'array'))
                if o['pids'] > 1:
                    t.append('records-from-worker-processes')
        return sorted(set(t))

    def nontrivial(self, case, out):
        return any(case[k2] is not None and case[k2]['v'] for k2 in ('imf', 'env', 'ext')) or \
            (case['variant'] == 'get_next_imf' and len(case.get('top', [])) > 0)

    def shrink(self, case):
        for k2 in ('imf', 'env', 'ext'):
            if case[k2] is not None:
                c = dict(case)
                c[k2] = None
                c['expect_effect'] = [e for e in case.get('expect_effect', []) if e != k2]
                yield c
        if case['signal']['n'] > 128:
            yield dict(case, signal=dict(case['signal'], n=128))


def _pretty(recs):
    out = []
    for r in list(recs)[:3]:
        try:
            out.append(_cfg.unwire(r))
        except Exception:  # noqa
            out.append(r)
    return out


# ------------------------------------------------------------------------------------------------

EMPTY = '<required>'


def sig_table(func):
    d = {}
    params = list(inspect.signature(func).parameters.items())[1:]          # without the data parameter
    for p, par in params:
        d[p] = EMPTY if par.default is inspect.Parameter.empty else par.default
    return d


class Signatures(Stream):
    """Assumption validator: the signature tables of the model are the live signatures."""
    name = 'signatures'
    exhaustive = True
    NAMES = ['get_next_imf', 'interp_envelope', 'get_padded_extrema', 'sift', '_sift_with_noise', 'ensemble_sift',
             'complete_ensemble_sift', 'get_next_imf_mask', 'get_mask_freqs', 'mask_sift']

    def generate(self, rng, tier):
        return [{'functions': self.NAMES}]

    def impl(self, case):
        S = sift_mod()
        install()
        return {n_: _cfg.safe_wire(sig_table(getattr(S, n_))) for n_ in case['functions'] if hasattr(S, n_)}

    def ops(self, case, out):
        return ['OPTSIGS']

    def compare(self, case, out, results):
        if isinstance(out, ImplError):
            return 'implementation raised %s' % out['error']
        model = _cfg.unwire(results[0].args['sigs'])
        for n_ in case['functions']:
            if n_ not in out:
                if n_.startswith('_'):
                    continue          # a private helper may be renamed or removed at will: not part of the correspondence
                return 'emd.sift.%s no longer exists' % n_
            if LEGACY and n_ == 'get_mask_freqs':
                continue
            live = _cfg.unwire(out[n_])
            if n_.startswith('_'):
                # private helper: only the parameters the model binds positionally must be where the model expects them
                live = dict(list(live.items())[:len(model[n_])])
            if _cfg.wire(model[n_]) != _cfg.wire(live):
                return '%s: live signature %s, model %s' % (n_, _cfg.unwire(out[n_]), model[n_])
        return None

    def holds(self, case, out):
        return []


class StageSpecialCases(Stream):
    """The in-function literals (defaults_agree on the implementation): a stage called with nothing, with an empty
    dict, with the spelled-out defaults and with the get_config dictionaries gives identical results."""
    name = 'special_cases'

    def generate(self, rng, tier):
        for i in range(60 if tier == 'thorough' else 8):
            yield {'signal': {'family': rng.choice(['tones', 'chirp', 'walk']), 'n': rng.choice([64, 128, 200]),
                              'seed': rng.randint(0, 10 ** 6)}}

    def impl(self, case):
        S = sift_mod()
        install()
        x = make_signal(case['signal'])
        cfg = S.get_config('sift')
        res = {}
        gpe = S.get_padded_extrema
        res['gpe'] = [digest(gpe(x)), digest(gpe(x, loc_pad_opts={}, mag_pad_opts={})),
                      digest(gpe(x, **_cfg.deep(cfg['extrema_opts'])))]
        ie = S.interp_envelope
        res['ie'] = [digest(ie(x)), digest(ie(x, extrema_opts={})), digest(ie(x, extrema_opts=None, **cfg['envelope_opts'])),
                     digest(ie(x, extrema_opts=_cfg.deep(cfg['extrema_opts'])))]
        gni = S.get_next_imf
        res['gni'] = [digest(gni(x)[0]), digest(gni(x, envelope_opts={}, extrema_opts={})[0]),
                      digest(gni(x, **_cfg.deep(cfg['imf_opts']), envelope_opts=_cfg.deep(cfg['envelope_opts']),
                                 extrema_opts=_cfg.deep(cfg['extrema_opts']))[0])]
        res['sift'] = [digest(S.sift(x)), digest(S.sift(x, imf_opts={})), digest(S.sift(x, imf_opts=_cfg.deep(cfg['imf_opts']))),
                       digest(S.sift(x, **cfg))]
        return res

    def holds(self, case, out):
        if isinstance(out, ImplError):
            return [Failure('special-cases:raises:' + out['error'], out['msg'])]
        return [Failure('special-case-literal-differs-from-defaults:' + k2, str(v2)) for k2, v2 in out.items() if len(set(map(str, v2))) != 1]

    def tags(self, case, out):
        return ['family=' + case['signal']['family']]


# ------------------------------------------------------------------------------------------------
# Independent oracle for the padding stage.  The routing stream replays every observed stage call through the
# stage function itself, so it cannot see a stage function that applies a supplied pad option wrongly.  Here the
# padded extrema are rebuilt from the UNPADDED extrema (brute-force three-point rule on the samples; for parabolic
# refinement the function's own pad_width=0 answer) and numpy's own np.pad with exactly the user's dictionaries,
# repeated while `max(locs) < len(X) or min(locs) >= 0` (the documented rule of get_padded_extrema).

GPE_MODES = ['peaks', 'troughs', 'abs_peaks']
ENV_MODES = {'upper': 'peaks', 'lower': 'troughs', 'combined': 'abs_peaks'}
DEFAULT_LOC = {'mode': 'reflect', 'reflect_type': 'odd'}
DEFAULT_MAG = {'mode': 'median', 'stat_length': 1}
MAX_ROUNDS = 64


def pad_signal(spec):
    n = spec['n']
    t = np.linspace(0, 1, n)
    fam = spec['family']
    if fam == 'mono':
        return t + 0.1 * t ** 2                                   # no extremum at all
    if fam == 'hump':
        return np.sin(np.pi * t) + 0.25 * t                       # one peak, no trough
    if fam == 'offset':
        rs = np.random.RandomState(spec['seed'])                  # strictly positive: troughs are positive values
        return 3.0 + np.sin(2 * np.pi * 6 * t + rs.uniform(0, 6)) + 0.4 * np.sin(2 * np.pi * 19 * t) + 0.05 * rs.randn(n)
    return make_signal(spec)


def brute_extrema(x, mode):
    """Unpadded extrema by the three-point rule on the samples (strict, interior samples only)."""
    y = {'peaks': x, 'troughs': -x, 'abs_peaks': np.abs(x)}[mode]
    locs = np.array([i for i in range(1, len(y) - 1) if y[i] > y[i - 1] and y[i] > y[i + 1]], dtype=int)
    vals = np.abs(x)[locs] if mode == 'abs_peaks' else x[locs]
    return locs, vals


def oracle_padded(locs, mags, n, w, loc_opts, mag_opts):
    """np.pad with the user's dictionaries on the actual locations / magnitudes -> (locs, mags, rounds) | None."""
    if len(locs) < 2:
        return None
    lo = dict(loc_opts) if loc_opts else dict(DEFAULT_LOC)
    mo = dict(mag_opts) if mag_opts else dict(DEFAULT_MAG)
    w = min(w, len(locs))
    if w == 0:
        return np.asarray(locs), np.asarray(mags), 0
    L, M, rounds = np.pad(locs, w, **lo), np.pad(mags, w, **mo), 1
    while L.max() < n or L.min() >= 0:
        if rounds >= MAX_ROUNDS:
            raise RuntimeError('padding rule does not terminate with these location options')
        L, M, rounds = np.pad(L, w, **lo), np.pad(M, w, **mo), rounds + 1
    return L, M, rounds


def oracle_envelope(L, M, n, method):
    from scipy import interpolate as interp
    t = np.arange(n)
    if method == 'splrep':
        return interp.splev(t, interp.splrep(L, M))
    if method == 'mono_pchip':
        return interp.PchipInterpolator(L, M)(t)
    return interp.pchip(L, M)(t)


def _dev(a, b):
    """Largest absolute deviation of two arrays, or a word when they cannot be compared."""
    if a is None or b is None:
        return None if (a is None and b is None) else 'one-is-None'
    a, b = np.asarray(a, dtype=float), np.asarray(b, dtype=float)
    if a.shape != b.shape:
        return 'shape %s vs %s' % (a.shape, b.shape)
    if a.size == 0:
        return 0.0
    if not np.all(np.isfinite(a) == np.isfinite(b)):
        return 'non-finite'
    m = np.isfinite(a)
    return float(np.max(np.abs(a[m] - b[m]))) if m.any() else 0.0


def _head(a, k=6):
    return None if a is None else [float(v) for v in np.asarray(a, dtype=float)[:k]]


class PadOracle(Stream):
    """C06 'an extrema/padding option governs that stage': instance-only, independent of the stage function's own padding."""
    name = 'pad_oracle'

    MAG = [None, {}, {'mode': 'median', 'stat_length': 1}, {'mode': 'median', 'stat_length': 3},
           {'mode': 'mean', 'stat_length': 2}, {'mode': 'mean', 'stat_length': 3}, {'mode': 'edge'},
           # sign-asymmetric rules: a stage that pads a sign-flipped copy applies the opposite rule
           {'mode': 'maximum', 'stat_length': 3}, {'mode': 'minimum', 'stat_length': 3}, {'mode': 'maximum'},
           {'mode': 'minimum', 'stat_length': 2},
           {'mode': 'constant', 'constant_values': 0.75}, {'mode': 'constant', 'constant_values': [-0.5, 1.25]},
           {'mode': 'linear_ramp', 'end_values': 0.5}, {'mode': 'linear_ramp', 'end_values': [1.0, -1.0]},
           {'mode': 'reflect'}, {'mode': 'symmetric', 'reflect_type': 'odd'}, {'mode': 'wrap'}]
    LOC = [None, {}, {'mode': 'reflect', 'reflect_type': 'odd'}, 'ramp']    # 'ramp': linear_ramp to end values outside the signal
    INTERP = ['splrep', 'pchip', 'mono_pchip']

    def _case(self, fam, n, seed, w, par, li, mi, interp='splrep'):
        loc = self.LOC[li]
        if loc == 'ramp':
            loc = {'mode': 'linear_ramp', 'end_values': [-(n // 2) - 1, n + n // 2]}
        return {'signal': {'family': fam, 'n': n, 'seed': seed}, 'pad_width': w, 'parabolic': bool(par),
                'loc': copy.deepcopy(loc), 'mag': copy.deepcopy(self.MAG[mi]), 'interp': interp}

    def corpus(self):
        out = []
        # every magnitude rule once on a two-tone signal and once on a strictly positive one (round-2 change C06/2:
        # troughs padded as peaks of the flipped signal -> maximum<->minimum, c<->-c on the lower envelope)
        for mi in range(len(self.MAG)):
            out.append(self._case('tones', 96, 1, 2 + mi % 3, False, mi % 3, mi, self.INTERP[mi % 3]))
            out.append(self._case('offset', 128, 5, 3, mi % 2 == 1, 0, mi))
        out += [self._case('tones', 12, 1, 5, False, 0, 7),          # pad_width clipped to the number of extrema
                self._case('chirp', 24, 2, 6, False, 2, 11),
                self._case('mono', 40, 0, 2, False, 0, 7),           # fewer than two extrema: None
                self._case('hump', 40, 0, 2, False, 0, 8),
                self._case('tones', 96, 1, 0, False, 0, 7),          # pad_width 0: the unpadded extrema
                self._case('walk', 200, 3, 1, True, 0, 12),          # pad_width 1 usually needs several rounds
                self._case('walk', 160, 9, 4, False, 3, 13, 'pchip')]
        return out

    def generate(self, rng, tier):
        for _ in range(900 if tier == 'thorough' else 60):
            fam = rng.choice(['tones', 'chirp', 'walk', 'offset', 'offset', 'hump', 'mono'] if rng.random() < 0.15
                             else ['tones', 'chirp', 'walk', 'offset'])
            yield self._case(fam, rng.choice([12, 24, 48, 64, 128, 200, 320]), rng.randint(0, 10 ** 6), rng.choice([0, 1, 2, 2, 3, 4, 5, 7]),
                             rng.random() < 0.3, rng.randrange(len(self.LOC)), rng.randrange(len(self.MAG)), rng.choice(self.INTERP))

    def impl(self, case):
        S = sift_mod()
        x = pad_signal(case['signal'])
        n, w, par = len(x), case['pad_width'], case['parabolic']
        tol = 1e-9 * max(1.0, float(np.max(np.abs(x))), float(n))
        res = {'tol': tol, 'gpe': {}, 'env': {}}
        oracles = {}
        for m in GPE_MODES:
            r = {}
            raw = S.get_padded_extrema(x.copy(), pad_width=0, mode=m, parabolic_extrema=par)
            raw = (None, None) if raw[0] is None else (np.asarray(raw[0]), np.asarray(raw[1]))
            bl, bm = brute_extrema(x, m)
            if not par:
                r['unpadded'] = [_dev(raw[0], bl if len(bl) >= 2 else None), _dev(raw[1], bm if len(bm) >= 2 else None)]
                ul, um = bl, bm
            else:
                ul, um = (np.array([]), np.array([])) if raw[0] is None else raw
            r['n_ext'] = int(len(ul))
            want = oracle_padded(ul, um, n, w, case['loc'], case['mag'])
            oracles[m] = want
            r['rounds'] = None if want is None else want[2]
            try:
                got = S.get_padded_extrema(x.copy(), pad_width=w, mode=m, parabolic_extrema=par,
                                           loc_pad_opts=copy.deepcopy(case['loc']), mag_pad_opts=copy.deepcopy(case['mag']))
            except Exception as e:  # noqa
                r['error'] = err_kind(e)
                res['gpe'][m] = r
                continue
            r['loc'] = _dev(got[0], None if want is None else want[0])
            r['mag'] = _dev(got[1], None if want is None else want[1])
            r['got'] = [_head(got[0]), _head(got[1])]
            r['want'] = [None, None] if want is None else [_head(want[0]), _head(want[1])]
            res['gpe'][m] = r
        for em, m in ENV_MODES.items():
            r = {}
            want = oracles[m]
            ext = {'pad_width': w, 'parabolic_extrema': par, 'loc_pad_opts': copy.deepcopy(case['loc']),
                   'mag_pad_opts': copy.deepcopy(case['mag'])}
            want_env = None
            if want is not None and want[2] >= 1:
                try:
                    want_env = oracle_envelope(want[0], want[1], n, case['interp'])
                except Exception as e:  # noqa   (e.g. too few / repeated knots: the interpolator itself refuses)
                    r['oracle_error'] = err_kind(e)
            try:
                got = S.interp_envelope(x.copy(), mode=em, interp_method=case['interp'], extrema_opts=ext, ret_extrema=True)
            except Exception as e:  # noqa
                r['error'] = err_kind(e)
                r['msg'] = str(e)[:120]
                res['env'][em] = r
                continue
            if got is None:
                r['loc'] = r['mag'] = r['env'] = _dev(None, None if want is None else want[0])
            elif want is None:
                r['loc'] = r['mag'] = r['env'] = 'one-is-None'
            else:
                env, (gl, gm) = got
                r['loc'], r['mag'] = _dev(gl, want[0]), _dev(gm, want[1])
                r['env'] = None if want_env is None else _dev(env, want_env)
                r['scale'] = float(max(1.0, np.max(np.abs(want[1]))))
            res['env'][em] = r
        return res

    @staticmethod
    def _bad(d, tol):
        return d is not None and (isinstance(d, str) or d > tol)

    def holds(self, case, out):
        if isinstance(out, ImplError):
            return [Failure('pad-oracle-not-runnable:' + out['error'], out['msg'])]
        fs = []
        tol = out['tol']
        opts = 'pad_width=%s parabolic=%s loc_pad_opts=%s mag_pad_opts=%s' % (case['pad_width'], case['parabolic'], case['loc'], case['mag'])
        for m, r in out['gpe'].items():
            # np.pad(values, w, **opts) applied once is the documented meaning of the option; the repetition of the padding
            # while the locations do not reach past both ends is the anchored mechanism (non-literal when it was needed)
            lit = r.get('rounds') in (None, 0, 1)
            if 'unpadded' in r and any(self._bad(d, tol) for d in r['unpadded']):
                fs.append(Failure('unpadded-extrema-differ-from-three-point-rule:%s' % m,
                                  'get_padded_extrema(pad_width=0, mode=%s): deviation (locations, magnitudes) %s' % (m, r['unpadded']), literal=False))
            if 'error' in r:
                fs.append(Failure('pad-options-raise:get_padded_extrema:%s:%s' % (m, r['error']), opts))
                continue
            for what in ('loc', 'mag'):
                if self._bad(r[what], tol):
                    fs.append(Failure('pad-option-not-applied:get_padded_extrema:%s:%s_pad_opts' % (m, what),
                                      '%s: mode=%s returned (locs, mags) %s..., np.pad of the %d actual extrema with these options gives %s... '
                                      '(%s rounds; deviation %s)' % (opts, m, r['got'], r['n_ext'], r['want'], r['rounds'], r[what]), literal=lit))
        for em, r in out['env'].items():
            lit = out['gpe'][ENV_MODES[em]].get('rounds') in (None, 0, 1)
            if 'error' in r:
                # without padding (pad_width 0) or when scipy itself refuses the knots there is no envelope to speak of
                if 'error' not in out['gpe'][ENV_MODES[em]] and 'oracle_error' not in r and (out['gpe'][ENV_MODES[em]].get('rounds') or 0) >= 1:
                    fs.append(Failure('pad-options-raise:interp_envelope:%s:%s' % (em, r['error']), '%s interp_method=%s: %s' % (opts, case['interp'], r.get('msg'))))
                continue
            for what in ('loc', 'mag'):
                if self._bad(r[what], tol):
                    fs.append(Failure('pad-option-not-applied:interp_envelope:%s:%s_pad_opts' % (em, what),
                                      '%s: extrema returned by interp_envelope(mode=%s, extrema_opts=..., ret_extrema=True) deviate by %s from np.pad '
                                      'of the actual extrema with these options' % (opts, em, r[what]), literal=lit))
            if self._bad(r.get('env'), tol * 1e3 * r.get('scale', 1.0)):
                fs.append(Failure('envelope-not-through-padded-extrema:interp_envelope:%s' % em,
                                  '%s interp_method=%s: envelope deviates by %s from the interpolant of the extrema padded with these options'
                                  % (opts, case['interp'], r['env']), literal=lit))
        return fs

    def tags(self, case, out):
        t = ['mag=' + ('None' if case['mag'] is None else ('{}' if not case['mag'] else case['mag']['mode'])),
             'loc=' + ('None' if case['loc'] is None else ('{}' if not case['loc'] else case['loc']['mode'])),
             'pad_width=%d' % case['pad_width'], 'parabolic=%s' % case['parabolic'], 'interp=' + case['interp']]
        if not isinstance(out, ImplError):
            for m, r in out['gpe'].items():
                k = r.get('rounds')
                t.append('%s:%s' % (m, 'fewer-than-two-extrema' if k is None else ('no-padding' if k == 0 else ('one-round' if k == 1 else 'several-rounds'))))
                if r.get('n_ext', 0) >= 2 and r['n_ext'] < case['pad_width']:
                    t.append('pad_width-clipped-to-number-of-extrema')
        return sorted(set(t))

    def nontrivial(self, case, out):
        return (not isinstance(out, ImplError)) and bool(case['mag']) and any((r.get('rounds') or 0) >= 1 for r in out['gpe'].values())

    def shrink(self, case):
        n = case['signal']['n']
        for m in (24, 48, 96):
            if m < n:
                yield dict(case, signal=dict(case['signal'], n=m))
        if case['parabolic']:
            yield dict(case, parabolic=False)
        if case['loc']:
            yield dict(case, loc=None)
        if case['interp'] != 'splrep':
            yield dict(case, interp='splrep')
        if case['pad_width'] > 2:
            yield dict(case, pad_width=2)


STREAMS = [Signatures(), Routing(), StageSpecialCases(), PadOracle()]
