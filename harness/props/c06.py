"""C06 — every sift option takes effect at the stage it configures, in every variant."""
import copy
import functools
import hashlib
import inspect
import os
import shutil
import tempfile

import numpy as np

from common import proto
from common.framework import Failure, ImplError, Stream, err_kind
from props import _cfg

ID = 'C06'
LEAN_MODULES = ['Proofs.C06']
REQUIRED = ['C06.resolve_idem', 'C06.defaults_agree', 'C06.stage_opts_effective', 'C06.route_independent',
            'C06.every_stage_reached', 'C06.legacy_mask_dropped_envelope_opts', 'C06.legacy_noise_sift_dropped_options',
            'C06.emit_total', 'C06.emit_route_missing', 'C06.emit_ok_wellformed',
            # the supplied numbers reach the rule each in its own place (seeded C06-7 rilling_thresh[0] for [2], C01-7 fallback
            # options gaining energy_thresh, C06-8 second-layer sift_args without max_imfs): link to the Sift model's options
            'C06.gni_rule_as_supplied', 'C06.rilling_thresh_positions', 'C06.sd_thresh_as_supplied',
            'C06.no_energy_thresh_unless_supplied', 'C06.second_layer_args_carry_every_option',
            # partial sift function AND sift_args (seeded C06-5): call-time keywords win
            'C06.partial_call_keywords_win', 'C06.funcArgs_stage_opts_effective']
TRUSTED = ['only stage calls inside the chain get_next_imf -> interp_envelope -> get_padded_extrema are observed (the wrappers track nesting); envelopes computed by frequency_transform for the if mask frequency are not sift stages',
           'the three stage functions get_next_imf / interp_envelope / get_padded_extrema are observed by wrapping the public '
           'module attributes from outside (emd.sift.<name> = wrapper, before any pool forks; workers inherit); each wrapper '
           'binds its arguments to the live signature (inspect.Signature.bind + apply_defaults) and appends the record to a '
           'per-pid file in a mkdtemp directory that is removed after the call',
           'signatures and defaults are constants of the model; they are compared with inspect.signature of the live functions '
           'on every run (stream signatures)',
           'the numerical effect of an option is not modelled: it is decided by the instance check (replay of every observed '
           'stage call with the options computed from the user dictionaries, and output comparison across routes); the padding '
           'stage itself is compared with numpy.pad applied to the actual extrema (stream pad_oracle), which trusts numpy.pad and, '
           'for the envelope, scipy.interpolate splrep/splev/pchip']
ASSUMPTIONS = ['how often a stage is called depends on the data, which records occur does not: the set of distinct records per '
               'stage is compared (validated: equality of sets on every case)',
               'option dictionaries are dicts or None; the user does not alias one dict object under two options',
               'mask_sift_second_layer forwards a copy of sift_args to mask_sift after setting max_imfs (when absent) and mask_freqs '
               '(always: an array slice, so get_mask_freqs is never called); it takes no sift function, so of the configuration routes '
               'only the unpacked configuration exists (model: Route.getFunc -> TypeError, compared on every case)',
               'mechanism-level (literal=False) kinds: stage-call-ignores-user-options for the inner stages interp_envelope / get_padded_extrema '
               '(how the public stage functions call each other; the get_next_imf level stays literal: observed extraction result vs extraction '
               'with the user dictionaries), mask-second-layer-accepts-sift-func, malformed-option-accepted for duplicate names / invalid values, '
               'special-case-literal-differs-from-defaults, pad-option-not-applied when no np.pad dictionary is supplied / pad_width exceeds the '
               'number of extrema / fewer than two extrema / several padding rounds, pad-oracle-not-runnable, harness-raised, instance-check-crashed; '
               'integer- and float-padded location ramps are both accepted']
RULE = ('grid: variant {sift, ensemble_sift, complete_ensemble_sift, mask_sift (zc / if / float / explicit frequencies), '
        'get_next_imf_mask, get_mask_freqs, get_next_imf, sift_second_layer(sift | mask_sift), mask_sift_second_layer} x imf options {sd threshold, '
        'rilling thresholds, fixed iterations, step size, energy threshold} x envelope options {splrep, pchip, mono_pchip} x '
        'extrema options {pad width, parabolic, custom np.pad dicts for locations and magnitudes, empty dict, None} x all '
        'three routes in every case x nprocesses {1, 2} x 3 signal families; plus malformed options (unknown names, duplicated '
        'names, non-dict values, invalid method). Non-trivial: at least one stage receives a non-default option. '
        'Second-layer cases are additionally run through the combined delivery sift_func=get_func partial + sift_args=keyword dicts and, when '
        'max_imfs equals its documented default, without a max_imfs entry (instance check: same result as the direct route). An unreachable '
        'stop threshold (sd_thresh=0) with a small max_iters must end every variant like the classic sift (an error, any kind). The '
        'noise-assisted variants are compared across routes only when a seeded call is reproducible (first route run twice). '
        'stop_rule (instance-only): rilling (5 triples whose 1st and 3rd entries differ + default), sd (3 thresholds + default), fixed x '
        '{splrep, pchip, mono_pchip} x {no extrema options, pad 4, parabolic} on noisy tones / noise / walk, n 64..256: get_next_imf, sift, '
        'sift via get_func, mask_sift and get_next_imf_mask with zero amplitude, ensemble_sift with zero noise, sift_second_layer must equal '
        'the extraction assembled from interp_envelope and the documented rule with the supplied numbers (near ties in a stop decision and '
        'runs beyond 300 iterations are tagged, not judged). '
        'pad_oracle (instance-only, independent of the stage function): get_padded_extrema x {peaks, troughs, abs_peaks} and '
        'interp_envelope x {upper, lower, combined} x {3 interpolation methods} with custom loc_pad_opts {default, reflect/odd, '
        'linear_ramp} and mag_pad_opts {median, mean, edge, maximum, minimum, constant c / (c1,c2), linear_ramp, reflect, symmetric, '
        'wrap} x pad width 0..7 x parabolic, on 4 signal families plus signals with fewer than two extrema; the result must equal '
        'np.pad with the same dictionaries applied to the unpadded extrema (three-point rule on the samples), repeated while the '
        'locations do not reach past both ends. Non-trivial there: a non-empty mag_pad_opts and at least one padding round.')

LEGACY = 0      # 1 = model of the pinned (pre-D5-repair) code, used once to rediscover the defect

STAGES = ['get_next_imf', 'interp_envelope', 'get_padded_extrema']
_STATE = {'dir': None, 'expect': None, 'busy': False, 'fallback': [], 'active': {}}
_INSTALLED = {}


def sift_mod():
    import emd
    return emd.sift


def _same(a, b):
    if isinstance(a, tuple) and isinstance(b, tuple):
        return len(a) == len(b) and all(_same(x, y) for x, y in zip(a, b))
    if a is None or b is None:
        return a is None and b is None
    if isinstance(a, (bool, np.bool_)) or isinstance(b, (bool, np.bool_)):
        return bool(a) == bool(b)
    a, b = np.asarray(a), np.asarray(b)
    return a.shape == b.shape and np.array_equal(a, b, equal_nan=True)


def _make_wrapper(name, orig):
    sig = inspect.signature(orig)
    first = list(sig.parameters)[0]
    parent = {'interp_envelope': 'get_next_imf', 'get_padded_extrema': 'interp_envelope'}.get(name)

    def wrapper(*a, **kw):
        d = _STATE['dir']
        if d is None or _STATE['busy']:
            return orig(*a, **kw)
        if parent is not None and _STATE['active'].get(parent, 0) == 0:
            # not inside the sift chain get_next_imf -> interp_envelope -> get_padded_extrema (e.g. the amplitude
            # envelopes frequency_transform computes for the 'if' mask frequency): not a stage call of the sift
            return orig(*a, **kw)
        lines = []
        rec = None
        try:
            ba = sig.bind(*a, **kw)
            ba.apply_defaults()
            rec = dict(ba.arguments)
            x = rec.pop(first)
            lines.append('call %s %s' % (name, _cfg.safe_wire(_sorted_keys(rec))))
        except TypeError:
            lines.append('call %s !unbindable' % name)
        _STATE['active'][name] = _STATE['active'].get(name, 0) + 1
        try:
            out = orig(*a, **kw)
        except BaseException as e:  # noqa
            lines.append('raised %s %s' % (name, type(e).__name__))
            _append(d, lines)
            raise
        finally:
            _STATE['active'][name] -= 1
        exp = _STATE['expect']
        if rec is not None and exp is not None and exp.get(name) is not None:
            # replay the ORIGINAL stage function on the same data with options computed from the user's dictionaries
            kwargs = copy.deepcopy(exp[name])   # never share nested option dicts with the call under observation
            if 'mode' in rec and name != 'get_next_imf':
                kwargs['mode'] = rec['mode']
            if name == 'interp_envelope':
                kwargs['ret_extrema'] = rec.get('ret_extrema', False)
            _STATE['busy'] = True
            try:
                try:
                    ref = orig(x, **kwargs)
                    ok = _same(out, ref)
                except Exception as e:  # noqa
                    ok = False
                    ref = 'raised ' + type(e).__name__
            finally:
                _STATE['busy'] = False
            if not ok:
                lines.append('mismatch %s %s' % (name, _cfg.safe_wire(_sorted_keys(rec))))
        _append(d, lines)
        return out
    functools.update_wrapper(wrapper, orig)
    wrapper._c06_orig = orig
    return wrapper


def _append(d, lines):
    with open(os.path.join(d, '%d.trace' % os.getpid()), 'a') as f:
        f.write('\n'.join(lines) + '\n')


def install():
    """Wrap the three public stage functions from outside (idempotent)."""
    S = sift_mod()
    for name in STAGES:
        cur = getattr(S, name, None)
        if cur is None or not os.environ.get('EMD_VERIF'):      # guard: only under ./vcheck (DESIGN.md 8)
            if name not in _STATE['fallback']:
                _STATE['fallback'].append(name)
            continue
        if getattr(cur, '_c06_orig', None) is not None:
            continue
        w = _make_wrapper(name, cur)
        _INSTALLED[name] = cur
        setattr(S, name, w)


def orig(name):
    f = getattr(sift_mod(), name)
    return getattr(f, '_c06_orig', f)


class traced:
    """Context: collect the stage-call records of everything run inside (all processes)."""

    def __init__(self, expect):
        self.expect = expect

    def __enter__(self):
        install()
        self.dir = tempfile.mkdtemp(prefix='vc06-')
        _STATE['dir'] = self.dir
        _STATE['expect'] = self.expect
        return self

    def __exit__(self, *exc):
        _STATE['dir'] = None
        _STATE['expect'] = None
        self.calls = {s_: set() for s_ in STAGES}
        self.mismatch = {s_: set() for s_ in STAGES}
        self.raised = set()
        self.pids = 0
        try:
            for fn in os.listdir(self.dir):
                self.pids += 1
                with open(os.path.join(self.dir, fn)) as f:
                    for line in f:
                        parts = line.rstrip('\n').split(' ', 2)
                        if len(parts) < 3:
                            continue
                        if parts[0] == 'call':
                            self.calls[parts[1]].add(parts[2])
                        elif parts[0] == 'mismatch':
                            self.mismatch[parts[1]].add(parts[2])
                        elif parts[0] == 'raised':
                            self.raised.add(parts[1] + ':' + parts[2])
        finally:
            shutil.rmtree(self.dir, ignore_errors=True)
        return False


# ------------------------------------------------------------------------------------------------

def make_signal(spec):
    rs = np.random.RandomState(spec['seed'])
    n = spec['n']
    t = np.linspace(0, 1, n)
    fam = spec['family']
    if fam == 'tones':
        x = np.sin(2 * np.pi * 5 * t) + 0.6 * np.sin(2 * np.pi * 17 * t + 1) + 0.3 * np.cos(2 * np.pi * 41 * t)
    elif fam == 'chirp':
        x = np.sin(2 * np.pi * (3 + 20 * t) * t) * (1 + 0.5 * t)
    else:
        x = np.cumsum(rs.randn(n)) * 0.2 + np.sin(2 * np.pi * 9 * t)
    return x + 0.05 * rs.randn(n)


def digest(o):
    if isinstance(o, tuple):
        return [digest(x) for x in o]
    if isinstance(o, (float, int, np.floating, np.integer)):
        return 'scalar:%r' % float(o)
    a = np.ascontiguousarray(np.asarray(o, dtype=float))
    return '%s:%s' % ('x'.join(map(str, a.shape)), hashlib.sha1(a.tobytes()).hexdigest()[:16])


def user_dicts(case):
    return {k2: (None if case.get(k2) is None else _cfg.build(case[k2])) for k2 in ('imf', 'env', 'ext')}


def expected_stage_kwargs(u):
    """What each stage must be called with, written directly from the user's dictionaries (route A form)."""
    imf = dict(u['imf'] or {})
    env = dict(u['env'] or {})
    ext = dict(u['ext'] or {})
    return {'get_next_imf': dict(imf, envelope_opts=u['env'], extrema_opts=u['ext']),
            'interp_envelope': dict(env, extrema_opts=u['ext']),
            'get_padded_extrema': ext}


ROUTES = ['direct', 'unpack', 'get_func']
CONFIG_VARIANTS = ['sift', 'ensemble_sift', 'complete_ensemble_sift', 'mask_sift']
NOISE_VARIANTS = ['ensemble_sift', 'complete_ensemble_sift']
IA_COLUMNS = 2          # first-layer columns handed to the second-layer sifts: the documented default of their max_imfs


def routes_of(case):
    return ROUTES if case['variant'] in CONFIG_VARIANTS else ['direct']


def extra_routes_of(case):
    """Delivery forms that only exist for the second-layer sifts (instance check by outcome; correspondence of the stage-call records
    with Options.emitFuncArgs / the direct route of the model):
    get_func+args      sift_second_layer(IA, sift_func=<get_func partial of a config holding the top-level options>,
                       sift_args=<the user's option dicts>): partial and keyword dicts combined; the keyword dicts are the
                       SUPPLIED options (ordinary partial semantics: call-time keywords win)       (round-3 change C06/1)
    direct-no-max_imfs the direct route without a 'max_imfs' entry in sift_args, when the entry equals the documented
                       default (number of first-layer IMFs): leaving an option at its default must not drop the others
                                                                                                   (round-4 change C06/2)"""
    if not case.get('second') or case.get('malformed'):
        return []
    ex = []
    top = dict((k2, v2) for k2, v2 in case.get('top', []))
    if case['second'] == 1:
        ex.append('get_func+args')
    if top.get('max_imfs') == IA_COLUMNS:
        ex.append('direct-no-max_imfs')
    return ex


def never_stops(case):
    """imf options whose stop rule cannot be met by construction (sd metric >= 0 is never < 0): the iteration limit the
    user supplied must then end the extraction with an error in every variant, as it does in the classic sift"""
    if case.get('imf') is None:
        return False
    d = dict((k2, v2) for k2, v2 in case['imf']['v'])
    return d.get('stop_method', 'sd') == 'sd' and d.get('sd_thresh', 1) == 0 and 'max_iters' in d


def _is_err(oc):
    return isinstance(oc, str) and oc.startswith('e:')


def run_route(case, route, x, with_opts=True):
    """One top-level call of the variant with the options delivered through `route`."""
    S = sift_mod()
    v = case['variant']
    u = user_dicts(case) if with_opts else {'imf': None, 'env': None, 'ext': None}
    top = {k2: _cfg.build(v2) for k2, v2 in case.get('top', [])}
    if v == 'get_next_imf' and not with_opts:
        top = {}              # for get_next_imf itself the imf options are the top-level keywords
    func = getattr(S, v)
    if route == 'get_func+args':
        cfg = S.get_config(v)
        for k2, v2 in top.items():
            cfg[k2] = v2
        sift_args = {}
        for name, key in (('imf_opts', 'imf'), ('envelope_opts', 'env'), ('extrema_opts', 'ext')):
            if u[key] is not None:
                sift_args[name] = u[key]
        sift_func = call = cfg.get_func()
    elif route in ('direct', 'direct-no-max_imfs'):
        kw = dict(top)
        if route == 'direct-no-max_imfs':
            del kw['max_imfs']
        for name, key in (('imf_opts', 'imf'), ('envelope_opts', 'env'), ('extrema_opts', 'ext')):
            if u[key] is not None:
                kw[name] = u[key]
        call = functools.partial(func, **kw)
        sift_func, sift_args = func, kw
    else:
        cfg = S.get_config(v)
        for k2, v2 in top.items():
            cfg[k2] = v2
        for name, key in (('imf_opts', 'imf'), ('envelope_opts', 'env'), ('extrema_opts', 'ext')):
            if u[key] is not None:
                for k2, v2 in u[key].items():
                    # both documented ways of setting an option of a configuration object: the slash key and nested indexing
                    if case.get('seed', 0) % 2:
                        cfg[name][k2] = v2
                    else:
                        cfg[name + '/' + k2] = v2
        if route == 'unpack':
            call = lambda xx: func(xx, **cfg)  # noqa
            sift_func, sift_args = func, dict(cfg)
        else:
            call = cfg.get_func()
            sift_func, sift_args = call, {}
    if case.get('second') == 2:
        # mask_sift_second_layer(IA, mask_freqs, sift_args): forwards sift_args to mask_sift; it has no sift_func parameter,
        # so a ready-made callable (route get_func) cannot be delivered at all (TypeError, as in the model)
        ia = np.abs(np.c_[x, np.roll(x, 7) * 0.5]) + 0.1
        freqs = np.array([0.25, 0.1, 0.04])
        if route == 'get_func':
            return S.mask_sift_second_layer(ia, freqs, sift_func=sift_func)
        return S.mask_sift_second_layer(ia, freqs, sift_args=sift_args)
    if case.get('second'):
        ia = np.abs(np.c_[x, np.roll(x, 7) * 0.5]) + 0.1
        return S.sift_second_layer(ia, sift_func=sift_func, sift_args=sift_args)
    if v == 'get_next_imf_mask':
        return call(x, 0.12, 0.8)
    return call(x)


class Routing(Stream):
    name = 'routing'
    parallel = False          # the variants create their own worker pools
    timeout_s = 600

    # ---------------------------------------------------------------- option vocabulary
    IMF = [None, {}, {'sd_thresh': 0.02}, {'stop_method': 'rilling'},
           {'stop_method': 'rilling', 'rilling_thresh': {'$': 'tuple', 'v': [0.2, 0.7, 0.2]}},
           {'stop_method': 'fixed', 'max_iters': 3}, {'env_step_size': 0.5}, {'energy_thresh': 40, 'sd_thresh': 0.05},
           {'stop_method': 'rilling', 'rilling_thresh': [0.02, 0.3, 0.02], 'env_step_size': 0.75, 'max_iters': 40},
           # a stop rule that cannot be met (the sd metric is never < 0) with a small iteration limit: the supplied limit
           # must end the extraction with the documented error in every variant (round-3 change C06/2 re-sifted the
           # ensemble members with stop_method='fixed' on that path)
           {'sd_thresh': 0.0, 'max_iters': 4}]
    ENV = [None, {}, {'interp_method': 'pchip'}, {'interp_method': 'mono_pchip'}, {'interp_method': 'splrep'}]
    EXT = [None, {}, {'pad_width': 4}, {'pad_width': 1}, {'parabolic_extrema': True},
           {'pad_width': 3, 'parabolic_extrema': True},
           {'mag_pad_opts': {'$': 'dict', 'v': [['mode', 'mean'], ['stat_length', 2]]}},
           {'loc_pad_opts': {'$': 'dict', 'v': [['mode', 'reflect'], ['reflect_type', 'odd']]}, 'pad_width': 3},
           {'mag_pad_opts': {'$': 'dict', 'v': [['mode', 'edge']]}, 'pad_width': 4},
           {'mag_pad_opts': {'$': 'dict', 'v': []}, 'loc_pad_opts': None},
           # custom pad modes whose result differs from the default mode with the same remaining keywords
           # (mean of 2 = median of 2 and edge = median of 1, so the two entries above cannot expose a lost 'mode')
           {'mag_pad_opts': {'$': 'dict', 'v': [['mode', 'mean'], ['stat_length', 3]]}},
           {'mag_pad_opts': {'$': 'dict', 'v': [['mode', 'maximum'], ['stat_length', 3]]}, 'pad_width': 3}]
    # options that certainly change the result on the test signals (the default-option output must differ)
    EFFECTIVE = {'imf': [2, 3, 5, 6], 'env': [2, 3], 'ext': [2, 3, 5, 6]}

    VARIANTS = [
        ('sift', [], 0), ('sift', [['max_imfs', 3]], 0),
        ('ensemble_sift', [['nensembles', 2], ['max_imfs', 2]], 0),
        ('ensemble_sift', [['nensembles', 3], ['max_imfs', 2], ['nprocesses', 2], ['noise_mode', 'flip']], 0),
        ('complete_ensemble_sift', [['nensembles', 2], ['max_imfs', 2]], 0),
        ('complete_ensemble_sift', [['nensembles', 2], ['max_imfs', 1], ['nprocesses', 2]], 0),
        ('mask_sift', [['max_imfs', 3]], 0), ('mask_sift', [['max_imfs', 2], ['mask_freqs', 'if'], ['nprocesses', 2]], 0),
        ('mask_sift', [['max_imfs', 3], ['mask_freqs', 0.2]], 0),
        ('mask_sift', [['mask_freqs', {'$': 'array', 'v': [0.25, 0.1, 0.04]}], ['nphases', 2]], 0),
        ('get_next_imf_mask', [], 0), ('get_next_imf_mask', [['nphases', 3], ['nprocesses', 2]], 0),
        ('get_mask_freqs', [], 0), ('get_mask_freqs', [['first_mask_mode', 'if']], 0), ('get_mask_freqs', [['first_mask_mode', 0.3]], 0),
        ('get_next_imf', [], 0),
        ('sift', [['max_imfs', 2]], 1), ('mask_sift', [['max_imfs', 2]], 1),
        # mask_sift_second_layer (second = 2): sift_args forwarded to mask_sift, mask_freqs overwritten per column
        # (max_imfs is always given: the configuration routes carry mask_sift's default 9, the direct route would default to IA.shape[1])
        ('mask_sift', [['max_imfs', 2]], 2), ('mask_sift', [['max_imfs', 3], ['nphases', 2], ['mask_amp_mode', 'ratio_sig']], 2),
        ('mask_sift', [['max_imfs', 2], ['mask_freqs', 'if'], ['nprocesses', 2]], 2),
    ]

    @staticmethod
    def _vname(v, second):
        return v + (':mask-second-layer' if second == 2 else ':second-layer' if second else '')

    def _case(self, vi, ii, ei, xi, fam='tones', n=192, seed=1, rng_seed=7):
        v, top, second = self.VARIANTS[vi]
        imf, env, ext = self.IMF[ii], self.ENV[ei], self.EXT[xi]
        j = lambda d: None if d is None else {'$': 'dict', 'v': [[k2, v2] for k2, v2 in d.items()]}  # noqa
        c = {'variant': v, 'top': top, 'second': second, 'imf': j(imf), 'env': j(env), 'ext': j(ext),
             'signal': {'family': fam, 'n': n, 'seed': seed}, 'seed': rng_seed}
        if v == 'get_next_imf':
            # no imf_opts parameter: the imf options are the function's own keywords
            c['top'] = top + [[k2, v2] for k2, v2 in (imf or {}).items()]
            c['imf'] = None
        eff = []
        if ii in self.EFFECTIVE['imf'] and not (v == 'get_mask_freqs' and top and top[0][1] == 0.3):
            eff.append('imf')
        if ei in self.EFFECTIVE['env']:
            eff.append('env')
        if xi in self.EFFECTIVE['ext']:
            eff.append('ext')
        if v == 'get_mask_freqs':
            eff = []          # a frequency (zero-crossing count) is too coarse to certainly react
        c['expect_effect'] = eff
        return c

    def corpus(self):
        V = {n_: i_ for i_, n_ in reversed(list(enumerate([v[0] + {0: '', 1: '2', 2: 'M2'}[v[2]] for v in self.VARIANTS])))}
        out = [
            # D5 witnesses: mask_sift / get_next_imf_mask / get_mask_freqs with pchip or pad 4; complete ensemble noise sifts
            self._case(V['mask_sift'], 0, 2, 0), self._case(V['mask_sift'], 0, 0, 2), self._case(V['mask_sift'], 3, 2, 2),
            self._case(V['get_next_imf_mask'], 0, 2, 2), self._case(V['get_mask_freqs'], 0, 2, 2),
            self._case(V['complete_ensemble_sift'], 3, 0, 0), self._case(V['complete_ensemble_sift'], 0, 2, 0),
            self._case(V['complete_ensemble_sift'], 0, 0, 2), self._case(V['complete_ensemble_sift'] + 1, 5, 3, 5),
            self._case(V['sift'], 0, 0, 0), self._case(V['sift'], 1, 1, 1), self._case(V['sift'], 4, 2, 6),
            self._case(V['ensemble_sift'], 3, 2, 2), self._case(V['ensemble_sift'] + 1, 5, 3, 7),
            self._case(V['get_next_imf'], 4, 2, 8), self._case(V['sift2'], 3, 2, 2), self._case(V['mask_sift2'], 2, 3, 3),
            self._case(V['mask_sift'] + 1, 6, 2, 4), self._case(V['mask_sift'] + 2, 2, 0, 9), self._case(V['mask_sift'] + 3, 8, 4, 5),
            # a custom pad mode must survive every later padding call that shares the caller's dict (seeded change C06-2)
            self._case(V['sift'], 0, 0, 10), self._case(V['sift'] + 1, 0, 0, 11), self._case(V['mask_sift'], 0, 0, 10),
            self._case(V['sift2'], 0, 0, 10), self._case(V['ensemble_sift'], 0, 0, 11),
            # mask_sift_second_layer: every stage option, all three delivery attempts
            self._case(V['mask_siftM2'], 3, 2, 2), self._case(V['mask_siftM2'], 0, 0, 0), self._case(V['mask_siftM2'] + 1, 5, 3, 5),
            self._case(V['mask_siftM2'] + 2, 2, 2, 10), self._case(V['mask_siftM2'], 6, 0, 7),
            # seeded change C06-1 (the sign-flipped half of a flip ensemble sifted without the extrema options): splrep is global
            self._case(V['ensemble_sift'] + 1, 0, 0, 2, n=128),
            # second layer, effective options on one stage at a time (extra routes get_func+args / direct-no-max_imfs)
            self._case(V['sift2'], 5, 0, 0, n=128), self._case(V['sift2'], 0, 2, 0, n=128), self._case(V['sift2'], 0, 0, 2, n=128),
            self._case(V['mask_sift2'], 5, 3, 0, n=96), self._case(V['mask_siftM2'], 0, 0, 5, n=96),
            # the supplied iteration limit with an unreachable stop threshold, in every variant incl. worker processes
            self._case(V['sift'], 9, 0, 0, n=128), self._case(V['ensemble_sift'], 9, 0, 0, n=128), self._case(V['ensemble_sift'] + 1, 9, 0, 0, n=128),
            self._case(V['complete_ensemble_sift'], 9, 0, 0, n=128), self._case(V['complete_ensemble_sift'] + 1, 9, 2, 0, n=128),
            self._case(V['mask_sift'], 9, 0, 0, n=128), self._case(V['sift2'], 9, 0, 0, n=128), self._case(V['get_next_imf_mask'], 9, 0, 0, n=128),
        ]
        # malformed options: unknown names, names bound twice, non-dict values, invalid method
        bad = [
            dict(self._case(V['sift'], 0, 0, 0), imf={'$': 'dict', 'v': [['nope', 1]]}),
            dict(self._case(V['sift'], 0, 0, 0), env={'$': 'dict', 'v': [['nope', 1]]}),
            dict(self._case(V['mask_sift'], 0, 0, 0), ext={'$': 'dict', 'v': [['nope', 1]]}),
            dict(self._case(V['sift'], 0, 0, 0), imf={'$': 'dict', 'v': [['envelope_opts', {'$': 'dict', 'v': []}]]}),
            dict(self._case(V['ensemble_sift'], 0, 0, 0), env={'$': 'dict', 'v': [['extrema_opts', None]]}),
            dict(self._case(V['sift'], 0, 0, 0), ext={'$': 'dict', 'v': [['mode', 'peaks']]}),
            dict(self._case(V['sift'], 0, 0, 0), env={'$': 'dict', 'v': [['interp_method', 'cubic']]}),
            dict(self._case(V['sift'], 0, 0, 0), top=[['nope', 1]]),
            dict(self._case(V['ensemble_sift'], 0, 0, 0), top=[['nensembles', 2], ['noise_mode', 'both']]),
            dict(self._case(V['mask_siftM2'], 0, 0, 0), imf={'$': 'dict', 'v': [['nope', 1]]}),
            dict(self._case(V['mask_siftM2'], 0, 0, 0), env={'$': 'dict', 'v': [['interp_method', 'cubic']]}),
        ]
        kinds = ['unknown-name', 'unknown-name', 'unknown-name', 'duplicate-name', 'duplicate-name', 'duplicate-name',
                 'invalid-value', 'unknown-name', 'invalid-value', 'unknown-name', 'invalid-value']
        for c, kind in zip(bad, kinds):
            c['expect_effect'] = []
            c['malformed'] = kind
        return out + bad

    def generate(self, rng, tier):
        n_cases = 400 if tier == 'thorough' else 16
        for i in range(n_cases):
            vi = rng.randrange(len(self.VARIANTS))
            ii, ei, xi = rng.randrange(len(self.IMF)), rng.randrange(len(self.ENV)), rng.randrange(len(self.EXT))
            if rng.random() < 0.5:      # concentrate on one stage at a time half of the time
                keep = rng.choice('iex')
                ii, ei, xi = (ii if keep == 'i' else 0), (ei if keep == 'e' else 0), (xi if keep == 'x' else 0)
            yield self._case(vi, ii, ei, xi, fam=rng.choice(['tones', 'chirp', 'walk']), n=rng.choice([128, 192, 256]),
                             seed=rng.randint(0, 10 ** 6), rng_seed=rng.randint(0, 10 ** 6))

    # ---------------------------------------------------------------- implementation side
    def impl(self, case):
        x = make_signal(case['signal'])
        u = user_dicts(case)
        if case['variant'] == 'get_next_imf':
            u = dict(u, imf={k2: _cfg.build(v2) for k2, v2 in case['top']})
        expect = None if case.get('malformed') else copy.deepcopy(expected_stage_kwargs(u))
        res = {}

        def one(route, exp=expect):
            with traced(exp) as t:
                np.random.seed(case['seed'])
                try:
                    outcome = digest(run_route(case, route, x))
                except Exception as e:  # noqa
                    outcome = 'e:' + err_kind(e)
            return {'outcome': outcome, 'calls': {s_: sorted(t.calls[s_]) for s_ in STAGES},
                    'mismatch': {s_: sorted(t.mismatch[s_])[:3] for s_ in STAGES if t.mismatch[s_]},
                    'pids': t.pids, 'raised': sorted(t.raised)}
        for route in routes_of(case):
            res[route] = one(route)
        extra = {}
        for route in extra_routes_of(case):
            extra[route] = one(route, None)       # judged by their outcome only: no per-call replay
        out = {'routes': res, 'extra_routes': extra, 'fallback': list(_STATE['fallback'])}
        if case['variant'] in NOISE_VARIANTS:
            # The routes of the noise-assisted variants can only be compared when seeding numpy's legacy global generator
            # makes a call reproducible (nothing in the property says where the noise comes from): run the first route twice.
            out['reproducible'] = one(routes_of(case)[0], None)['outcome'] == res[routes_of(case)[0]]['outcome']
        base = None
        if case.get('expect_effect'):
            np.random.seed(case['seed'])
            try:
                base = digest(run_route(case, 'direct', x, with_opts=False))
            except Exception as e:  # noqa
                base = 'e:' + err_kind(e)
        out['default_outcome'] = base
        if never_stops(case):
            # the classic sift with the very same option dictionaries (what "identically" is measured against)
            S = sift_mod()
            kw = {name: u[key] for name, key in (('imf_opts', 'imf'), ('envelope_opts', 'env'), ('extrema_opts', 'ext')) if u[key] is not None}
            try:
                out['classic'] = digest(S.sift(x, max_imfs=1, **copy.deepcopy(kw)))
            except Exception as e:  # noqa
                out['classic'] = 'e:' + err_kind(e)
        return out

    # ---------------------------------------------------------------- model side
    def ops(self, case, out):
        args = {'variant': case['variant'], 'second': int(case.get('second') or 0), 'legacy': LEGACY,
                'top': _cfg.wire({k2: _cfg.build(v2) for k2, v2 in case.get('top', [])}),
                'imf': _cfg.wire(_cfg.build(case['imf'])) if case['imf'] is not None else 'N',
                'env': _cfg.wire(_cfg.build(case['env'])) if case['env'] is not None else 'N',
                'ext': _cfg.wire(_cfg.build(case['ext'])) if case['ext'] is not None else 'N'}
        ops = [proto.op('OPTS', dict(args, route=r)) for r in routes_of(case)]
        # the delivery forms of the second-layer sifts (model: Options.emitFuncArgs - partial AND sift_args, C06.funcArgs_stage_opts_effective;
        # the direct route without max_imfs - C06.second_layer_args_carry_every_option / stage_opts_effective)
        for r in extra_routes_of(case):
            if r == 'get_func+args':
                ops.append(proto.op('OPTS', dict(args, route='get_func+args')))
            else:
                top = {k2: _cfg.build(v2) for k2, v2 in case.get('top', []) if k2 != 'max_imfs'}
                ops.append(proto.op('OPTS', dict(args, route='direct', top=_cfg.wire(top))))
        return ops

    def compare(self, case, out, results):
        if isinstance(out, ImplError):
            if out['error'] == 'Timeout':
                return 'skip:traced run exceeded the per-case time budget'
            return 'implementation harness raised %s: %s' % (out['error'], out['msg'])
        if out['fallback']:
            return 'skip:stage functions %s cannot be wrapped from outside; output equivalence only' % out['fallback']
        skipped = None
        for route, r in zip(list(routes_of(case)) + list(extra_routes_of(case)), results):
            o = out['routes'][route] if route in out['routes'] else out['extra_routes'][route]
            failed = isinstance(o['outcome'], str) and o['outcome'].startswith('e:')
            if r.status == 'err':
                if not failed:
                    if case.get('malformed') or (case.get('second') == 2 and route == 'get_func'):
                        # outside the quantifier (malformed options; a callable handed to mask_sift_second_layer): the
                        # model refuses, the implementation accepts - not the property's business
                        skipped = 'skip:input outside the quantifier: the model refuses it, the implementation returns a result'
                        continue
                    return '%s: model raises %s, implementation %s' % (route, r.words, o['outcome'])
                continue          # both refuse: the property fixes no exception class
            if not r.ok:
                return '%s: model answered %s' % (route, r.raw[:200])
            if failed and case.get('malformed'):
                skipped = 'skip:input outside the quantifier: the implementation refuses it (%s), the model does not' % o['outcome']
                continue
            for st, key in zip(STAGES, ('gni', 'ie', 'gpe')):
                # records are compared as VALUES: the order of the keys inside an option dictionary is not observable
                # by the stage that receives it
                model = set(_canon_wire(x) for x in _cfg.unwire(r.args[key]))
                impl = set(_canon_rec(x) for x in o['calls'][st])
                if failed:
                    if not impl <= model:
                        return '%s/%s: implementation raised %s after calls the model does not make: %s' % (
                            route, st, o['outcome'], _pretty(impl - model))
                    skipped = 'skip:implementation raised %s (calls made so far agree with the model)' % o['outcome']
                elif impl != model:
                    return '%s/%s: implementation-only %s  model-only %s' % (route, st, _pretty(impl - model), _pretty(model - impl))
        return skipped

    def holds(self, case, out):
        try:
            return self._holds(case, out)
        except Exception as ex:  # noqa   a crash of the check itself is never a property violation
            return [Failure('instance-check-crashed', repr(ex), literal=False)]

    def _holds(self, case, out):
        if isinstance(out, ImplError):
            if out['error'] == 'Timeout':
                return []      # run time is not part of C06; counted as skipped in compare()
            return [Failure('harness-raised:' + out['error'], out['msg'], literal=False)]
        fs = []
        v = self._vname(case['variant'], case.get('second'))
        routes = routes_of(case)
        if case.get('second') == 2:
            # no callable can be handed to mask_sift_second_layer (the model's Route.getFunc -> TypeError convention; the
            # property does not say what that function accepts): mechanism level, and not a delivery route
            # (whether it is rejected - today a TypeError - is not judged: tag mask-second-layer:sift_func-accepted)
            routes = [r_ for r_ in routes if r_ != 'get_func']
        if case.get('malformed'):
            # "never silently dropped": an option name no stage knows must not be swallowed (literal); a name bound twice
            # or an invalid VALUE is outside the quantifier (a library may merge / add a method): mechanism level
            lit = case['malformed'] in (True, 'unknown-name')
            for route in routes:
                oc = out['routes'][route]['outcome']
                if not _is_err(oc):
                    fs.append(Failure('malformed-option-accepted:%s:%s' % (v, route), str(case), literal=lit))
            return fs
        allr = dict(out['routes'])
        allr.update(out.get('extra_routes') or {})
        for route in routes + list((out.get('extra_routes') or {})):
            o = allr[route]
            for st, recs in o['mismatch'].items():
                # The extraction stage get_next_imf is the outermost stage of the chain: its observed result on its observed
                # input must be the result of single-IMF extraction with the user's dictionaries ("output equality with a
                # pipeline assembled from the stage functions with the same options") - literal. How the public stage
                # functions call EACH OTHER inside an extraction (interp_envelope -> get_padded_extrema) is mechanism.
                fs.append(Failure('stage-call-ignores-user-options:%s:%s' % (st, case['variant']),
                                  '%s route %s: %s was called with %s; replaying it with the user options gives a different result'
                                  % (v, route, st, _pretty(recs)), literal=(st == 'get_next_imf')))
        ocs = {route: allr[route]['outcome'] for route in allr}
        ref = ocs[routes[0]]
        if case['variant'] in NOISE_VARIANTS and not out.get('reproducible', True):
            pass        # seeding the global generator does not make a call reproducible: routes not comparable (tagged)
        else:
            for route in routes[1:] + list((out.get('extra_routes') or {})):
                if ocs[route] != ref and not (_is_err(ocs[route]) and _is_err(ref)):
                    fs.append(Failure('routes-disagree:%s:%s-vs-direct' % (case['variant'], route), '%s vs %s (%s)' % (ocs[route], ref, v)))
        # get_mask_freqs extracts an IMF only for first_mask_mode='if' (zero crossings / a given frequency involve no sift):
        # without an extraction stage there is nothing for the iteration limit to govern
        sifts = not (case['variant'] == 'get_mask_freqs' and dict((k, v2) for k, v2 in case.get('top', [])).get('first_mask_mode') != 'if')
        if _is_err(out.get('classic')) and sifts:
            for route in allr:
                if route in routes or route in (out.get('extra_routes') or {}):
                    if not _is_err(ocs[route]):
                        fs.append(Failure('supplied-iteration-limit-not-applied:%s:%s' % (case['variant'], route),
                                          '%s route %s with imf options %s: the stop rule can never be met, the classic sift given the same '
                                          'dictionaries ends with %s after max_iters iterations, this variant returned %s - the supplied stop '
                                          'rule / iteration limit did not govern the extraction stage'
                                          % (v, route, _cfg.build(case['imf']), out['classic'][2:], ocs[route])))
        # (no 'option has no effect on this signal' check: an option may legitimately not matter for one signal; whether
        #  options are honoured is decided by the per-call replay above and by the stage-call records of the correspondence)
        return fs

    def tags(self, case, out):
        t = ['variant=' + case['variant'] + ('(mask-second-layer)' if case.get('second') == 2 else '(second-layer)' if case.get('second') else '')]
        for k2 in ('imf', 'env', 'ext'):
            d = case[k2]
            t.append('%s=%s' % (k2, 'None' if d is None else ('{}' if not d['v'] else '+'.join(sorted(x[0] for x in d['v'])))))
        for k2, v2 in case.get('top', []):
            if k2 in ('nprocesses', 'mask_freqs', 'noise_mode', 'first_mask_mode', 'stop_method'):
                t.append('%s=%s' % (k2, v2 if not isinstance(v2, dict) else 'array'))
        if case.get('malformed'):
            t.append('malformed')
        if not isinstance(out, ImplError):
            if out.get('reproducible') is False:
                t.append('seeded-call-not-reproducible:routes-not-compared')
            if case.get('second') == 2 and not _is_err(out['routes'].get('get_func', {}).get('outcome', 'e:')):
                t.append('mask-second-layer:sift_func-accepted')
            if 'classic' in out:
                t.append('unreachable-stop-rule:classic-sift-' + ('raises' if _is_err(out['classic']) else 'returns'))
            for route in (out.get('extra_routes') or {}):
                t.append('extra-route=' + route)
            for route, o in out['routes'].items():
                t.append('outcome:%s' % ('error:' + o['outcome'][2:] if str(o['outcome']).startswith('e:') else 'array'))
                if o['pids'] > 1:
                    t.append('records-from-worker-processes')
        return sorted(set(t))

    def nontrivial(self, case, out):
        return any(case[k2] is not None and case[k2]['v'] for k2 in ('imf', 'env', 'ext')) or \
            (case['variant'] == 'get_next_imf' and len(case.get('top', [])) > 0)

    def shrink(self, case):
        for k2 in ('imf', 'env', 'ext'):
            if case[k2] is not None:
                c = dict(case)
                c[k2] = None
                c['expect_effect'] = [e for e in case.get('expect_effect', []) if e != k2]
                yield c
        if case['signal']['n'] > 128:
            yield dict(case, signal=dict(case['signal'], n=128))


def _sorted_keys(o):
    if isinstance(o, dict):
        # `None` and `{}` for a nested option dictionary both mean "nothing supplied for that stage": which of the two an
        # outer function hands to an inner one is internal forwarding, not an option value
        return {k2: ({} if (o[k2] is None and str(k2).endswith('_opts')) else _sorted_keys(o[k2])) for k2 in sorted(o)}
    if isinstance(o, list):
        return [_sorted_keys(x) for x in o]
    if isinstance(o, tuple):
        return tuple(_sorted_keys(x) for x in o)
    return o


def _canon_wire(o):
    return _cfg.wire(_sorted_keys(o))


def _canon_rec(rec):
    """a recorded stage call (wire string) with every dictionary in sorted key order; unparsable records stay as they are"""
    try:
        return _cfg.wire(_sorted_keys(_cfg.unwire(rec)))
    except Exception:  # noqa
        return rec


def _pretty(recs):
    out = []
    for r in list(recs)[:3]:
        try:
            out.append(_cfg.unwire(r))
        except Exception:  # noqa
            out.append(r)
    return out


# ------------------------------------------------------------------------------------------------

EMPTY = '<required>'


def sig_table(func):
    d = {}
    params = list(inspect.signature(func).parameters.items())[1:]          # without the data parameter
    for p, par in params:
        d[p] = EMPTY if par.default is inspect.Parameter.empty else par.default
    return d


class Signatures(Stream):
    """Assumption validator: the signature tables of the model are the live signatures."""
    name = 'signatures'
    exhaustive = True
    NAMES = ['get_next_imf', 'interp_envelope', 'get_padded_extrema', 'sift', '_sift_with_noise', 'ensemble_sift',
             'complete_ensemble_sift', 'get_next_imf_mask', 'get_mask_freqs', 'mask_sift']

    def generate(self, rng, tier):
        return [{'functions': self.NAMES}]

    def impl(self, case):
        S = sift_mod()
        install()
        return {n_: _cfg.safe_wire(sig_table(getattr(S, n_))) for n_ in case['functions'] if hasattr(S, n_)}

    def ops(self, case, out):
        return ['OPTSIGS']

    def compare(self, case, out, results):
        if isinstance(out, ImplError):
            return 'implementation raised %s' % out['error']
        model = _cfg.unwire(results[0].args['sigs'])
        for n_ in case['functions']:
            if n_ not in out:
                if n_.startswith('_'):
                    continue          # a private helper may be renamed or removed at will: not part of the correspondence
                return 'emd.sift.%s no longer exists' % n_
            if LEGACY and n_ == 'get_mask_freqs':
                continue
            live = _cfg.unwire(out[n_])
            if n_.startswith('_'):
                # private helper: only the parameters the model binds positionally must be where the model expects them
                live = dict(list(live.items())[:len(model[n_])])
            if _canon_wire(model[n_]) != _canon_wire(live):       # as values: key order of (nested) dictionaries is not compared
                return '%s: live signature %s, model %s' % (n_, _cfg.unwire(out[n_]), model[n_])
        return None

    def holds(self, case, out):
        return []


class StageSpecialCases(Stream):
    """The in-function literals (defaults_agree on the implementation): a stage called with nothing, with an empty
    dict, with the spelled-out defaults and with the get_config dictionaries gives identical results."""
    name = 'special_cases'

    def generate(self, rng, tier):
        for i in range(60 if tier == 'thorough' else 8):
            yield {'signal': {'family': rng.choice(['tones', 'chirp', 'walk']), 'n': rng.choice([64, 128, 200]),
                              'seed': rng.randint(0, 10 ** 6)}}

    def impl(self, case):
        S = sift_mod()
        install()
        x = make_signal(case['signal'])
        cfg = S.get_config('sift')
        res = {}
        gpe = S.get_padded_extrema
        res['gpe'] = [digest(gpe(x)), digest(gpe(x, loc_pad_opts={}, mag_pad_opts={})),
                      digest(gpe(x, **_cfg.deep(cfg['extrema_opts'])))]
        ie = S.interp_envelope
        res['ie'] = [digest(ie(x)), digest(ie(x, extrema_opts={})), digest(ie(x, extrema_opts=None, **cfg['envelope_opts'])),
                     digest(ie(x, extrema_opts=_cfg.deep(cfg['extrema_opts'])))]
        gni = S.get_next_imf
        res['gni'] = [digest(gni(x)[0]), digest(gni(x, envelope_opts={}, extrema_opts={})[0]),
                      digest(gni(x, **_cfg.deep(cfg['imf_opts']), envelope_opts=_cfg.deep(cfg['envelope_opts']),
                                 extrema_opts=_cfg.deep(cfg['extrema_opts']))[0])]
        res['sift'] = [digest(S.sift(x)), digest(S.sift(x, imf_opts={})), digest(S.sift(x, imf_opts=_cfg.deep(cfg['imf_opts']))),
                       digest(S.sift(x, **cfg))]
        return res

    def holds(self, case, out):
        # No option is SUPPLIED in any of these calls, so nothing can be dropped: agreement of the in-function fall-back
        # literals with the signature / get_config defaults is the model's `defaults_agree` (mechanism level).
        if isinstance(out, ImplError):
            if 'imeout' in str(out['error']):
                return []
            return [Failure('special-cases:raises:' + out['error'], out['msg'], literal=False)]
        return [Failure('special-case-literal-differs-from-defaults:' + k2, str(v2), literal=False)
                for k2, v2 in out.items() if len(set(map(str, v2))) != 1]

    def tags(self, case, out):
        return ['family=' + case['signal']['family']]


# ------------------------------------------------------------------------------------------------
# Independent oracle for the padding stage.  The routing stream replays every observed stage call through the
# stage function itself, so it cannot see a stage function that applies a supplied pad option wrongly.  Here the
# padded extrema are rebuilt from the UNPADDED extrema (brute-force three-point rule on the samples; for parabolic
# refinement the function's own pad_width=0 answer) and numpy's own np.pad with exactly the user's dictionaries,
# repeated while `max(locs) < len(X) or min(locs) >= 0` (the documented rule of get_padded_extrema).

GPE_MODES = ['peaks', 'troughs', 'abs_peaks']
ENV_MODES = {'upper': 'peaks', 'lower': 'troughs', 'combined': 'abs_peaks'}
DEFAULT_LOC = {'mode': 'reflect', 'reflect_type': 'odd'}
DEFAULT_MAG = {'mode': 'median', 'stat_length': 1}
MAX_ROUNDS = 64


def pad_signal(spec):
    n = spec['n']
    t = np.linspace(0, 1, n)
    fam = spec['family']
    if fam == 'mono':
        return t + 0.1 * t ** 2                                   # no extremum at all
    if fam == 'hump':
        return np.sin(np.pi * t) + 0.25 * t                       # one peak, no trough
    if fam == 'offset':
        rs = np.random.RandomState(spec['seed'])                  # strictly positive: troughs are positive values
        return 3.0 + np.sin(2 * np.pi * 6 * t + rs.uniform(0, 6)) + 0.4 * np.sin(2 * np.pi * 19 * t) + 0.05 * rs.randn(n)
    return make_signal(spec)


def brute_extrema(x, mode):
    """Unpadded extrema by the three-point rule on the samples (strict, interior samples only)."""
    y = {'peaks': x, 'troughs': -x, 'abs_peaks': np.abs(x)}[mode]
    locs = np.array([i for i in range(1, len(y) - 1) if y[i] > y[i - 1] and y[i] > y[i + 1]], dtype=int)
    vals = np.abs(x)[locs] if mode == 'abs_peaks' else x[locs]
    return locs, vals


def oracle_padded(locs, mags, n, w, loc_opts, mag_opts):
    """np.pad with the user's dictionaries on the actual locations / magnitudes -> (locs, mags, rounds) | None."""
    if len(locs) < 2:
        return None
    lo = dict(loc_opts) if loc_opts else dict(DEFAULT_LOC)
    mo = dict(mag_opts) if mag_opts else dict(DEFAULT_MAG)
    w = min(w, len(locs))
    if w == 0:
        return np.asarray(locs), np.asarray(mags), 0
    L, M, rounds = np.pad(locs, w, **lo), np.pad(mags, w, **mo), 1
    while L.max() < n or L.min() >= 0:
        if rounds >= MAX_ROUNDS:
            raise RuntimeError('padding rule does not terminate with these location options')
        L, M, rounds = np.pad(L, w, **lo), np.pad(M, w, **mo), rounds + 1
    return L, M, rounds


def oracle_envelope(L, M, n, method):
    from scipy import interpolate as interp
    t = np.arange(n)
    if method == 'splrep':
        return interp.splev(t, interp.splrep(L, M))
    if method == 'mono_pchip':
        return interp.PchipInterpolator(L, M)(t)
    return interp.pchip(L, M)(t)


def _dev(a, b):
    """Largest absolute deviation of two arrays, or a word when they cannot be compared."""
    if a is None or b is None:
        return None if (a is None and b is None) else 'one-is-None'
    a, b = np.asarray(a, dtype=float), np.asarray(b, dtype=float)
    if a.shape != b.shape:
        return 'shape %s vs %s' % (a.shape, b.shape)
    if a.size == 0:
        return 0.0
    if not np.all(np.isfinite(a) == np.isfinite(b)):
        return 'non-finite'
    m = np.isfinite(a)
    return float(np.max(np.abs(a[m] - b[m]))) if m.any() else 0.0


def _head(a, k=6):
    return None if a is None else [float(v) for v in np.asarray(a, dtype=float)[:k]]


class PadOracle(Stream):
    """C06 'an extrema/padding option governs that stage': instance-only, independent of the stage function's own padding."""
    name = 'pad_oracle'

    MAG = [None, {}, {'mode': 'median', 'stat_length': 1}, {'mode': 'median', 'stat_length': 3},
           {'mode': 'mean', 'stat_length': 2}, {'mode': 'mean', 'stat_length': 3}, {'mode': 'edge'},
           # sign-asymmetric rules: a stage that pads a sign-flipped copy applies the opposite rule
           {'mode': 'maximum', 'stat_length': 3}, {'mode': 'minimum', 'stat_length': 3}, {'mode': 'maximum'},
           {'mode': 'minimum', 'stat_length': 2},
           {'mode': 'constant', 'constant_values': 0.75}, {'mode': 'constant', 'constant_values': [-0.5, 1.25]},
           {'mode': 'linear_ramp', 'end_values': 0.5}, {'mode': 'linear_ramp', 'end_values': [1.0, -1.0]},
           {'mode': 'reflect'}, {'mode': 'symmetric', 'reflect_type': 'odd'}, {'mode': 'wrap'}]
    LOC = [None, {}, {'mode': 'reflect', 'reflect_type': 'odd'}, 'ramp']    # 'ramp': linear_ramp to end values outside the signal
    INTERP = ['splrep', 'pchip', 'mono_pchip']

    def _case(self, fam, n, seed, w, par, li, mi, interp='splrep'):
        loc = self.LOC[li]
        if loc == 'ramp':
            loc = {'mode': 'linear_ramp', 'end_values': [-(n // 2) - 1, n + n // 2]}
        return {'signal': {'family': fam, 'n': n, 'seed': seed}, 'pad_width': w, 'parabolic': bool(par),
                'loc': copy.deepcopy(loc), 'mag': copy.deepcopy(self.MAG[mi]), 'interp': interp}

    def corpus(self):
        out = []
        # every magnitude rule once on a two-tone signal and once on a strictly positive one (round-2 change C06/2:
        # troughs padded as peaks of the flipped signal -> maximum<->minimum, c<->-c on the lower envelope)
        for mi in range(len(self.MAG)):
            out.append(self._case('tones', 96, 1, 2 + mi % 3, False, mi % 3, mi, self.INTERP[mi % 3]))
            out.append(self._case('offset', 128, 5, 3, mi % 2 == 1, 0, mi))
        out += [self._case('tones', 12, 1, 5, False, 0, 7),          # pad_width clipped to the number of extrema
                self._case('chirp', 24, 2, 6, False, 2, 11),
                self._case('mono', 40, 0, 2, False, 0, 7),           # fewer than two extrema: None
                self._case('hump', 40, 0, 2, False, 0, 8),
                self._case('tones', 96, 1, 0, False, 0, 7),          # pad_width 0: the unpadded extrema
                self._case('walk', 200, 3, 1, True, 0, 12),          # pad_width 1 usually needs several rounds
                self._case('walk', 160, 9, 4, False, 3, 13, 'pchip')]
        return out

    def generate(self, rng, tier):
        for _ in range(900 if tier == 'thorough' else 60):
            fam = rng.choice(['tones', 'chirp', 'walk', 'offset', 'offset', 'hump', 'mono'] if rng.random() < 0.15
                             else ['tones', 'chirp', 'walk', 'offset'])
            yield self._case(fam, rng.choice([12, 24, 48, 64, 128, 200, 320]), rng.randint(0, 10 ** 6), rng.choice([0, 1, 2, 2, 3, 4, 5, 7]),
                             rng.random() < 0.3, rng.randrange(len(self.LOC)), rng.randrange(len(self.MAG)), rng.choice(self.INTERP))

    def impl(self, case):
        S = sift_mod()
        x = pad_signal(case['signal'])
        n, w, par = len(x), case['pad_width'], case['parabolic']
        tol = 1e-9 * max(1.0, float(np.max(np.abs(x))), float(n))
        res = {'tol': tol, 'gpe': {}, 'env': {}}
        oracles, alts = {}, {}
        for m in GPE_MODES:
            r = {}
            raw = S.get_padded_extrema(x.copy(), pad_width=0, mode=m, parabolic_extrema=par)
            raw = (None, None) if raw[0] is None else (np.asarray(raw[0]), np.asarray(raw[1]))
            bl, bm = brute_extrema(x, m)
            if not par:
                r['unpadded'] = [_dev(raw[0], bl if len(bl) >= 2 else None), _dev(raw[1], bm if len(bm) >= 2 else None)]
                ul, um = bl, bm
            else:
                ul, um = (np.array([]), np.array([])) if raw[0] is None else raw
            r['n_ext'] = int(len(ul))
            try:
                want = oracle_padded(ul, um, n, w, case['loc'], case['mag'])
                # the location ramp of np.pad(linear_ramp) is truncated for integer locations and exact for float ones:
                # the property does not say which dtype the stage keeps its locations in, either reading is accepted
                alt = None
                if want is not None and np.asarray(ul).dtype.kind in 'iu' and (case['loc'] or {}).get('mode') == 'linear_ramp':
                    alt = oracle_padded(np.asarray(ul, dtype=float), um, n, w, case['loc'], case['mag'])
            except Exception as e:  # noqa   the oracle's own np.pad refuses / the padding rule does not terminate
                r['oracle_failed'] = '%s: %s' % (err_kind(e), str(e)[:100])
                oracles[m] = None
                res['gpe'][m] = r
                continue
            oracles[m] = want
            alts[m] = alt
            r['rounds'] = None if want is None else want[2]
            try:
                got = S.get_padded_extrema(x.copy(), pad_width=w, mode=m, parabolic_extrema=par,
                                           loc_pad_opts=copy.deepcopy(case['loc']), mag_pad_opts=copy.deepcopy(case['mag']))
            except Exception as e:  # noqa
                r['error'] = err_kind(e)
                res['gpe'][m] = r
                continue
            r['loc'] = _dev(got[0], None if want is None else want[0])
            r['mag'] = _dev(got[1], None if want is None else want[1])
            if alt is not None and isinstance(r['loc'], float) and r['loc'] > tol:
                d2 = _dev(got[0], alt[0])
                if isinstance(d2, float) and d2 <= tol:
                    want = oracles[m] = alt
                    alts[m] = None
                    r['loc'], r['mag'] = d2, _dev(got[1], alt[1])
                    r['float_locations'] = True
            r['got'] = [_head(got[0]), _head(got[1])]
            r['want'] = [None, None] if want is None else [_head(want[0]), _head(want[1])]
            res['gpe'][m] = r
        for em, m in ENV_MODES.items():
            r = {}
            if 'oracle_failed' in res['gpe'][m]:
                res['env'][em] = {'oracle_failed': res['gpe'][m]['oracle_failed']}
                continue
            want = oracles[m]
            ext = {'pad_width': w, 'parabolic_extrema': par, 'loc_pad_opts': copy.deepcopy(case['loc']),
                   'mag_pad_opts': copy.deepcopy(case['mag'])}
            want_env = None
            if want is not None and want[2] >= 1:
                try:
                    want_env = oracle_envelope(want[0], want[1], n, case['interp'])
                except Exception as e:  # noqa   (e.g. too few / repeated knots: the interpolator itself refuses)
                    r['oracle_error'] = err_kind(e)
            try:
                got = S.interp_envelope(x.copy(), mode=em, interp_method=case['interp'], extrema_opts=ext, ret_extrema=True)
            except Exception as e:  # noqa
                r['error'] = err_kind(e)
                r['msg'] = str(e)[:120]
                res['env'][em] = r
                continue
            if got is None:
                r['loc'] = r['mag'] = r['env'] = _dev(None, None if want is None else want[0])
            elif want is None:
                r['loc'] = r['mag'] = r['env'] = 'one-is-None'
            else:
                env, (gl, gm) = got
                r['loc'], r['mag'] = _dev(gl, want[0]), _dev(gm, want[1])
                if alts.get(m) is not None and isinstance(r['loc'], float) and r['loc'] > tol:
                    d2 = _dev(gl, alts[m][0])
                    if isinstance(d2, float) and d2 <= tol:        # float-padded location ramp (see above)
                        want = alts[m]
                        r['loc'], r['mag'] = d2, _dev(gm, want[1])
                        try:
                            want_env = oracle_envelope(want[0], want[1], n, case['interp']) if want[2] >= 1 else None
                        except Exception as e:  # noqa
                            want_env = None
                r['env'] = None if want_env is None else _dev(env, want_env)
                r['scale'] = float(max(1.0, np.max(np.abs(want[1]))))
            res['env'][em] = r
        return res

    @staticmethod
    def _bad(d, tol):
        return d is not None and (isinstance(d, str) or d > tol)

    def holds(self, case, out):
        try:
            return self._holds(case, out)
        except Exception as ex:  # noqa   a crash of the check itself is never a property violation
            return [Failure('instance-check-crashed', repr(ex), literal=False)]

    def _holds(self, case, out):
        if isinstance(out, ImplError):
            if 'imeout' in str(out['error']):
                return []
            return [Failure('pad-oracle-not-runnable:' + out['error'], out['msg'], literal=False)]
        fs = []
        tol = out['tol']
        opts = 'pad_width=%s parabolic=%s loc_pad_opts=%s mag_pad_opts=%s' % (case['pad_width'], case['parabolic'], case['loc'], case['mag'])
        # C06 is about SUPPLIED options: with no custom np.pad dictionary in the case the comparison only pins the default
        # padding rule (C05's matter) - mechanism level. Likewise the clipping of pad_width to the number of extrema and the
        # None convention for fewer than two extrema.
        supplied = bool(case['mag']) or bool(case['loc'])

        def literal(r):
            return supplied and r.get('rounds') in (0, 1) and r.get('n_ext', 0) >= max(2, case['pad_width'])
        for m, r in out['gpe'].items():
            # np.pad(values, w, **opts) applied once is the documented meaning of the option; the repetition of the padding
            # while the locations do not reach past both ends is the anchored mechanism (non-literal when it was needed)
            lit = literal(r)
            if 'unpadded' in r and any(self._bad(d, tol) for d in r['unpadded']):
                fs.append(Failure('unpadded-extrema-differ-from-three-point-rule:%s' % m,
                                  'get_padded_extrema(pad_width=0, mode=%s): deviation (locations, magnitudes) %s' % (m, r['unpadded']), literal=False))
            if 'oracle_failed' in r:
                fs.append(Failure('pad-oracle-not-runnable:%s' % m, '%s: %s' % (opts, r['oracle_failed']), literal=False))
                continue
            if 'error' in r:
                fs.append(Failure('pad-options-raise:get_padded_extrema:%s:%s' % (m, r['error']), opts, literal=lit))
                continue
            for what in ('loc', 'mag'):
                if self._bad(r[what], tol):
                    fs.append(Failure('pad-option-not-applied:get_padded_extrema:%s:%s_pad_opts' % (m, what),
                                      '%s: mode=%s returned (locs, mags) %s..., np.pad of the %d actual extrema with these options gives %s... '
                                      '(%s rounds; deviation %s)' % (opts, m, r['got'], r['n_ext'], r['want'], r['rounds'], r[what]), literal=lit))
        for em, r in out['env'].items():
            g = out['gpe'][ENV_MODES[em]]
            lit = literal(g)
            if 'oracle_failed' in r:
                continue
            if 'error' in r:
                # without padding (pad_width 0) or when scipy itself refuses the knots there is no envelope to speak of
                if 'error' not in g and 'oracle_error' not in r and (g.get('rounds') or 0) >= 1:
                    fs.append(Failure('pad-options-raise:interp_envelope:%s:%s' % (em, r['error']),
                                      '%s interp_method=%s: %s' % (opts, case['interp'], r.get('msg')), literal=lit))
                continue
            for what in ('loc', 'mag'):
                if self._bad(r[what], tol):
                    fs.append(Failure('pad-option-not-applied:interp_envelope:%s:%s_pad_opts' % (em, what),
                                      '%s: extrema returned by interp_envelope(mode=%s, extrema_opts=..., ret_extrema=True) deviate by %s from np.pad '
                                      'of the actual extrema with these options' % (opts, em, r[what]), literal=lit))
            if self._bad(r.get('env'), tol * 1e3 * r.get('scale', 1.0)):
                fs.append(Failure('envelope-not-through-padded-extrema:interp_envelope:%s' % em,
                                  '%s interp_method=%s: envelope deviates by %s from the interpolant of the extrema padded with these options'
                                  % (opts, case['interp'], r['env']), literal=lit))
        return fs

    def tags(self, case, out):
        t = ['mag=' + ('None' if case['mag'] is None else ('{}' if not case['mag'] else case['mag']['mode'])),
             'loc=' + ('None' if case['loc'] is None else ('{}' if not case['loc'] else case['loc']['mode'])),
             'pad_width=%d' % case['pad_width'], 'parabolic=%s' % case['parabolic'], 'interp=' + case['interp']]
        if not isinstance(out, ImplError):
            for m, r in out['gpe'].items():
                k = r.get('rounds')
                t.append('%s:%s' % (m, 'fewer-than-two-extrema' if k is None else ('no-padding' if k == 0 else ('one-round' if k == 1 else 'several-rounds'))))
                if r.get('n_ext', 0) >= 2 and r['n_ext'] < case['pad_width']:
                    t.append('pad_width-clipped-to-number-of-extrema')
        return sorted(set(t))

    def nontrivial(self, case, out):
        return (not isinstance(out, ImplError)) and bool(case['mag']) and any((r.get('rounds') or 0) >= 1 for r in out['gpe'].values())

    def shrink(self, case):
        n = case['signal']['n']
        for m in (24, 48, 96):
            if m < n:
                yield dict(case, signal=dict(case['signal'], n=m))
        if case['parabolic']:
            yield dict(case, parabolic=False)
        if case['loc']:
            yield dict(case, loc=None)
        if case['interp'] != 'splrep':
            yield dict(case, interp='splrep')
        if case['pad_width'] > 2:
            yield dict(case, pad_width=2)


# ------------------------------------------------------------------------------------------------
# Independent evaluation of the stop-rule options.  Comparing routes and variants with each other cannot see an option
# that is replaced in the extraction stage itself (all of them share get_next_imf: round-4 change C06/1 passed
# rilling_thresh[0] where rilling_thresh[2] belongs).  Here single-IMF extraction is re-assembled explicitly from the
# envelope stage (the public interp_envelope, called with the same envelope / extrema dictionaries) and the DOCUMENTED stop
# rule evaluated with the numbers the user supplied; every variant that reduces to one extraction of the input must return
# that result.

STOP_LIMIT = 300          # iterations the reference is willing to follow (longer runs are tagged, not judged)


def stop_signal(spec):
    rs = np.random.RandomState(spec['seed'])
    n = spec['n']
    t = np.linspace(0, 1, n)
    fam = spec['family']
    if fam == 'noisy-tones':
        return np.sin(2 * np.pi * 4 * t) + 0.7 * np.sin(2 * np.pi * 13 * t + 1) + spec.get('noise', 0.4) * rs.randn(n)
    if fam == 'noise':
        return rs.randn(n)
    return make_signal(spec)


def ref_extract(x, imf, env, ext):
    """(imf, iterations, near_tie) | (None, why, False): the documented rule, envelopes from the public stage function"""
    S = sift_mod()
    method = imf.get('stop_method', 'sd')
    proto = np.array(x, dtype=float).reshape(-1, 1)
    niters, tie = 0, False
    while True:
        if niters >= STOP_LIMIT:
            return None, 'reference-iteration-limit', False
        niters += 1
        up = S.interp_envelope(proto, mode='upper', **copy.deepcopy(env or {}), extrema_opts=copy.deepcopy(ext))
        lo = S.interp_envelope(proto, mode='lower', **copy.deepcopy(env or {}), extrema_opts=copy.deepcopy(ext))
        if up is None or lo is None:
            return proto, niters, tie
        up, lo = np.asarray(up, dtype=float).ravel(), np.asarray(lo, dtype=float).ravel()
        avg = (up + lo) / 2
        x1 = proto - avg[:, None]
        if method == 'sd':
            # "the threshold at which the sift of each IMF will be stopped": SD = sum (change)^2 / sum (proto-IMF)^2 < sd_thresh
            thr = imf.get('sd_thresh', 0.1)
            metric = float(np.sum((proto - x1) ** 2) / np.sum(proto ** 2))
            if not np.isfinite(metric):
                return None, 'non-finite-metric', False
            tie = tie or abs(metric - thr) <= 1e-7 * max(abs(thr), 1e-300)
            stop = metric < thr
        elif method == 'rilling':
            # (sd1, sd2, alpha): E = |mean envelope| / mode amplitude; continue until E < sd1 for the fraction (1 - alpha)
            # of the data and E < sd2 for the remainder
            sd1, sd2, alpha = imf.get('rilling_thresh', (0.05, 0.5, 0.05))
            amp = np.abs(up - lo) / 2
            with np.errstate(all='ignore'):
                E = np.abs(avg) / amp
            if not np.all(np.isfinite(E)):
                return None, 'non-finite-metric', False
            k, n = int(np.sum(E > sd1)), len(E)
            border = bool(np.min(np.abs(E - sd1)) <= 1e-7 * sd1)
            tie = tie or abs(k - alpha * n) <= 1e-6 or (border and abs(k - alpha * n) <= 1 + 1e-6) \
                or abs(float(np.max(E)) - sd2) <= 1e-7 * sd2
            stop = (k / n <= alpha) and not bool(np.any(E > sd2))
        else:
            stop = niters == imf['max_iters']
        if stop:
            return x1, niters, tie
        proto = x1          # env_step_size is 1 in this stream


class _stop_trace:
    """Record the numbers the public stop functions emd.sift.sd_stop / rilling_stop / fixed_stop are called with (this process only)."""

    def __init__(self):
        self.recs = set()

    def __enter__(self):
        S = sift_mod()
        self.S = S
        self.saved = {n: getattr(S, n) for n in ('sd_stop', 'rilling_stop', 'fixed_stop')}
        sigs = {n: inspect.signature(f) for n, f in self.saved.items()}
        recs, saved = self.recs, self.saved

        def wrap(name):
            def w(*a, **kw):
                try:
                    ba = sigs[name].bind(*a, **kw)
                    ba.apply_defaults()
                    g = ba.arguments
                    if name == 'sd_stop':
                        recs.add((0, float(g['sd']), 0.0, 0.0, None))
                    elif name == 'rilling_stop':
                        recs.add((1, float(g['sd1']), float(g['sd2']), float(g['tol']), None))
                    else:
                        recs.add((2, 0.0, 0.0, 0.0, int(g['max_iters'])))
                except Exception:  # noqa
                    recs.add(('unbindable', name))
                return saved[name](*a, **kw)
            return w
        for n in self.saved:
            setattr(S, n, wrap(n))
        return self

    def __exit__(self, *exc):
        for n, f in self.saved.items():
            setattr(self.S, n, f)
        return False


class StopRule(Stream):
    """Supplied stop rule / thresholds take effect in the extraction stage: instance check (documented rule with the supplied numbers)
    and correspondence (the numbers the stop functions receive vs Options.imfOptsOf of the model's get_next_imf records)."""
    name = 'stop_rule'
    TRACED = {'get_next_imf': ('get_next_imf', 'top'), 'sift': ('sift', 'imf')}
    parallel = False          # some variants create worker pools

    IMF = [{'stop_method': 'rilling', 'rilling_thresh': {'$': 'tuple', 'v': [0.05, 0.5, 0.4]}},
           {'stop_method': 'rilling', 'rilling_thresh': {'$': 'tuple', 'v': [0.2, 0.6, 0.01]}},
           {'stop_method': 'rilling', 'rilling_thresh': [0.1, 0.5, 0.3]},
           {'stop_method': 'rilling', 'rilling_thresh': [0.3, 0.35, 0.02]},
           {'stop_method': 'rilling', 'rilling_thresh': {'$': 'tuple', 'v': [0.02, 0.9, 0.25]}},
           {'stop_method': 'rilling'},
           {'sd_thresh': 0.02}, {'sd_thresh': 0.5}, {'stop_method': 'sd', 'sd_thresh': 0.005}, {},
           {'stop_method': 'fixed', 'max_iters': 1}, {'stop_method': 'fixed', 'max_iters': 4}]
    ENV = [None, {'interp_method': 'pchip'}, {'interp_method': 'mono_pchip'}]
    EXT = [None, {'pad_width': 4}, {'parabolic_extrema': True}]
    VARIANTS = ['get_next_imf', 'sift', 'sift:get_func', 'mask_sift:zero-amp', 'get_next_imf_mask:zero-amp', 'ensemble_sift:zero-noise',
                'sift_second_layer']

    def _case(self, ii, ei, xi, fam, n, seed, noise=0.4):
        return {'imf': self.IMF[ii], 'env': self.ENV[ei], 'ext': self.EXT[xi],
                'signal': {'family': fam, 'n': n, 'seed': seed, 'noise': noise}}

    def corpus(self):
        out = []
        for ii in range(len(self.IMF)):
            out.append(self._case(ii, ii % 3, (ii // 3) % 3, 'noisy-tones', 128, 10 + ii))
        out += [self._case(0, 0, 0, 'noise', 96, 3), self._case(1, 0, 0, 'walk', 192, 4), self._case(2, 1, 0, 'noise', 64, 5),
                self._case(4, 0, 1, 'noisy-tones', 192, 6, noise=1.0)]
        return out

    def generate(self, rng, tier):
        for _ in range(250 if tier == 'thorough' else 24):
            ii = rng.randrange(len(self.IMF)) if rng.random() < 0.5 else rng.randrange(5)
            yield self._case(ii, rng.choice([0, 0, 1, 2]), rng.choice([0, 0, 1, 2]), rng.choice(['noisy-tones', 'noisy-tones', 'noise', 'walk']),
                             rng.choice([64, 96, 128, 192, 256]), rng.randint(0, 10 ** 6), rng.choice([0.2, 0.4, 1.0]))

    def impl(self, case):
        S = sift_mod()
        x = stop_signal(case['signal'])
        imf = {k2: _cfg.build(v2) for k2, v2 in case['imf'].items()}
        env = None if case['env'] is None else dict(case['env'])
        ext = None if case['ext'] is None else dict(case['ext'])
        scale = float(max(1.0, np.max(np.abs(x))))
        res = {'scale': scale, 'variants': {}}
        try:
            ref, iters, tie = ref_extract(x, imf, env, ext)
        except Exception as e:  # noqa
            return dict(res, unjudged='reference-raised:' + err_kind(e))
        if ref is None:
            return dict(res, unjudged=iters)
        res.update(iterations=iters, near_tie=bool(tie))
        ref = ref[:, 0]

        def kw():
            d = {'imf_opts': copy.deepcopy(imf)}
            if env is not None:
                d['envelope_opts'] = copy.deepcopy(env)
            if ext is not None:
                d['extrema_opts'] = copy.deepcopy(ext)
            return d

        def get_func():
            cfg = S.get_config('sift')
            cfg['max_imfs'] = 1
            for name, d in kw().items():
                for k2, v2 in d.items():
                    cfg[name + '/' + k2] = v2
            return cfg.get_func()(x)
        calls = {
            'get_next_imf': lambda: S.get_next_imf(x[:, None], envelope_opts=copy.deepcopy(env), extrema_opts=copy.deepcopy(ext), **copy.deepcopy(imf))[0],
            'sift': lambda: S.sift(x, max_imfs=1, **kw()),
            'sift:get_func': get_func,
            'mask_sift:zero-amp': lambda: S.mask_sift(x, mask_amp=0, mask_amp_mode='abs', mask_freqs=0.1, nphases=1, max_imfs=1, **kw()),
            'get_next_imf_mask:zero-amp': lambda: S.get_next_imf_mask(x[:, None], 0.1, 0, nphases=1, **kw())[0],
            'ensemble_sift:zero-noise': lambda: S.ensemble_sift(x, nensembles=2, ensemble_noise=0, nprocesses=1, max_imfs=1, **kw()),
            'sift_second_layer': lambda: S.sift_second_layer(x[:, None], sift_args=dict(kw(), max_imfs=1))[:, 0, :],
        }
        np.random.seed(case['signal']['seed'] % 1000)
        res['rules'] = {}
        for v in self.VARIANTS:
            try:
                with _stop_trace() as tr:
                    try:
                        got = np.asarray(calls[v](), dtype=float)
                    finally:
                        if v in self.TRACED:
                            res['rules'][v] = sorted([list(r) for r in tr.recs], key=repr)
                got = got.reshape(len(x), -1)
                if got.shape[1] != 1:
                    res['variants'][v] = {'shape': list(got.shape)}
                    continue
                res['variants'][v] = {'dev': float(np.max(np.abs(got[:, 0] - ref)))}
            except Exception as e:  # noqa
                res['variants'][v] = {'error': err_kind(e), 'msg': str(e)[:120]}
        return res

    # -- model side: which rule does every get_next_imf call of the run evaluate (Options.imfOptsOf; C06.gni_rule_as_supplied)
    def ops(self, case, out):
        if isinstance(out, ImplError):
            return []
        imf = _cfg.wire({k2: _cfg.build(v2) for k2, v2 in case['imf'].items()})
        env = _cfg.wire(dict(case['env'])) if case['env'] is not None else 'N'
        ext = _cfg.wire(dict(case['ext'])) if case['ext'] is not None else 'N'
        ops = []
        for v in sorted(self.TRACED):
            vn, where = self.TRACED[v]
            if where == 'top':      # get_next_imf takes its own options as keywords
                args = {'variant': vn, 'second': 0, 'legacy': LEGACY, 'route': 'direct', 'rules': 1, 'top': imf, 'imf': 'N',
                        'env': env, 'ext': ext}
            else:
                args = {'variant': vn, 'second': 0, 'legacy': LEGACY, 'route': 'direct', 'rules': 1, 'top': _cfg.wire({'max_imfs': 1}),
                        'imf': imf, 'env': env, 'ext': ext}
            ops.append(proto.op('OPTS', args))
        return ops

    def compare(self, case, out, results):
        if isinstance(out, ImplError):
            return None
        for v, r in zip(sorted(self.TRACED), results):
            if not r.ok:
                return '%s: model answered %s' % (v, r.raw[:200])
            seen = out.get('rules', {}).get(v)
            if seen is None:
                continue
            if not seen:
                if 'error' in out['variants'].get(v, {}):
                    continue
                return '%s: no call of a stop function was observed although the call returned' % v
            model = []
            for vec in r.vecs:
                if vec is None:
                    model.append(None)
                else:
                    kind = int(vec[0])
                    model.append([kind, float(vec[1]), float(vec[2]), float(vec[3]), int(vec[5]) if kind == 2 else None])
            if None in model:
                return 'skip:options outside the modelled value universe'
            if sorted(model, key=repr) != sorted([list(x) for x in seen], key=repr):
                return ('%s: the stop function was called with %s, the model reads %s from the get_next_imf arguments '
                        '([kind 0 sd / 1 rilling / 2 fixed, sd | sd1, sd2, tol, max_iters])' % (v, seen, model))
        return None

    def holds(self, case, out):
        if isinstance(out, ImplError):
            if 'imeout' in str(out['error']):
                return []
            return [Failure('stop-rule-oracle-not-runnable:' + out['error'], out['msg'], literal=False)]
        if out.get('unjudged') or out.get('near_tie'):
            return []
        fs = []
        method = case['imf'].get('stop_method', 'sd')
        opts = 'imf_opts=%s envelope_opts=%s extrema_opts=%s' % ({k2: _cfg.build(v2) for k2, v2 in case['imf'].items()}, case['env'], case['ext'])
        tol = 1e-9 * out['scale']
        for v, r in out['variants'].items():
            if 'error' in r:
                if r['error'] == 'EMDSiftCovergeError':
                    continue       # (cannot happen within the reference's iteration limit with the default max_iters; C04's subject)
                fs.append(Failure('stop-rule-options-raise:%s:%s' % (v, r['error']), '%s: %s' % (opts, r.get('msg'))))
            elif 'shape' in r:
                fs.append(Failure('stop-rule-variant-shape:%s' % v, 'shape %s for max_imfs=1' % r['shape'], literal=False))
            elif r['dev'] > tol:
                fs.append(Failure('supplied-stop-option-not-governing:%s:%s' % (method, v),
                                  '%s: %s deviates by %.3g from single-IMF extraction assembled from interp_envelope (same envelope / extrema '
                                  'options) and the documented %s rule evaluated with the supplied numbers (%d iterations)'
                                  % (opts, v, r['dev'], method, out['iterations'])))
        return fs

    def tags(self, case, out):
        t = ['stop_method=' + case['imf'].get('stop_method', 'sd'), 'family=' + case['signal']['family'],
             'env=' + ('None' if case['env'] is None else case['env']['interp_method']),
             'ext=' + ('None' if case['ext'] is None else '+'.join(sorted(case['ext'])))]
        if 'rilling_thresh' in case['imf']:
            th = _cfg.build(case['imf']['rilling_thresh'])
            t.append('rilling_thresh:first-and-third-entry-' + ('equal' if th[0] == th[2] else 'differ'))
        if not isinstance(out, ImplError):
            if out.get('unjudged'):
                t.append('unjudged:' + str(out['unjudged']))
            elif out.get('near_tie'):
                t.append('unjudged:near-tie-in-a-stop-decision')
            else:
                k = out['iterations']
                t.append('iterations=' + ('1' if k == 1 else '2-3' if k <= 3 else '4-10' if k <= 10 else '>10'))
        return t

    def nontrivial(self, case, out):
        return not isinstance(out, ImplError) and not out.get('unjudged') and not out.get('near_tie') and out.get('iterations', 0) >= 2

    def shrink(self, case):
        if case['env'] is not None:
            yield dict(case, env=None)
        if case['ext'] is not None:
            yield dict(case, ext=None)
        for m in (64, 96, 128):
            if m < case['signal']['n']:
                yield dict(case, signal=dict(case['signal'], n=m))


STREAMS = [Signatures(), Routing(), StageSpecialCases(), PadOracle(), StopRule()]
