"""Shared pieces of the sift checks (C04, C01, C03): signal families, option grids, reference
iterate tables built from the real public `emd.sift.interp_envelope`, independent oracles."""
import contextlib
import math
import signal as _signal

import numpy as np

from common import proto
from common.framework import Failure, ImplError, Stream  # noqa: F401

TOL = 1e-9          # value tolerance (DESIGN.md 3.1), times max(1, |input|_inf)
TIE = 1e-7          # decision near-tie guard (DESIGN.md 3.2)
BIG = 1e300         # stands for +inf dB when handed to the model


class Timeout(Exception):
    pass


_TIMEOUTS = [0]


@contextlib.contextmanager
def time_limit(seconds):
    """Bound one implementation call (a non-terminating loop becomes error kind 'Timeout').
    After two timeouts in the same process the budget drops to 20 s (the generators keep legitimate
    calls below ~10 s), so that shrinking a non-terminating case stays affordable."""
    if _TIMEOUTS[0] >= 2:
        seconds = min(seconds, 20)

    def handler(signum, frame):
        _TIMEOUTS[0] += 1
        raise Timeout('no result after %ss' % seconds)
    old = _signal.signal(_signal.SIGALRM, handler)
    _signal.setitimer(_signal.ITIMER_REAL, seconds)
    try:
        yield
    finally:
        _signal.setitimer(_signal.ITIMER_REAL, 0)
        _signal.signal(_signal.SIGALRM, old)


# ---------------------------------------------------------------------------------------------
# signal families

FAMILIES = ['noise', 'walk', 'tones', 'amfm', 'plateau', 'const', 'ramp', 'fewext', 'perfect']


def few_extrema(rng, n):
    """2-3 peaks and 2-3 troughs on n = 6..16 samples: alternating turning points (one adjacent pair
    shallow) joined by monotone pieces, optionally on a trend; drives extractions onto the
    extrema-vanish-after-k-iterations path."""
    n = max(6, n)
    x = None
    for _attempt in range(30):
        nturn = min(rng.choice([4, 4, 4, 5, 5, 6]), n - 2)
        pos = sorted(rng.sample(range(1, n - 1), nturn))
        up = rng.random() < 0.5
        shallow = rng.randrange(nturn)
        level = rng.uniform(-1, 1)
        prev = level - (1 if up else -1) * rng.uniform(0.2, 2)          # value at sample 0
        ys = [prev]
        for i in range(nturn):
            amp = rng.uniform(0.5, 2.0) * (rng.choice([0.02, 0.05, 0.15, 0.4]) if i == shallow else 1.0)
            level = ys[-1] + amp if up else ys[-1] - amp
            ys.append(level)
            up = not up
        ys.append(ys[-1] + (1 if up else -1) * rng.uniform(0.2, 2))     # value at sample n-1
        x = np.interp(np.arange(n), [0] + pos + [n - 1], ys)
        x = x + rng.choice([0, 0, 0.3, 1.0]) * rng.choice([-1, 1]) * np.linspace(-1, 1, n)
        if rng.random() < 0.3:
            x = np.round(x * 16) / 16                                   # short dyadics
        pk, tr = count_extrema(x)
        if pk >= 2 and tr >= 2:
            return x
    return x


def gen_signal(rng, family, n):
    """One signal (numpy float64, finite) of the named family; every random choice from `rng`."""
    nrng = np.random.default_rng(rng.getrandbits(63))
    t = np.arange(n)
    if family == 'noise':
        return nrng.standard_normal(n) * rng.choice([1e-3, 1, 1, 1, 50])
    if family == 'walk':
        return np.cumsum(nrng.standard_normal(n))
    if family == 'tones':
        x = np.zeros(n)
        for _ in range(rng.randint(1, 3)):
            x += rng.uniform(0.2, 2) * np.sin(2 * np.pi * rng.uniform(0.02, 0.45) * t + rng.uniform(0, 6.28))
        return x + rng.choice([0, 1, 5]) * t / max(1, n - 1) + rng.choice([0, 0, 3])
    if family == 'amfm':
        f = rng.uniform(0.05, 0.3)
        am = 1 + 0.5 * np.sin(2 * np.pi * rng.uniform(0.005, 0.03) * t)
        ph = 2 * np.pi * f * t + rng.uniform(0.5, 3) * np.sin(2 * np.pi * rng.uniform(0.005, 0.03) * t)
        return am * np.cos(ph) + rng.choice([0, 0.2]) * nrng.standard_normal(n)
    if family == 'plateau':
        return nrng.integers(-3, 4, n).astype(float) * rng.choice([1, 1, 0.5, 10])
    if family == 'const':
        return np.full(n, rng.choice([0.0, 1.0, -2.5, 1e-3]))
    if family == 'ramp':
        x = np.cumsum(np.abs(nrng.standard_normal(n)) + 1e-3)
        return x if rng.random() < 0.5 else -x
    if family == 'fewext':
        return few_extrema(rng, min(n, rng.randint(5, 16)))
    if family == 'perfect':
        # already an IMF: symmetric envelopes, mean exactly zero
        return np.array([1.0, -1.0] * (n // 2 + 1))[:n] * rng.choice([1, 2, 0.5])
    raise ValueError(family)


def gen_opts(rng, tier, allow_energy=True, family=None):
    stop = rng.choice(['sd', 'sd', 'rilling', 'fixed'])
    if family == 'fewext' and rng.random() < 0.6:
        # many iterations of a cubic-spline sift on a (2 peaks, 2 troughs) signal: extrema vanish on the way
        o = {'stop_method': rng.choice(['fixed', 'fixed', 'rilling']), 'env_step_size': rng.choice([1, 1, 0.5]),
             'max_iters': rng.choice([5, 10, 50]), 'interp_method': 'splrep', 'pad_width': rng.choice([1, 2, 2, 3, 5]),
             'energy_thresh': None}
        if o['stop_method'] == 'rilling':
            o['rilling_thresh'] = [0.05, 0.5, 0.05]
        return o
    o = {'stop_method': stop,
         'env_step_size': rng.choice([1, 1, 0.5, 1 / 3, 0.25, round(rng.uniform(0.05, 1), 3)]),
         'max_iters': rng.choice([1, 2, 3, 5, 10, 50]),
         'interp_method': rng.choice(['splrep', 'splrep', 'pchip', 'mono_pchip']),
         'pad_width': rng.choice([1, 2, 2, 3, 5]),
         'energy_thresh': None}
    if stop == 'sd':
        o['sd_thresh'] = rng.choice([0.1, 0.2, 0.05, 0.01, 0.5, round(rng.uniform(0.001, 0.5), 4)])
        if rng.random() < 0.1:
            o['max_iters'] = 1000
    elif stop == 'rilling':
        sd1 = rng.choice([0.05, 0.1, round(rng.uniform(0.01, 0.3), 3)])
        o['rilling_thresh'] = [sd1, rng.choice([0.5, 1.0, round(sd1 + rng.uniform(0.05, 1), 3)]),
                               rng.choice([0.05, 0.1, 0.3, round(rng.uniform(0.01, 0.4), 3)])]
    if allow_energy and rng.random() < 0.2:
        o['energy_thresh'] = rng.choice([50, 20, 5, 1])
    return o


def gen_vanishing(rng, tries=80):
    """Rejection-sample a (signal, options) pair whose documented iterate sequence loses its envelopes
    after at least one mean removal (the rare exit path of get_next_imf). None if not found."""
    for _ in range(tries):
        x = few_extrema(rng, rng.randint(6, 14)) if rng.random() < 0.8 else gen_signal(rng, 'noise', rng.randint(6, 10))
        if count_extrema(x) != (2, 2) and rng.random() < 0.8:
            continue
        o = {'stop_method': rng.choice(['fixed', 'fixed', 'rilling', 'sd']), 'env_step_size': rng.choice([1, 1, 0.5, 0.25]),
             'max_iters': rng.choice([5, 10, 50, 50]), 'interp_method': 'splrep', 'pad_width': rng.choice([1, 2, 2, 3, 5]),
             'energy_thresh': rng.choice([None, None, None, 20])}
        if o['stop_method'] == 'rilling':
            o['rilling_thresh'] = [0.05, 0.5, 0.05]
        if o['stop_method'] == 'sd':
            o['sd_thresh'] = rng.choice([0.01, 0.001])
        try:
            ref = reference(x, o)
        except Exception:  # noqa
            continue
        if ref['exit'] and ref['exit'][0] == 'noext' and ref['exit'][1] >= 1:
            return x, o
    return None


def imf_kwargs(o):
    kw = {'stop_method': o['stop_method'], 'env_step_size': o['env_step_size'], 'max_iters': o['max_iters']}
    if 'sd_thresh' in o:
        kw['sd_thresh'] = o['sd_thresh']
    if 'rilling_thresh' in o:
        kw['rilling_thresh'] = tuple(o['rilling_thresh'])
    if o.get('energy_thresh') is not None:
        kw['energy_thresh'] = o['energy_thresh']
    return kw


def env_kwargs(o):
    return {'interp_method': o.get('interp_method', 'splrep')}


def ext_kwargs(o):
    return {'pad_width': o.get('pad_width', 2), 'loc_pad_opts': None, 'mag_pad_opts': None}


def call_gni(x, o):
    import emd
    # an ndarray of a non-float storage type (int64 / int32 / int16 ...) is handed over in that type
    xa = np.array(x) if (isinstance(x, np.ndarray) and x.dtype.kind in 'iub') else np.array(x, dtype=float)
    xa.setflags(write=False)
    imf, flag = emd.sift.get_next_imf(xa, envelope_opts=env_kwargs(o), extrema_opts=ext_kwargs(o), **imf_kwargs(o))
    return imf, flag


def budget(o):
    return o['max_iters'] if o['stop_method'] == 'fixed' else o['max_iters'] + 1


# ---------------------------------------------------------------------------------------------
# independent oracles (plain Python / numpy, written from the documentation, not from emd)

def count_extrema(v):
    """(strict interior maxima, strict interior minima)"""
    v = [float(a) for a in v]
    pk = sum(1 for i in range(1, len(v) - 1) if v[i - 1] < v[i] > v[i + 1])
    tr = sum(1 for i in range(1, len(v) - 1) if v[i - 1] > v[i] < v[i + 1])
    return pk, tr


def stop_oracle(o, niters, h, avg, U, L):
    """(fires, relative margin) of the documented stopping rule, evaluated independently."""
    m = o['stop_method']
    if m == 'fixed':
        return niters == o['max_iters'], 1.0
    if m == 'sd':
        num, den = float(np.sum(avg ** 2)), float(np.sum(h ** 2))
        thr = o['sd_thresh']
        if den == 0:
            return False, 1.0
        return num / den < thr, abs(num / den - thr) / max(num / den, thr, 1e-300)
    sd1, sd2, tol = o['rilling_thresh']
    a = np.abs((U + L) / 2)
    amp = np.abs(U - L) / 2
    marg = 1.0
    big1 = big2 = 0
    for ai, mi in zip(a, amp):
        for sd, which in ((sd1, 1), (sd2, 2)):
            lhs, rhs = float(ai), float(sd * mi)
            d = max(abs(lhs), abs(rhs))
            if d > 0:
                marg = min(marg, abs(lhs - rhs) / d)
            if lhs > rhs:
                if which == 1:
                    big1 += 1
                else:
                    big2 += 1
    frac = big1 / len(a)
    marg = min(marg, abs(frac - tol) / max(frac, tol, 1e-300))
    return (not (frac > tol or big2 > 0)), marg


def energy_oracle(x, c):
    """20*log10(sum x^2 / sum (x-c)^2) in dB; +inf when the residual has no energy, nan for 0/0."""
    ex = float(np.sum(np.asarray(x, float) ** 2))
    er = float(np.sum((np.asarray(x, float) - np.asarray(c, float)) ** 2))
    if ex > 0 and er > 0:
        return 20 * (math.log10(ex) - math.log10(er))
    if ex > 0:
        return math.inf
    if er > 0:
        return -math.inf
    return math.nan


def reference(x, o, extra=3, max_rows=160):
    """Iterate table h_0, h_1, ... with the envelopes of the real public `interp_envelope`, following
    h_{k+1} = h_k - step*mean(U,L) in float64 exactly as documented, plus where the documented rule
    (evaluated by `stop_oracle`) first fires.

    Returns dict(rows=[(h, U|None, L|None)], exit=('stop'|'noext'|'err', k, candidate), margin, truncated)
    """
    import emd
    h = np.array(x, dtype=float)
    step = o['env_step_size']
    rows = []
    exit_ = None
    margin = 1.0
    B = budget(o)
    k = 0
    while k < B and len(rows) < max_rows:
        U = emd.sift.interp_envelope(h, mode='upper', extrema_opts=ext_kwargs(o), **env_kwargs(o))
        L = emd.sift.interp_envelope(h, mode='lower', extrema_opts=ext_kwargs(o), **env_kwargs(o))
        rows.append((h, U, L))
        if U is None or L is None:
            if exit_ is None:
                exit_ = ('noext', k, h)
            break
        avg = np.mean([U, L], axis=0)
        fires, m = stop_oracle(o, k + 1, h, avg, U, L)
        if exit_ is None:
            margin = min(margin, m)
            if fires:
                exit_ = ('stop', k, h - avg)
        if exit_ is not None and k >= exit_[1] + extra:
            break
        h = h - (step * avg)
        k += 1
    truncated = False
    if exit_ is None:
        if k >= B:
            exit_ = ('err', B - 1, None)
        else:
            truncated = True
    return {'rows': rows, 'exit': exit_, 'margin': margin, 'truncated': truncated}


def energy_table(x, o, rows):
    """dB value the real public `energy_stop` reports for the candidate of every row."""
    import emd
    if o.get('energy_thresh') is None:
        return []
    X = np.array(x, dtype=float)[:, None]
    out = []
    for h, U, L in rows:
        c = h if (U is None or L is None) else h - np.mean([U, L], axis=0)
        _, db = emd.sift.energy_stop(X, X - c[:, None], thresh=o['energy_thresh'])
        db = float(db)
        if math.isnan(db) or db == -math.inf:
            db = -BIG
        elif db == math.inf:
            db = BIG
        out.append(db)
    return out


def scale_of(x):
    return max(1.0, float(np.max(np.abs(x)))) if len(x) else 1.0


def gni_op(x, o, ref, edb):
    args = {'stop': o['stop_method'], 'step': o['env_step_size'], 'maxit': o['max_iters'],
            'ethr': 'none' if o.get('energy_thresh') is None else proto.rat(o['energy_thresh']),
            'tol': TOL * scale_of(x)}
    if o['stop_method'] == 'sd':
        args['thr'] = o['sd_thresh']
    elif o['stop_method'] == 'rilling':
        args['sd1'], args['sd2'], args['rtol'] = o['rilling_thresh']
    vecs = [list(map(float, x)), edb]
    for h, U, L in ref['rows']:
        vecs += [list(map(float, h)), None if U is None else list(map(float, U)),
                 None if L is None else list(map(float, L))]
    return proto.op('GNI', args, vecs)


def close(a, b, scale):
    a = np.asarray(a, float).ravel()
    b = np.asarray(b, float).ravel()
    return a.shape == b.shape and (a.size == 0 or float(np.max(np.abs(a - b))) <= TOL * scale)


def fr_list(v):
    return [float(t) for t in v]


# ---------------------------------------------------------------------------------------------
# classic sift: real call, manual peeling with the public get_next_imf (extractor table), SIFT op

def sift_kwargs(o, thr, cap):
    kw = {'imf_opts': imf_kwargs(o), 'envelope_opts': env_kwargs(o), 'extrema_opts': ext_kwargs(o)}
    if thr is not None:
        kw['sift_thresh'] = thr
    if cap is not None:
        kw['max_imfs'] = cap
    return kw


def call_sift(x, o, thr, cap):
    import emd
    xa = np.array(x, dtype=float)
    xa.setflags(write=False)
    return emd.sift.sift(xa, **sift_kwargs(o, thr, cap))


def peel(x, o, layers, with_paths=False):
    """Manual peeling with the real public get_next_imf: r_0 = x, (c_k, f_k) = get_next_imf(r_k),
    r_{k+1} = x - sum_{j<=k} c_j (same float expression as sift()).  Returns rows
    [(r_k, c_k | None, flag_k, error kind | None, path)]; stops after a raising layer."""
    X = np.array(x, dtype=float)[:, None]
    rows = []
    r = X.copy()
    imf = None
    for k in range(layers):
        path = None
        if with_paths:
            try:
                ref = reference(r[:, 0], o, extra=0)
                e = ref['exit']
                path = 'truncated' if e is None else '%s@%s' % (e[0], '0' if e[1] == 0 else '>=1')
            except Exception:  # noqa
                path = 'envelope-raises'
        try:
            c, f = call_gni(r[:, 0], o)
        except Exception as e:  # noqa
            from common.framework import err_kind
            rows.append((r[:, 0].copy(), None, False, err_kind(e), path))
            break
        c = np.asarray(c)
        rows.append((r[:, 0].copy(), c[:, 0].copy(), bool(f), None, path))
        imf = c if imf is None else np.concatenate((imf, c), axis=1)
        r = X - imf.sum(axis=1)[:, None]
    return rows


def sift_op(x, thr, cap, rows):
    args = {'thr': thr, 'cap': 'none' if cap is None else str(int(cap)), 'tol': TOL * scale_of(x)}
    flags = [1 if (f and c is not None) else 0 for _, c, f, _, _ in rows]
    vecs = [list(map(float, x)), flags]
    for r, c, f, err, _ in rows:
        vecs += [list(map(float, r)), None if c is None else list(map(float, c))]
    return proto.op('SIFT', args, vecs)
