"""C16 — sample, cycle, subset and chain index maps are mutually consistent."""
import itertools

from common.framework import Failure, ImplError, Stream, case_key
from props import _maps

ID = 'C16'
LEAN_MODULES = ['Proofs.C16']
REQUIRED = ['C16.exact_cycle_to_samples', 'C16.exact_cycle_to_samples_label', 'C16.exact_subset_to_cycle',
            'C16.exact_chain_to_subset', 'C16.exact_subset_to_sample', 'C16.exact_chain_to_cycle',
            'C16.exact_chain_to_samples', 'C16.roundtrip_back_forth',
            'C16.forward_none_iff', 'C16.chainVector_same_chain_iff', 'C16.cycle_vector_wf', 'C16.subsetVector_length',
            'C16.subsetVector_spec',
            'C16.subsetVector_size',
            'C16.subsetVector_unique',
            'C16.chainVector_length',
            'C16.chainVector_runs',
            'C16.chainVector_range',
            'C16.total_sample_to_cycle',
            'C16.total_cycle_to_samples',
            'C16.total_subset_to_cycle',
            'C16.total_cycle_to_subset',
            'C16.total_subset_to_sample',
            'C16.total_sample_to_subset',
            'C16.total_chain_to_subset',
            'C16.total_subset_to_chain',
            'C16.total_cycle_to_chain',
            'C16.total_chain_to_cycle',
            'C16.total_chain_to_samples',
            'C16.total_sample_to_chain',
            'C16.roundtrip_sample_cycle',
            'C16.roundtrip_cycle_subset',
            'C16.roundtrip_subset_chain',
            'C16.roundtrip_sample_subset',
            'C16.roundtrip_cycle_chain',
            'C16.roundtrip_sample_chain',
            'C16.none_iff_sample_to_cycle',
            'C16.none_iff_cycle_to_subset',
            'C16.none_iff_sample_to_subset',
            'C16.none_iff_cycle_to_chain',
            'C16.none_iff_sample_to_chain',
            'C16.project_cycles_to_samples',
            'C16.project_subset_to_cycles',
            'C16.project_chain_to_subset',
            'C16.project_subset_to_samples',
            'C16.project_chain_to_cycles',
            'C16.project_chain_to_samples',
            'C16.project_value_eq_map',
            'C16.cycle_to_samples_contiguous',
            'C16.integer_flags_select_like_booleans',
            'C16.integer_flags_spec']
TRUSTED = ['indices handed to the maps are non-negative Python ints (negative indexing is not part of the modelled interface)',
           'label vectors are 1-d integer numpy arrays; subset and chain vectors are those returned by the real '
           'get_subset_vector / get_chain_vector on the same run']
ASSUMPTIONS = []
RULE = ('exhaustive: (a) every well-formed label vector (cycles 0..K-1 as contiguous ordered blocks, optional -1 gaps '
        'anywhere) of length <= N x every boolean selection vector of its K cycles (N=6 quick, 8 thorough); '
        '(b) every boolean selection vector of length <= L (L=8 quick, 12 thorough) x three fixed recordings '
        '(dense, mixed lengths with gaps, all separated). Every one of the 12 maps is compared and checked on every '
        'EXISTING index of its level (0..size-1) and the 6 projections on value vectors with one distinct value per item '
        'of their level; tokens compared exactly (index sets as sets). '
        'The selections are handed to get_subset_vector as booleans and (second exhaustive pass on the mixed recording and '
        'on every label vector with >= 3 cycles of length <= 6; 35 % of the random cases) as 0/1 integer flags. '
        'random: K up to 60 cycles, lengths 1..30, gaps, run-structured selections; in 30 % of the cases the label array '
        '(and the subset / chain arrays when the sizes agree) first holds an EARLIER labelling on which all maps are used, '
        'is then relabelled in place, and the answers must describe the current content. '
        'Arrays are handed over writable; a routine writing into one is a mechanism-level report (argument-modified:*). '
        'Empty recordings / recordings without a cycle are compared with the model, their failures are mechanism-level; '
        'time-outs are skipped and tagged. '
        'Outside the property (recorded as outside-domain:* tags in the distribution, never a disagreement or a failure): '
        'the answer at the index one past the end of each level, value vectors shorter/longer than their level, and the '
        'whole malformed stream (selection vector length != K, repeated / skipped / out-of-order labels). '
        'A case is non-trivial when it has an unlabelled sample, an unselected cycle and at least two chains.')


def _timed_out(out):
    return isinstance(out, ImplError) and out.get('error') == 'Timeout'


_NOTES = {}      # case key -> tags about answers outside the property's domain (filled by compare, read by tags)


def _valids_of(case):
    K, pre = case['K'], case['prefix']
    for tail in itertools.product((0, 1), repeat=K - len(pre)):
        yield list(pre) + list(tail)


class Exhaustive(Stream):
    name = 'maps_exhaustive'
    exhaustive = True

    def generate(self, rng, tier):
        N = 8 if tier == 'thorough' else 6
        L = 12 if tier == 'thorough' else 8
        for n in range(0, N + 1):
            for cv in _maps.wf_vectors(n):
                K = max(cv) + 1 if cv else 0
                yield {'cv': cv, 'K': K, 'prefix': []}
        for K in range(0, L + 1):
            npre = max(0, K - 6)
            for cv in _maps.canonical_cvs(K):
                for pre in itertools.product((0, 1), repeat=npre):
                    yield {'cv': cv, 'K': K, 'prefix': list(pre)}
        # the same selections handed over as 0/1 INTEGER flags (how the library stores per-cycle flags such as 'is_good')
        for n in range(1, min(N, 6) + 1):
            for cv in _maps.wf_vectors(n):
                if cv and max(cv) >= 2:
                    yield {'cv': cv, 'K': max(cv) + 1, 'prefix': [], 'vd': 'int'}
        for K in range(1, L + 1):
            npre = max(0, K - 6)
            for pre in itertools.product((0, 1), repeat=npre):
                yield {'cv': _maps.canonical_cvs(K)[1], 'K': K, 'prefix': list(pre), 'vd': 'int'}

    def _items(self, case):
        for valids in _valids_of(case):
            S, C = _maps.sizes(valids)
            yield (valids,) + _maps.default_vals(case['K'], S, C)

    def impl(self, case):
        return [_maps.impl_table(case['cv'], v, vc, vs, vh, vd=case.get('vd', 'bool')) for v, vc, vs, vh in self._items(case)]

    def ops(self, case, out):
        return [_maps.maps_op(case['cv'], v, vc, vs, vh, vd=case.get('vd', 'bool')) for v, vc, vs, vh in self._items(case)]

    def compare(self, case, out, results):
        if _timed_out(out):
            return 'skip:time-out (termination is not this property\'s subject)'
        if isinstance(out, ImplError):
            return 'implementation raised %s: %s' % (out['error'], out['msg'])
        notes = set()
        try:
            for (v, vc, vs, vh), o, r in zip(self._items(case), out, results):
                if not r.ok:
                    return 'valids=%s model answered %s' % (v, r.raw[:100])
                d, nt = _maps.diff_tables(o['table'], _maps.model_table(r), case['cv'], v, (vc, vs, vh))
                notes.update(nt)
                if d:
                    return 'cv=%s valids=%s %s' % (case['cv'], v, d)
            return None
        finally:
            _NOTES[case_key(case)] = sorted(notes)

    def holds(self, case, out):
        if _timed_out(out):
            return []
        if isinstance(out, ImplError):
            return [Failure('raises:' + out['error'], out['msg'], literal=case['K'] > 0 and len(case['cv']) > 0)]
        fs = {}
        for (v, vc, vs, vh), o in zip(self._items(case), out):
            for f in _maps.check_instance(case['cv'], v, vc, vs, vh, o):
                fs.setdefault(f.kind, f)
        return list(fs.values())

    def tags(self, case, out):
        cv = case['cv']
        t = ['K=%d' % case['K'], 'n=%s' % (len(cv) if len(cv) < 10 else '10+'), 'flags=%s' % case.get('vd', 'bool')]
        if _timed_out(out):
            t.append('skipped:time-out')
        if -1 in cv:
            t.append('has-gap')
        if cv and cv[0] == -1:
            t.append('leading-gap')
        if cv and cv[-1] == -1:
            t.append('trailing-gap')
        return t + _NOTES.pop(case_key(case), [])

    def nontrivial(self, case, out):
        return case['K'] >= 3 and -1 in case['cv']


class Single(Stream):
    """One explicit (cv, valids, values) instance; also the replay / shrink format."""
    name = 'maps_random'

    def corpus(self):
        return [
            # D12 witnesses (pinned tree): unlabelled sample -> last cycle's subset entry; one-cycle chain raises
            {'cv': [-1, 0, 0, 1], 'valids': [0, 1]},
            {'cv': [0, -1], 'valids': [1]},
            {'cv': [0, 1, 2], 'valids': [1, 0, 1]},
            {'cv': [0], 'valids': [1]},
            {'cv': [-1, 0, 0, -1, 1, 1, 2, 2, 2, -1], 'valids': [0, 1, 1]},
            {'cv': [-1, 0, 0, -1, 1, 1, 2, 2, 2, -1], 'valids': [1, 0, 1]},
            {'cv': [], 'valids': []},
            {'cv': [-1, -1], 'valids': []},
            {'cv': [0, 0, 1, 2, 2, 3, 4, 5], 'valids': [1, 1, 0, 1, 1, 1], 'vc': [1, 2, 3], 'vs': [1, 2, 3, 4, 5, 6, 7], 'vh': [9]},
            # 0/1 integer selection flags: `~valids` on integers is a bitwise NOT (fancy indices -1 / -2), not a mask
            {'cv': [0, 1, 2, 3, 4, 5, 6, 7, 8, 9, 10, 11], 'valids': [1, 1, 0, 1, 0, 0, 1, 1, 1, 0, 1, 1], 'vd': 'int'},
            {'cv': [0, 1, 2, 3], 'valids': [0, 1, 0, 1], 'vd': 'int'},
            # the SAME label array looked at before and relabelled in place since (a cycle dropped, the rest renumbered):
            # the maps must describe the array as it is now, not a remembered earlier labelling
            {'cv': [-1, 0, 0, 0, -1, -1, 1, 1, 1, 1, -1, -1, 2, 2, 2, 3, 3], 'valids': [1, 1, 1, 1],
             'prev': {'cv': [-1, 0, 0, 0, 1, 1, 2, 2, 2, 2, -1, -1, 3, 3, 3, 4, 4], 'valids': [1, 1, 1, 1, 1]}},
            {'cv': [0, 0, 1, 1, 2, 2], 'valids': [1, 0, 1], 'prev': {'cv': [0, 1, 1, 1, 1, 2], 'valids': [0, 1, 1]}},
        ]

    def _gen_prev(self, rng, cv, valids):
        """an earlier labelling of the same recording (same number of samples): one of today's gaps was a cycle (it has
        been dropped and the rest renumbered since), one of today's cycles was two, the boundaries were one sample
        earlier, or something unrelated; with another selection of the cycles"""
        n, K = len(cv), len(valids)
        blocks = [(k, len(list(g))) for k, g in itertools.groupby(cv)]
        mode = rng.choice(['gap-was-cycle', 'split', 'shift', 'fresh'])
        marks = None
        if mode == 'gap-was-cycle':
            gaps = [b for b, (k, ln) in enumerate(blocks) if k == -1]
            if gaps:
                g = rng.choice(gaps)
                marks = [('g' if b == g else k, ln) for b, (k, ln) in enumerate(blocks)]
        elif mode == 'split':
            long = [b for b, (k, ln) in enumerate(blocks) if k != -1 and ln > 1]
            if long:
                g = rng.choice(long)
                cut = rng.randint(1, blocks[g][1] - 1)
                marks = []
                for b, (k, ln) in enumerate(blocks):
                    marks += [(k, cut), ('s', ln - cut)] if b == g else [(k, ln)]
        elif mode == 'shift' and n > 1:
            marks = [(k, 1) for k in ([cv[0]] + list(cv[:-1]))]
        if marks is None:
            pcv = self._gen_cv(rng, rng.choice([0, 1, 2, 3, 5, 8]))[:n]
            marks = [(k, 1) for k in pcv + [-1] * (n - len(pcv))]
        flat = [k for k, ln in marks for _ in range(ln)]
        pcv, nxt = [], 0
        for k, g in itertools.groupby(flat):
            ln = len(list(g))
            pcv += [-1] * ln if k == -1 else [nxt] * ln
            nxt += (k != -1)
        pv = self._gen_valids(rng, nxt)
        if nxt == K and rng.random() < 0.5:   # same sizes: the subset / chain arrays are relabelled in place as well
            pv = list(valids)
            rng.shuffle(pv)
        return {'cv': pcv, 'valids': pv}

    def _gen_cv(self, rng, K):
        cv = []
        for k in range(K):
            if rng.random() < 0.3:
                cv += [-1] * rng.randint(1, 5)
            cv += [k] * (rng.randint(1, 30) if rng.random() < 0.5 else rng.randint(1, 3))
        if rng.random() < 0.5:
            cv += [-1] * rng.randint(1, 4)
        return cv

    def _gen_valids(self, rng, K):
        mode = rng.choice(['iid', 'runs', 'all', 'none', 'alternate', 'one'])
        if mode == 'iid':
            p = rng.random()
            return [int(rng.random() < p) for _ in range(K)]
        if mode == 'runs':
            v, cur = [], rng.choice([0, 1])
            while len(v) < K:
                v += [cur] * rng.randint(1, 5)
                cur = 1 - cur
            return v[:K]
        if mode == 'all':
            return [1] * K
        if mode == 'none':
            return [0] * K
        if mode == 'alternate':
            return [k % 2 for k in range(K)]
        v = [0] * K
        if K:
            v[rng.randrange(K)] = 1
        return v

    def generate(self, rng, tier):
        for _ in range(2000 if tier == 'thorough' else 250):
            K = rng.choice([0, 1, 2, 3, 5, 8, 13, 21, 40, 60])
            case = {'cv': self._gen_cv(rng, K), 'valids': self._gen_valids(rng, K)}
            if rng.random() < 0.35:
                case['vd'] = 'int'
            if rng.random() < 0.3 and case['cv']:
                case['prev'] = self._gen_prev(rng, case['cv'], case['valids'])
            if rng.random() < 0.3:
                S, C = _maps.sizes(case['valids'])
                case['vc'] = [rng.randint(-50, 50) for _ in range(max(0, K + rng.randint(-2, 2)))]
                case['vs'] = [rng.randint(-50, 50) / 4 for _ in range(max(0, S + rng.randint(-2, 2)))]
                case['vh'] = [rng.randint(-50, 50) for _ in range(max(0, C + rng.randint(-2, 2)))]
            yield case

    def _vals(self, case):
        S, C = _maps.sizes(case['valids'])
        d = _maps.default_vals(len(case['valids']), S, C)
        return case.get('vc', d[0]), case.get('vs', d[1]), case.get('vh', d[2])

    def impl(self, case):
        prev = case.get('prev')
        return _maps.impl_table(case['cv'], case['valids'], *self._vals(case), vd=case.get('vd', 'bool'),
                                prev=(prev['cv'], prev['valids']) if prev else None)

    def ops(self, case, out):
        return [_maps.maps_op(case['cv'], case['valids'], *self._vals(case), vd=case.get('vd', 'bool'))]

    def _outside(self, case):
        """malformed structure (labels repeated / skipped / out of time order, selection vector of another length):
        the property does not speak about it - answers are recorded as tags, never compared or checked"""
        return not _maps.well_formed(case['cv'], case['valids'])

    def compare(self, case, out, results):
        if self._outside(case):
            if isinstance(out, ImplError):
                note = 'outside-domain:malformed:impl-raises:%s' % out['error']
            elif not results or not results[0].ok:
                note = 'outside-domain:malformed:model-rejects'
            else:
                d = _maps.first_raw_diff(out['table'], _maps.model_table(results[0]))
                note = 'outside-domain:malformed:' + ('model-differs:%s' % d if d else 'model-agrees')
            _NOTES[case_key(case)] = [note]
            return None
        if _timed_out(out):
            return 'skip:time-out (termination is not this property\'s subject)'
        if isinstance(out, ImplError):
            return 'implementation raised %s: %s' % (out['error'], out['msg'])
        r = results[0]
        if not r.ok:
            return 'model answered %s' % r.raw[:100]
        d, notes = _maps.diff_tables(out['table'], _maps.model_table(r), case['cv'], case['valids'], self._vals(case))
        _NOTES[case_key(case)] = notes
        return d

    def holds(self, case, out):
        if self._outside(case) or _timed_out(out):
            return []
        if isinstance(out, ImplError):
            return [Failure('raises:' + out['error'], out['msg'], literal=len(case['valids']) > 0 and len(case['cv']) > 0)]
        return _maps.check_instance(case['cv'], case['valids'], *self._vals(case), out)

    def tags(self, case, out):
        cv, v = case['cv'], case['valids']
        S, C = _maps.sizes(v)
        t = ['K=%s' % (len(v) if len(v) < 10 else '10+'), 'chains=%s' % (C if C < 4 else '4+')]
        if -1 in cv:
            t.append('has-gap')
        if 0 in v:
            t.append('has-unselected')
        if 'vc' in case:
            t.append('value-vectors-of-other-length')
        t.append('flags=%s' % case.get('vd', 'bool'))
        if 'prev' in case:
            t.append('relabelled-in-place' + (':subset-too' if len(case['prev']['valids']) == len(v) else ''))
        if _timed_out(out):
            t.append('skipped:time-out')
        if not isinstance(out, ImplError):
            runs = [len(list(g)) for k, g in itertools.groupby(v) if k]
            if 1 in runs:
                t.append('single-cycle-chain')
        return t + _NOTES.pop(case_key(case), [])

    def nontrivial(self, case, out):
        S, C = _maps.sizes(case['valids'])
        return -1 in case['cv'] and 0 in case['valids'] and C >= 2

    def shrink(self, case):
        if 'vd' in case or 'prev' in case:
            keep = {k: case[k] for k in ('vd', 'prev') if k in case}
            if 'prev' in case:      # first try without the history, then keep it (sizes must stay equal: no structural shrinking)
                yield {k: v for k, v in case.items() if k != 'prev'}
                if 'vc' in case:
                    yield dict({'cv': case['cv'], 'valids': case['valids']}, **keep)
                return
            for cand in self.shrink({k: v for k, v in case.items() if k != 'vd'}):
                yield dict(cand, **keep)
            return
        cv, v = case['cv'], case['valids']
        base = {'cv': cv, 'valids': v}
        if 'vc' in case:
            yield base
        K = len(v)
        if K > 1:       # drop the last / first cycle
            yield {'cv': [c for c in cv if c != K - 1], 'valids': v[:-1]}
            yield {'cv': [c - 1 if c > 0 else c for c in cv if c != 0], 'valids': v[1:]}
        for k in range(K):      # shorten a cycle to one sample
            idx = [i for i, c in enumerate(cv) if c == k]
            if len(idx) > 1:
                yield {'cv': [c for i, c in enumerate(cv) if i not in idx[1:]], 'valids': v}
                break
        gaps = [i for i, c in enumerate(cv) if c == -1]
        if len(gaps) > 1:
            yield {'cv': [c for i, c in enumerate(cv) if i != gaps[0]], 'valids': v}
            yield {'cv': [c for i, c in enumerate(cv) if i != gaps[-1]], 'valids': v}


class Malformed(Single):
    """Inputs outside the property's domain: nothing is compared or checked, the evidence records per case whether
    model and implementation happen to agree (a generated case that is well-formed after all gets the full check)."""
    name = 'maps_malformed'

    def corpus(self):
        return [
            {'cv': [0, 1, 2, 2], 'valids': [1, 1]},            # selection vector shorter than the cycle count
            {'cv': [0, 1], 'valids': [1, 0, 1, 1]},            # longer
            {'cv': [1, 1, 0, 0, 1], 'valids': [1, 1]},         # out of order, label in two blocks
            {'cv': [0, 2, 2, 5], 'valids': [1, 1, 1]},         # skipped labels
            {'cv': [0, 1], 'valids': []},
        ]

    def generate(self, rng, tier):
        for _ in range(600 if tier == 'thorough' else 120):
            K = rng.choice([1, 2, 3, 5, 8])
            cv = self._gen_cv(rng, K)
            kind = rng.choice(['short', 'long', 'shuffle', 'skip', 'repeat'])
            if kind == 'short':
                v = self._gen_valids(rng, max(0, K - rng.randint(1, 2)))
            elif kind == 'long':
                v = self._gen_valids(rng, K + rng.randint(1, 3))
            else:
                v = self._gen_valids(rng, K)
                if kind == 'shuffle':
                    rng.shuffle(cv)
                elif kind == 'skip':
                    cv = [c * 2 if c >= 0 else c for c in cv]
                else:
                    cv = cv + cv[:rng.randint(1, max(1, len(cv)))]
            yield {'cv': cv, 'valids': v, 'kind': kind}

    def tags(self, case, out):
        return ['kind=%s' % case.get('kind', 'corpus'), 'well-formed-after-all' if not self._outside(case) else 'malformed'] \
            + _NOTES.pop(case_key(case), [])

    def nontrivial(self, case, out):
        return not self._outside(case)

    def shrink(self, case):
        return []


STREAMS = [Exhaustive(), Single(), Malformed()]
