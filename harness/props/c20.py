"""C20 — logging never changes results; verbosity overrides are temporary."""
import itertools

from common import proto
from common.framework import Failure, ImplError, Stream
from props import _log
from props._log import ALPHABET, BAD_VERB, NUM, UNSTABLE, baseline_key, is_call, own_error, parse_call

ID = 'C20'
LEAN_MODULES = ['Proofs.C20']
REQUIRED = ['C20.call_restores', 'C20.call_state_unchanged', 'C20.call_transparent',
            'C20.call_before_setup_harmless', 'C20.result_indep_of_log', 'C20.override_in_force',
            'C20.run_restores', 'C20.run_calls_irrelevant', 'C20.run_results_indep',
            'C20.raise_leaks_level_current', 'C20.presetup_keyerror_current',
            'C20.bad_verbose_level_untouched', 'C20.bad_verbose_before_setup_ignored', 'C20.bad_verbose_after_setup_rejected',
            'C20.bad_verbose_depends_on_setup', 'C20.wrapper_error_only_if_undocumented',
            'C20.except_only_restore_leaks_on_interrupt', 'C20.call_restores_after_any_history',
            'C20.restore_independent_of_earlier_call']
TRUSTED = [
    'the body of a decorated sift function is abstracted to its outcome (returns | raises): that it never touches '
    'the logger state and that its value does not depend on it is decided by the instance check only '
    '(bitwise comparison of every returned array with a reference computed under an untouched logger)',
    'python `logging` (handler levels, logging.disable, dictConfig) is the oracle behind set_up/set_level/get_level; '
    'the model keeps only the console handler level and the disable switch',
    'os.fork gives every history a process whose logger state is exactly that of the executed prefix',
    'the theorems result_indep_of_log / run_results_indep are definitional with respect to the BODY (its outcome is a model input); '
    'what they prove is the transparency of the wrapper (call_transparent). Bitwise independence of the real results from the '
    'logger state is the instance check of this file, not a theorem',
    'sift_logger reads its inputs eagerly (args[0].shape is formatted whatever the level): sift(X=x) raises IndexError in EVERY '
    'logger state. State-independent, hence not a C20 violation; call mode k asserts that its outcome (error kind or digest) '
    'equals the outcome under an untouched logger, in every state and for every verbosity',
]
ASSUMPTIONS = [
    'levels are the four documented names (CRITICAL, WARNING, INFO, DEBUG); verbose is passed by keyword as documented',
    'OUTSIDE the property (its quantifier is verbose in {None, CRITICAL, WARNING, INFO, DEBUG}): a verbosity that is not a level '
    'name of logging (verbose="debug", 10, "nonsense") is silently ignored before set_up and rejected by the wrapper (TypeError / '
    'AttributeError from set_level, before the body runs) once a console handler exists, so THERE the result depends on the '
    'logger state (C20.bad_verbose_depends_on_setup). Modelled (Op.callBad) and compared step by step; the instance check applies '
    'makes no claim about such calls (level restored - C20.bad_verbose_level_untouched - is kept as a mechanism-level observation)',
    '"the override is in force for that call" is observed WITHOUT reference to any log wording: the signal handed to the sift is a '
    'harness-owned ndarray subclass whose __array_ufunc__ samples emd.logger.get_level() at every numpy operation the sift applies '
    'to it (values are computed on plain views; the untouched-logger reference uses the same array type). A sift that never '
    'operates on the caller\'s array object gives no sample and no claim (tag no-sample-inside-calls)',
    'what a call does as such (returns, raises ValueError / EMDSiftCovergeError, is interrupted) is read off the same call under an '
    'untouched logger without verbose; a seeded ensemble variant whose two seeded reference runs differ is skipped and tagged',
    'set_up() without a level, set_level before set_up and disable / enable: the level they give is taken as observed; the claim is '
    'that the same logger operations give the same levels with and without decorated calls in between (call-free run in a sibling child)',
    '"raises" includes BaseException subclasses: KeyboardInterrupt / SystemExit raised from inside the sift (modes i / q)',
]
RULE = ('exhaustive: every history of length D (quick 3, thorough 4; all shorter ones are its prefixes) over the 21 operations '
        '%s from both the never-set-up and the set-up state, each root-to-leaf history ending in its own forked process; '
        'random: histories of length 4..30 in one fresh forked child each over the same operations plus set_up with a log file '
        '(in those histories the level of the handler named "console" is read from `logging` directly before and after every '
        'decorated call and must be unchanged; one history in five has set_up(log_file) without a level directly followed by overrides), '
        'verbose omitted, non-convergence as the raising call, the signal passed by keyword (sift(X=x)), undocumented verbosity '
        'values ("debug", 10, "nonsense"), and the decorated variants mask_sift / ensemble_sift / '
        'complete_ensemble_sift (seeded), and calls left through KeyboardInterrupt / SystemExit raised inside the sift. '
        'Compared per step: get_level(), error kind (as under an untouched logger), console level sampled inside the call against the '
        'model\'s shown-record flags, output digest (all returned arrays) of every returning call. Non-trivial: the history contains a call with an '
        'explicit verbosity made after set_up under a different standing level, or a raising call with an explicit verbosity.'
        % (ALPHABET,))


# --------------------------------------------------------------------------------------------
# correspondence (model vs implementation) and instance check on one complete history
# --------------------------------------------------------------------------------------------

def model_op(start, toks, baseline=None):
    return proto.op('LOGRUN', {'start': int(start), 'variant': 'fixed',
                               'ops': ','.join(_log.model_token(t, baseline) for t in toks) or '-'})


def _outcome(err, dig):
    return dig if err is None else 'error:' + str(err)


def compare_history(start, toks, recs, baseline, r):
    if not r.ok or len(r.vecs) != 4:
        return 'model answered %s' % r.raw[:200]
    mlev, mres, minfo, mdbg = [[int(v) for v in (x or [])] for x in r.vecs]
    if not (len(mlev) == len(mres) == len(minfo) == len(mdbg) == len(toks)):
        return 'model trajectory has wrong length: %s' % r.raw[:200]
    disabled = False
    for i, (tok, rec) in enumerate(zip(toks, recs)):
        lvl, err, dig, info, dbg, during = rec[:6]
        where = 'start=%d history=%s step %d (%s)' % (start, ','.join(toks), i, tok)
        if lvl != mlev[i]:
            return '%s: get_level() impl=%s model=%s' % (where, lvl, mlev[i])
        if not is_call(tok):
            if err is not None:
                return '%s: logger operation raised %s' % (where, err)
            disabled = (tok == 'dis') or (disabled and tok != 'en')
            continue
        ref = baseline.get(baseline_key(tok))
        if mres[i] == 4:
            # an undocumented verbosity rejected by the wrapper once a console exists: any error will do (outside the quantifier)
            # ... and an implementation that ACCEPTS it (e.g. plain integer levels) is no disagreement about the property either:
            # the level after the call is still compared above at the next step
            continue
        if mres[i] == 3:
            continue        # (same: a console level without a standard name may be restored instead of raising)
        exp_err = own_error(tok, baseline) if mres[i] == 2 else None
        if ref != UNSTABLE and err != exp_err:
            return '%s: error impl=%s model=%s' % (where, err, exp_err)
        # the console level in force while the body ran (sampled by the probe array inside the call) against the model's
        # "records of level INFO / DEBUG are shown" - only where a console exists and logging is enabled
        if during and not disabled and all(d >= 0 for d in during):
            for d in during:
                if (int(d <= 20), int(d <= 10)) != (minfo[i], mdbg[i]):
                    return '%s: console level during the call %s, model shows (INFO,DEBUG) records %s' % (where, during, (minfo[i], mdbg[i]))
        if mres[i] == 1 and ref != UNSTABLE and dig != ref:
            return '%s: output digest %s differs from the reference %s' % (where, dig, ref)
    return None


def check_history(start, toks, recs, lvl0, baseline, free=None):
    """The property's own words on one executed history. Returns {kind: Failure}.

    `free`: [(level, error)] of the same logger operations executed WITHOUT any decorated call in between (None: not available).
    What set_up() without a level, set_level before set_up, disable / enable do to get_level() is not stated by the property:
    those levels are taken as observed; what IS stated - a call leaves nothing behind - is checked against `free`."""
    fs = {}

    def fail(kind, detail, literal=True):
        fs.setdefault(kind, Failure(kind, 'start=%s history=%s: %s' % ('set-up' if start else 'never-set-up', ','.join(toks), detail),
                                    literal=literal))

    before = lvl0
    disabled = False
    nfree = 0              # logger operations seen so far
    comparable = free is not None
    for i, (tok, rec) in enumerate(zip(toks, recs)):
        lvl, err, dig, info, dbg, during = rec[:6]
        direct = rec[6] if len(rec) > 6 else None      # [console handler level(s) before, after]: histories that log to a file
        p = tok.split(':')
        pre = ':before-set_up' if before == -1 else ''
        if err == 'ChildDied':
            fail('child-died', 'step %d (%s)' % (i, tok), literal=False)
            return fs
        if is_call(tok):
            v, mode, fn = parse_call(tok)
            returns = own_error(tok, baseline) is None
            if v in BAD_VERB:
                # a verbosity outside the documented values (outside the quantifier): no claim, the level clause is kept as a
                # mechanism-level observation; later logger levels are no longer compared with the call-free run
                if lvl != before:
                    fail('level-not-restored:undocumented-verbosity', 'step %d (%s): console level %s before the call, %s after'
                         % (i, tok, before, lvl), literal=False)
                comparable = False
                before = lvl
                continue
            if lvl != before:
                fail('level-not-restored:%s%s' % ('returns' if err is None else 'raises', pre),
                     'step %d (%s): console level %s before the call, %s after (%s)' % (i, tok, before, lvl, _outcome(err, dig)))
            # histories that log to a file (two handlers): the level of the CONSOLE handler itself (the handler named 'console'
            # of the 'emd' logger, read from `logging`, not through get_level()) directly before and directly after the call -
            # "changes the console level only for the duration of that call and restores the previous level when the call
            # returns or raises"
            if direct and direct[0] != direct[1]:
                fail('console-handler-level-not-restored:%s:log-file%s' % ('returns' if err is None else 'raises', pre),
                     'step %d (%s): level of the console handler %s directly before the call, %s directly after (%s); get_level() '
                     'said %s before, %s after' % (i, tok, direct[0], direct[1], _outcome(err, dig), before, lvl))
            ref = baseline.get(baseline_key(tok))
            got = _outcome(err, dig)
            if ref is not None and ref != UNSTABLE and got != ref:
                # whatever the call does as such (return, ValueError, EMDSiftCovergeError, KeyboardInterrupt, ...), it must do
                # the same - and return the same numbers - in every logger state and for every verbosity
                what = 'step %d (%s): %s, under an untouched logger without verbose %s' % (i, tok, got, ref)
                if mode == 'k':
                    fail('result-depends-on-logger:keyword-signal', what)
                elif not returns:
                    fail('call-raises-wrong-error:%s%s' % (err, pre), what)
                elif err is not None:
                    fail('call-fails:%s%s' % (err, pre), what)
                else:
                    fail('result-depends-on-logger', what)
            # the override is in force for that call: the console level sampled INSIDE the call (by the probe array, at every
            # numpy operation on the signal) is the requested one - observable once a console exists
            if before >= 0 and during:
                eff = NUM[v] if v in NUM else before
                if any(d != eff for d in during):
                    fail('override-not-in-force' if v in NUM else 'standing-level-not-in-force',
                         'step %d (%s): console level before the call %s, sampled inside the call %s, expected %s'
                         % (i, tok, before, during, eff))
            if (before == -1 or disabled) and (info or dbg):
                fail('console-output-while-silenced', 'step %d (%s): level before %s, disabled=%s, records of the call on the console'
                     % (i, tok, before, disabled), literal=False)
        else:
            claim = not (p[0] == 'sl' and before == -1)     # set_level before set_up: the property says nothing (error or any level)
            if err is not None and claim:
                fail('logger-op-raises:%s:%s' % (p[0], err), 'step %d (%s)' % (i, tok))
            exp = None
            if p[0] in ('su', 'suf') and p[1] in NUM:
                exp = NUM[p[1]]
            elif p[0] == 'sl' and before != -1:
                exp = NUM[p[1]]
            if exp is not None and err is None and lvl != exp:
                fail('logger-op-wrong-level:' + p[0], 'step %d (%s): get_level() %s expected %s' % (i, tok, lvl, exp))
            if p[0] == 'dis':
                disabled = True
            elif p[0] == 'en':
                disabled = False
            # a finished call leaves nothing behind: the logger operation gives the level it gives in the same sequence of
            # logger operations without any call in between
            if comparable and nfree < len(free):
                flvl, ferr = free[nfree]
                if ferr is None and err is None and flvl is not None and lvl != flvl:
                    fail('call-changes-later-logger-state:' + p[0],
                         'step %d (%s): get_level() %s, but %s when the same logger operations run without the calls in between'
                         % (i, tok, lvl, flvl))
            nfree += 1
        before = lvl
    return fs


def nontrivial_history(start, toks):
    lvl = 20 if start else -1
    for tok in toks:
        p = tok.split(':')
        if p[0] in ('su', 'suf'):
            lvl = NUM.get(p[1], 20)
        elif p[0] == 'sl' and lvl != -1:
            lvl = NUM[p[1]]
        elif p[0] == 'c' and p[1] in NUM:
            if p[2] != 'r' or (lvl != -1 and NUM[p[1]] != lvl):
                return True
    return False


def file_logging_active(toks):
    """Was set_up(log_file=...) called at a moment when logging was not disabled?"""
    disabled = False
    for t in toks:
        if t == 'dis':
            disabled = True
        elif t == 'en':
            disabled = False
        elif t.startswith('suf') and not disabled:
            return True
    return False


def _skip_tags(out):
    if isinstance(out, ImplError):
        return ['skipped:%s' % ('time-out' if out['error'] == 'Timeout' else 'child-failed')]
    t = ['skipped:value-claim:stochastic-variant-not-reproducible:%s' % k for k, v in sorted(out.get('baseline', {}).items()) if v == UNSTABLE]
    if 'free' not in out:
        t.append('skipped:call-free-run-not-available')
    sampled = False
    for toks, recs in _log.leaves(out, []):
        if any(is_call(tk) and rc[5] for tk, rc in zip(toks[-len(recs):], recs)):
            sampled = True
            break
    t.append('console-level-sampled-inside-calls' if sampled else 'no-sample-inside-calls')
    return t


class _HistStream(Stream):
    timeout_s = 600

    def impl(self, case):
        return _log.run_history(case['start'], case['prefix'], case.get('depth', 0), ALPHABET, case.get('sig', 0))

    def ops(self, case, out):
        if isinstance(out, ImplError):
            return []
        return [model_op(case['start'], toks, out['baseline']) for toks, _ in _log.leaves(out, case['prefix'])]

    def compare(self, case, out, results):
        if isinstance(out, ImplError) and out['error'] == 'Timeout':
            return 'skip:time-out (termination is not this property\'s subject)'
        if isinstance(out, ImplError):
            return 'history could not be run: %s %s' % (out['error'], out['msg'][-300:])
        if not out['fresh']:
            return 'harness: child did not start from an untouched logger'
        for (toks, recs), r in zip(_log.leaves(out, case['prefix']), results):
            d = compare_history(case['start'], toks, recs, out['baseline'], r)
            if d:
                return d
        return None

    def holds(self, case, out):
        if isinstance(out, ImplError):
            # no statement of the property was evaluated: a time-out is skipped (tagged), a dead child is mechanism-level
            return [] if out['error'] == 'Timeout' else [Failure('history-not-runnable:' + out['error'], out['msg'], literal=False)]
        fs = {}
        if case['start'] and out['lvl0'] < 0:
            fs['start-state-wrong'] = Failure('start-state-wrong', 'get_level() after set_up() is %s' % out['lvl0'], literal=False)
        for toks, recs in _log.leaves(out, case['prefix']):
            free = _log.free_levels(out, toks)
            for k, f in check_history(case['start'], toks, recs, out['lvl0'], out['baseline'], free).items():
                fs.setdefault(k, f)
        if out.get('stderr_logging_error'):
            fs.setdefault('logging-error-on-stderr', Failure('logging-error-on-stderr', 'prefix %s' % case['prefix'], literal=False))
        if file_logging_active(case['prefix']) and out.get('logsize', -1) <= 0:
            fs.setdefault('log-file-empty', Failure('log-file-empty', 'set_up(log_file=...) with logging enabled left no record in the file', literal=False))
        return list(fs.values())


class HistExhaustive(_HistStream):
    """All histories of length D over ALPHABET from both start states (fork tree)."""
    name = 'histories_exhaustive'
    exhaustive = True

    def generate(self, rng, tier):
        plen = 2 if tier == 'thorough' else 1
        for start in (0, 1):
            for pre in itertools.product(ALPHABET, repeat=plen):
                yield {'start': start, 'prefix': list(pre), 'depth': 2}

    def tags(self, case, out):
        t = ['start=%s' % ('set-up' if case['start'] else 'never-set-up'), 'first=' + case['prefix'][0].split(':')[0]]
        if not isinstance(out, ImplError):
            t.append('leaf-histories-per-case=%d' % sum(1 for _ in _log.leaves(out, case['prefix'])))
        return t + _skip_tags(out)

    def nontrivial(self, case, out):
        return not isinstance(out, ImplError)

    def shrink(self, case):
        if case.get('depth', 0) > 0:
            for tok in ALPHABET:
                yield {'start': case['start'], 'prefix': case['prefix'] + [tok], 'depth': case['depth'] - 1}
        else:
            for i in range(len(case['prefix'])):
                yield dict(case, prefix=case['prefix'][:i] + case['prefix'][i + 1:])


EXTRA = (['su:E', 'sl:E', 'sl:E', 'c:E:r', 'c:E:x'] + ['suf:' + l for l in _log.VERB] + ['c:O:r', 'c:O:x', 'c:O:y'] + ['c:%s:y' % v for v in _log.VERB] +
         ['c:B:r', 'c:B:x', 'c:T:r', 'c:U:r', 'c:U:x', 'c:B:k'] + ['c:%s:k' % v for v in ('O', 'N', 'D', 'W')] +
         ['c:%s:i' % v for v in ('N', 'C', 'W', 'I', 'D')] + ['c:%s:q' % v for v in ('O', 'C', 'I', 'D')] + ['c:D:i:m', 'c:W:q:m'])
SLOW = (['c:%s:r:%s' % (v, f) for v in ('N', 'O', 'W', 'D') for f in 'meca'] + ['c:D:x:m', 'c:I:x:e', 'c:C:x:c', 'c:D:y:m'] +
        ['c:%s:r:a' % v for v in ('N', 'O', 'C', 'I', 'D')])


class HistRandom(_HistStream):
    """Longer histories, one fresh forked child each, richer vocabulary."""
    name = 'histories_random'

    def corpus(self):
        return [
            # D16 witnesses: raising call leaks the temporary level; override before set_up -> KeyError
            {'start': 0, 'prefix': ['su:W', 'c:D:x'], 'depth': 0},
            {'start': 0, 'prefix': ['c:I:r'], 'depth': 0},
            {'start': 1, 'prefix': ['c:D:y', 'c:O:r', 'c:C:x', 'sl:W', 'c:N:r'], 'depth': 0},
            {'start': 0, 'prefix': ['c:D:x', 'c:W:y', 'su:N', 'c:C:r'], 'depth': 0},
            {'start': 0, 'prefix': ['dis', 'suf:D', 'c:W:r', 'en', 'c:O:r', 'c:C:x', 'su:N', 'c:D:r'], 'depth': 0},
            {'start': 0, 'prefix': ['suf:N', 'c:D:r', 'c:D:x', 'c:W:r:m', 'c:D:r:e', 'c:N:r:c'], 'depth': 0, 'sig': 1},
            {'start': 1, 'prefix': ['c:D:x:m', 'c:I:x:e', 'c:C:x:c', 'c:D:y:m'], 'depth': 0, 'sig': 2},
            # seeded change C20-2: array keyword arguments must reach the sift untouched in every logger state
            {'start': 0, 'prefix': ['c:O:r:a', 'su:W', 'c:O:r:a', 'c:D:r:a', 'sl:D', 'c:N:r:a', 'dis', 'c:O:r:a', 'en', 'suf:I', 'c:C:r:a'],
             'depth': 0, 'sig': 3},
            {'start': 1, 'prefix': ['c:O:r:a', 'c:W:r:a', 'sl:C', 'c:O:r:a'], 'depth': 0, 'sig': 1},
            # seeded change C20-4: the level in force before the call need not be one of the four documented names
            {'start': 0, 'prefix': ['su:E', 'c:D:r', 'c:I:x', 'sl:W', 'c:E:r', 'sl:E', 'c:C:x', 'c:O:r'], 'depth': 0, 'sig': 2},
            {'start': 1, 'prefix': ['sl:E', 'c:D:r', 'c:W:x', 'c:N:r'], 'depth': 0, 'sig': 0},
            # review B: the signal by keyword (sift_logger raises IndexError) must behave the same in EVERY state and for every
            # verbosity, and must not leak the temporary level
            {'start': 0, 'prefix': ['c:O:k', 'c:D:k', 'su:W', 'c:O:k', 'c:D:k', 'c:N:k', 'dis', 'c:I:k', 'en', 'sl:D', 'c:C:k', 'suf:I', 'c:W:k'],
             'depth': 0, 'sig': 1},
            # review B: undocumented verbosity values: ignored before set_up, rejected by the wrapper after; level never moves
            {'start': 0, 'prefix': ['c:B:r', 'c:T:x', 'c:U:r', 'su:W', 'c:B:r', 'c:T:r', 'c:U:x', 'c:B:k', 'dis', 'c:B:r', 'en', 'sl:D',
                                    'c:U:r', 'c:D:r'], 'depth': 0, 'sig': 2},
            {'start': 1, 'prefix': ['c:B:r', 'c:B:x', 'sl:C', 'c:T:r', 'c:N:r'], 'depth': 0, 'sig': 0},
            # "back in place when the call returns or RAISES": the call is left through KeyboardInterrupt (Ctrl-C during a long
            # verbose sift) / SystemExit, raised from inside the sift by the harness-owned signal array
            {'start': 1, 'prefix': ['c:D:i', 'c:C:q', 'sl:W', 'c:D:i', 'c:I:q', 'c:D:i:m', 'c:N:i', 'c:O:r'], 'depth': 0, 'sig': 1},
            {'start': 0, 'prefix': ['c:D:i', 'c:W:q', 'su:W', 'c:D:q', 'c:C:i', 'dis', 'c:I:i', 'en', 'suf:C', 'c:D:i', 'c:W:q:m'],
             'depth': 0, 'sig': 2},
            # an override requested BEFORE set_up must leave nothing behind: a later set_up() comes up as it does without the call
            {'start': 0, 'prefix': ['c:D:r', 'su:N', 'c:O:r'], 'depth': 0, 'sig': 0},
            {'start': 0, 'prefix': ['c:C:x', 'sl:W', 'c:W:r', 'suf:N', 'c:D:r', 'su:N'], 'depth': 0, 'sig': 3},
            # seeded change C20 r5/1 (console found by type: the file handler is a StreamHandler too, get_level() reports ITS level
            # and the console is "restored" to 0): set_up with a log file and NO explicit level afterwards (console 20, file 0),
            # then an override - returning, raising, interrupted; every verbosity; set_up again before each call because the first
            # wrong restore makes both handlers equal and hides the rest
            {'start': 0, 'prefix': ['suf:N', 'c:D:r'], 'depth': 0, 'sig': 0},
            {'start': 0, 'prefix': ['suf:N', 'c:W:x'], 'depth': 0, 'sig': 1},
            {'start': 1, 'prefix': ['suf:N', 'c:C:y'], 'depth': 0, 'sig': 2},
            {'start': 1, 'prefix': ['suf:N', 'c:I:i', 'suf:N', 'c:D:q', 'suf:N', 'c:W:r:m'], 'depth': 0, 'sig': 1},
            {'start': 0, 'prefix': ['suf:N', 'c:C:r', 'suf:N', 'c:C:x', 'suf:N', 'c:W:r', 'suf:N', 'c:W:x', 'suf:N', 'c:I:r', 'suf:N',
                                    'c:I:x', 'suf:N', 'c:D:r', 'suf:N', 'c:D:x', 'suf:N', 'c:N:r', 'c:O:x', 'c:D:r'], 'depth': 0, 'sig': 3},
            {'start': 0, 'prefix': ['su:W', 'suf:N', 'dis', 'c:D:r', 'en', 'suf:N', 'c:O:r', 'c:N:x', 'c:C:x', 'sl:D', 'c:W:r'],
             'depth': 0, 'sig': 2},
        ]

    def generate(self, rng, tier):
        n = 1200 if tier == 'thorough' else 150
        for i in range(n):
            length = rng.randint(4, 30) if rng.random() < 0.8 else rng.randint(31, 80)
            slow_p = 0.06 if rng.random() < 0.5 else 0.0
            toks = []
            for _ in range(length):
                u = rng.random()
                toks.append(rng.choice(SLOW) if u < slow_p else rng.choice(EXTRA) if u < 0.3 else rng.choice(ALPHABET))
            if rng.random() < 0.2:
                # logging to a file with the console and the file handler at DIFFERENT levels (set_up(log_file=...) without a
                # level, nothing explicit since), then an override - returning, raising or interrupted
                for _ in range(rng.randint(1, 2)):
                    at = rng.randint(0, len(toks))
                    toks[at:at] = ['suf:N'] + ['c:%s:%s' % (rng.choice('CWID'), rng.choice('rrxxyiq')) for _ in range(rng.randint(1, 2))]
            yield {'start': rng.randint(0, 1), 'prefix': toks, 'depth': 0, 'sig': rng.randint(0, 5)}

    def tags(self, case, out):
        toks = case['prefix']
        t = ['start=%s' % ('set-up' if case['start'] else 'never-set-up'),
             'len=%s' % ('<=8' if len(toks) <= 8 else '9-30' if len(toks) <= 30 else '>30')]
        if any(x.startswith('suf') for x in toks):
            t.append('log-to-file')
        for m, lab in (('r', 'returns'), ('x', 'raises-shape'), ('y', 'raises-no-convergence'), ('i', 'KeyboardInterrupt'),
                       ('q', 'SystemExit')):
            if any(is_call(x) and parse_call(x)[1] == m and parse_call(x)[0] in NUM for x in toks):
                t.append('override+' + lab)
        for f, lab in (('m', 'mask_sift'), ('e', 'ensemble_sift'), ('c', 'complete_ensemble_sift'), ('a', 'array-kwargs')):
            if any(is_call(x) and parse_call(x)[2] == f for x in toks):
                t.append(lab)
        if 'dis' in toks:
            t.append('disable')
        if any(is_call(x) and parse_call(x)[0] in BAD_VERB for x in toks):
            t.append('undocumented-verbosity')
        if any(is_call(x) and parse_call(x)[1] == 'k' for x in toks):
            t.append('signal-by-keyword')
        return t + _skip_tags(out)

    def nontrivial(self, case, out):
        return not isinstance(out, ImplError) and nontrivial_history(case['start'], case['prefix'])

    def shrink(self, case):
        toks = case['prefix']
        for cut in (len(toks) // 2, len(toks) // 4):
            if cut:
                yield dict(case, prefix=toks[cut:])
                yield dict(case, prefix=toks[:-cut])
        for i in range(len(toks)):
            yield dict(case, prefix=toks[:i] + toks[i + 1:])


STREAMS = [HistExhaustive(), HistRandom()]
