"""C10 — the Hilbert-Huang spectrum bins every sample's energy exactly once."""
import itertools

import numpy as np

from common import proto
from common.framework import Failure, ImplError, Stream
from props import _spec

ID = 'C10'


def _impl_error(out):
    """impl() as a whole failed: a time-out is not the property's subject (skip-and-tag), anything else is reported"""
    if 'imeout' in str(out.get('error')):
        return []
    return [Failure('raises:' + out['error'], out['msg'])]


def _guarded(holds):
    """a crash of the instance check itself (harness bug, unexpected but legal output container) is never a property violation"""
    def wrapped(self, case, out):
        try:
            return holds(self, case, out)
        except Exception as ex:  # noqa
            return [Failure('instance-check-crashed', repr(ex), literal=False)]
    wrapped.__name__ = holds.__name__
    return wrapped

LEAN_MODULES = ['Proofs.C10']
REQUIRED = ['C10.digitize_spec', 'C10.digitize_out_of_range', 'C10.exactly_one_bin', 'C10.hht_dense_eq_spec',
            'C10.hht_sparse_in_shape', 'C10.hht_sparse_one_per_sample', 'C10.hht_sparse_eq_dense', 'C10.hht1d_eq_spec', 'C10.hht_marginal', 'C10.hht_total',
            'C10.energy_is_square', 'C10.hht_below_range_pinned',
            'C10.digitize_shared_with_phase_binning',
            # out of range = no bin index at all (no wrap-around to the last bin, no clamp to the first); first edge left-closed
            'C10.out_of_range_no_bin', 'C10.out_of_range_contributes_nowhere']
TRUSTED = ['np.digitize / scipy.sparse.coo_matrix(...).toarray() are modelled by what they do to indices (count of edges <= v; '
           'scatter-add with accumulating duplicates); the digitize model is compared with the real np.digitize on every run (stream digitize)',
           'bin edges are produced by the real define_hist_bins / define_hist_bins_from_data (linspace, log, exp are library numerics) '
           'and handed to the model as exact rationals',
           'exactness: amplitudes are small integers / short dyadics, so every float sum is exact and compared with ==']
ASSUMPTIONS = ['edges_weakly_increasing: the theorems assume the edge vector is non-decreasing; validated on every edge vector produced '
               'by define_hist_bins / define_hist_bins_from_data in the run (instance kinds assumption:edges-not-increasing, bins:not-increasing)',
               'amplitudes are finite (NaN amplitudes are skipped by hilberthuang_1d but propagate in hilberthuang; outside the property)',
               'outside the quantifier, not judged literally: NaN frequencies and vector inputs when a call raises (tagged), mismatched shapes / '
               'zero bins / zero samples (stream hht_malformed: any error counts as rejected, literal=False), how bin sets are constructed '
               '(stream bins, literal=False), side effects on the caller\'s arrays (input-modified:*, literal=False; their effect on later spectra is '
               'judged literally), assumption:edges-not-increasing (literal=False); refused inputs are compared as "both refuse", never by class']
RULE = ('exhaustive: every assignment of the edge-hitting alphabet {below, negative, each edge exactly, each bin interior, above, NaN} '
        'to k = T*M samples (k <= 3 quick, <= 4 thorough; amplitudes 1,2,4,8 so every subset sum is distinct) x linear and log edge sets '
        'with 1..3 (quick) / 1..4 (thorough) bins from the real define_hist_bins x {energy, amplitude} x {dense, sparse, 1-D}; '
        'random: T <= 60, M <= 6, 1..12 bins, linear/log/from-data edges, frequencies drawn from the alphabet, the floats adjacent to the '
        'outer edges and uniform values, integer or dyadic amplitudes of either sign, vector inputs; malformed: mismatched shapes, '
        'non-monotone / empty / single edge vectors; hht_dtypes: frequency arrays stored as float32 / int64 / int32 (values exactly '
        'representable; the float32 roundings of every edge and their neighbours, integers around every edge; float64 edges with half-integer '
        'or non-dyadic steps). Every input is evaluated as ONE SEQUENCE OF CALLS ON THE SAME ARRAY OBJECTS: '
        'dense, sparse and 1-D in one of the 6 possible orders (drawn per case), then a dense call in the OTHER mode, then dense and sparse '
        'again; each result is compared with the model and with the brute-force histogram of a pristine copy, every returned object is kept '
        'and read once more after the whole sequence (a spectrum the caller holds must not change when another one is computed), and the '
        'arrays handed in are compared with the pristine copy after every call (mechanism level). Non-trivial: the input has at least one in-range and one out-of-range-or-edge sample; distinct by content hash.')


def _edge_sets(tier):
    nmax = 4 if tier == 'thorough' else 3
    out = []
    for n in range(1, nmax + 1):
        out.append({'lo': 1.0, 'hi': 1.0 + n, 'n': n, 'scale': 'linear'})
        out.append({'lo': 0.5, 'hi': 8.0, 'n': n, 'scale': 'log'})
    out.append({'lo': 0.0, 'hi': 3.0, 'n': 3, 'scale': 'linear'})       # first edge 0: 'below' is negative
    out.append({'lo': 0.1, 'hi': 0.7, 'n': 3, 'scale': 'linear'})       # edges that are not exact in binary
    return out


class Exhaustive(Stream):
    """Blocks of the exhaustive alphabet enumeration (one block = all completions of a prefix)."""
    name = 'hht_exhaustive'
    exhaustive = True

    def generate(self, rng, tier):
        shapes = [(1, 1), (2, 1), (1, 2), (3, 1), (1, 3)]
        big = [(2, 2)] + ([(4, 1), (1, 4)] if tier == 'thorough' else [])
        for es in _edge_sets(tier):
            g = len(_spec.grid_for(_spec.make_edges(es)))
            for (T, M) in shapes + big:
                if (T, M) in big and es['n'] > (3 if tier == 'thorough' else 2):
                    continue
                for mode in _spec.MODES:
                    k = T * M
                    npre = 0 if k <= 2 else (1 if k == 3 else 2)
                    for pre in itertools.product(range(g), repeat=npre):
                        yield {'edges': es, 'T': T, 'M': M, 'mode': mode, 'prefix': list(pre)}

    def _inputs(self, case):
        e = _spec.make_edges(case['edges'])
        g = _spec.grid_for(e)
        T, M = case['T'], case['M']
        k = T * M
        A = [[float(2 ** (t * M + j)) for j in range(M)] for t in range(T)]
        combos = [tuple(case['only'])] if 'only' in case else \
            [tuple(case['prefix']) + rest for rest in itertools.product(range(len(g)), repeat=k - len(case['prefix']))]
        for combo in combos:
            F = [[g[combo[t * M + j]][1] for j in range(M)] for t in range(T)]
            yield combo, e, F, A

    @staticmethod
    def _seq(combo):
        """call order of this input: a function of its content only (stable under shrinking / replay)"""
        return sum((i + 1) * c for i, c in enumerate(combo)) + len(combo)

    def impl(self, case):
        return [_spec.run_hht(F, A, e, case['mode'], seq=self._seq(combo)) for combo, e, F, A in self._inputs(case)]

    def ops(self, case, out):
        ops = []
        for _, e, F, A in self._inputs(case):
            ops += _spec.hht_ops(F, A, e, case['mode'])
        return ops

    def compare(self, case, out, results):
        if isinstance(out, ImplError):
            if 'imeout' in str(out.get('error')):
                return 'skip:run time is not the property\'s subject'
            return 'implementation raised %s' % out['error']
        skip = None
        for i, ((combo, e, F, A), o) in enumerate(zip(self._inputs(case), out)):
            d = _spec.hht_compare(o, results[2 * i:2 * i + 2], outside=any(v is None for row in F for v in row))
            if d and d.startswith('skip:'):
                skip = d
                continue
            if d:
                return 'freqs=%s amps=%s edges=%s mode=%s: %s' % (F, A, [float(v) for v in e], case['mode'], d)
        return skip

    @_guarded
    def holds(self, case, out):
        if isinstance(out, ImplError):
            return _impl_error(out)
        fs = {}
        for (combo, e, F, A), o in zip(self._inputs(case), out):
            for f in _spec.hht_holds(F, A, e, case['mode'], o):
                if f.kind not in fs:
                    f.detail = 'freqs=%s amps=%s edges=%s mode=%s: %s' % (F, A, [float(v) for v in e], case['mode'], f.detail)
                    f.combo = list(combo)
                    fs[f.kind] = f
        return list(fs.values())

    def tags(self, case, out):
        t = ['shape=%dx%d' % (case['T'], case['M']), 'mode=' + case['mode'],
             'nbins=%d' % case['edges']['n'], 'scale=' + case['edges']['scale']]
        if isinstance(out, ImplError) and 'imeout' in str(out.get('error')):
            t.append('timeout-not-judged')
        return t

    def nontrivial(self, case, out):
        return True

    def shrink(self, case):
        if 'only' in case:
            return
        for combo, _, _, _ in self._inputs(case):
            yield dict(case, only=list(combo))


class Single(Stream):
    """One explicit input (also the replay format)."""
    name = 'hht_random'

    def corpus(self):
        lin = {'lo': 1.0, 'hi': 5.0, 'n': 4, 'scale': 'linear'}
        return [
            # D8 witnesses (pinned tree): a frequency below the first edge is counted in the first bin
            {'F': [[0.5]], 'A': [[3.0]], 'edges': lin, 'mode': 'amplitude'},
            {'F': [[0.5, 1.0], [2.5, 5.0], [-3.0, 7.0], [None, 4.999]], 'A': [[1.0, 2.0], [3.0, 4.0], [5.0, 6.0], [7.0, 8.0]],
             'edges': lin, 'mode': 'amplitude'},
            {'F': [[0.5, 1.0], [2.5, 5.0], [-3.0, 7.0], [None, 4.999]], 'A': [[1.0, 2.0], [3.0, 4.0], [5.0, 6.0], [7.0, 8.0]],
             'edges': lin, 'mode': 'energy'},
            {'F': [[-1.0], [0.0], [0.25]], 'A': [[1.0], [2.0], [4.0]], 'edges': {'lo': 0.5, 'hi': 8.0, 'n': 2, 'scale': 'log'}, 'mode': 'energy'},
            # exactly on the last edge / on every edge; all samples out of range; single bin
            {'F': [[1.0, 2.0, 3.0, 4.0, 5.0]], 'A': [[1.0, 2.0, 4.0, 8.0, 16.0]], 'edges': lin, 'mode': 'amplitude'},
            {'F': [[5.0], [5.0], [9.0]], 'A': [[1.0], [2.0], [4.0]], 'edges': lin, 'mode': 'energy'},
            {'F': [[1.0, 1.5, 2.0]], 'A': [[1.0, 2.0, 4.0]], 'edges': {'lo': 1.0, 'hi': 2.0, 'n': 1, 'scale': 'linear'}, 'mode': 'amplitude'},
            # vector input (ensure_2d adds the IMF axis); duplicates accumulating in one cell; negative amplitudes
            {'F': [1.5, 0.5, 4.5, 5.0], 'A': [1.0, 2.0, 4.0, 8.0], 'edges': lin, 'mode': 'amplitude'},
            {'F': [[1.5, 1.25, 1.75, 1.0]], 'A': [[1.0, -2.0, 4.0, 0.5]], 'edges': lin, 'mode': 'energy'},
            # all edges equal (data_min == data_max): every bin is empty
            {'F': [[2.0, 1.0, 3.0]], 'A': [[1.0, 2.0, 4.0]], 'edges': {'lo': 2.0, 'hi': 2.0, 'n': 3, 'scale': 'linear'}, 'mode': 'amplitude'},
            # edges from the data: the maximum sits on the last edge and contributes nothing
            {'F': [[1.0, 2.0], [3.0, 4.0], [2.5, 1.0]], 'A': [[1.0, 2.0], [4.0, 8.0], [16.0, 32.0]],
             'edges': {'from_data': 1, 'n': 3, 'scale': 'linear'}, 'mode': 'amplitude'},
            # round-2 seed C10-3 (energy mode squared the caller's amplitude array in place: the first call is right, every
            # later spectrum of "the same" data is wrong): all six call orders on one in-range sample of amplitude 3,
            # a vector input (ensure_2d hands back a view of the caller's array) and a 3-IMF input
        ] + [{'F': [[1.5]], 'A': [[3.0]], 'edges': lin, 'mode': 'energy', 'seq': q} for q in range(6)] + [
            {'F': [1.5, 2.5, 0.5], 'A': [3.0, -2.0, 5.0], 'edges': lin, 'mode': 'energy', 'seq': 1},
            {'F': [[1.5, 4.5, 9.0], [2.0, 2.5, 1.0]], 'A': [[2.0, 3.0, 5.0], [0.5, -4.0, 7.0]], 'edges': lin, 'mode': 'energy', 'seq': 4},
            {'F': [[1.5, 4.5, 9.0], [2.0, 2.5, 1.0]], 'A': [[2.0, 3.0, 5.0], [0.5, -4.0, 7.0]], 'edges': lin, 'mode': 'amplitude', 'seq': 3},
        ]

    def generate(self, rng, tier):
        n_cases = 2500 if tier == 'thorough' else 300
        for _ in range(n_cases):
            nb = rng.choice([1, 1, 2, 3, 4, 5, 8, 12])
            kind = rng.choice(['linear', 'linear', 'log', 'from_data'])
            if kind == 'from_data':
                es = {'from_data': 1, 'n': nb, 'scale': rng.choice(['linear', 'log'])}
            elif kind == 'log':
                lo = rng.choice([0.1, 0.5, 1.0, 2.0, rng.uniform(0.01, 3)])
                es = {'lo': lo, 'hi': lo * rng.choice([2.0, 10.0, 64.0, rng.uniform(1.5, 50)]), 'n': nb, 'scale': 'log'}
            else:
                lo = rng.choice([0.0, 0.5, 1.0, 3.0, rng.uniform(0, 10)])
                es = {'lo': lo, 'hi': lo + rng.choice([1.0, float(nb), 7.0, rng.uniform(0.1, 40)]), 'n': nb, 'scale': 'linear'}
            T = rng.choice([1, 2, 3, 5, 8, 17, 60]) if rng.random() < 0.8 else rng.randint(1, 60)
            M = rng.choice([1, 1, 2, 3, 6])
            vector = M == 1 and rng.random() < 0.3
            # first draw positive frequencies to derive data-driven edges, then re-draw from the alphabet
            base = [[rng.uniform(0.05, 20) for _ in range(M)] for _ in range(T)]
            if es.get('from_data') and es['scale'] == 'log':
                base = [[abs(v) + 0.01 for v in row] for row in base]
            e = _spec.make_edges(es, base)
            if es.get('from_data'):
                es = {'explicit': [float(v) for v in e], 'src': 'from-data-' + es['scale']}
            g = _spec.grid_for(e, with_nan=True, fine=True)
            p_grid = rng.choice([0.2, 0.6, 1.0])
            lo, hi = float(e[0]), float(e[-1])
            span = (hi - lo) or 1.0
            F = []
            for t in range(T):
                row = []
                for j in range(M):
                    if rng.random() < p_grid:
                        row.append(rng.choice(g)[1])
                    else:
                        row.append(rng.uniform(lo - 0.3 * span, hi + 0.3 * span))
                F.append(row)
            amp = rng.choice(['pos-int', 'int', 'dyadic'])
            if amp == 'pos-int':
                A = [[float(rng.randint(0, 9)) for _ in range(M)] for _ in range(T)]
            elif amp == 'int':
                A = [[float(rng.randint(-9, 9)) for _ in range(M)] for _ in range(T)]
            else:
                A = [[rng.randint(-64, 64) / 8.0 for _ in range(M)] for _ in range(T)]
            if vector:
                F = [r[0] for r in F]
                A = [r[0] for r in A]
            yield {'F': F, 'A': A, 'edges': es, 'mode': rng.choice(_spec.MODES), 'seq': rng.randrange(6)}

    def _edges(self, case):
        return _spec.make_edges(case['edges'], case['F'])

    def _do1d(self, case):
        return np.ndim(case['F']) == 2

    def impl(self, case):
        return _spec.run_hht(case['F'], case['A'], self._edges(case), case['mode'], do_1d=self._do1d(case), seq=case.get('seq', 0),
                             fdtype=case.get('dtype'))

    def ops(self, case, out):
        return _spec.hht_ops(case['F'], case['A'], self._edges(case), case['mode'], do_1d=self._do1d(case))

    def compare(self, case, out, results):
        if isinstance(out, ImplError):
            if 'imeout' in str(out.get('error')):
                return 'skip:run time is not the property\'s subject'
            return 'implementation raised %s' % out['error']
        Fa = _spec.arr(case['F'])
        return _spec.hht_compare(out, results, do_1d=self._do1d(case), outside=_spec.hht_outside_quantifier(Fa.ndim, Fa))

    @_guarded
    def holds(self, case, out):
        if isinstance(out, ImplError):
            return _impl_error(out)
        return _spec.hht_holds(case['F'], case['A'], self._edges(case), case['mode'], out, do_1d=self._do1d(case))

    def tags(self, case, out):
        t = _spec.hht_tags(case['F'], self._edges(case), case['mode'])
        if not isinstance(out, ImplError):
            t.append('calls=' + '>'.join(out.get('order', [])[:3]))
            Fa = _spec.arr(case['F'])
            if _spec.hht_outside_quantifier(Fa.ndim, Fa) and any('error' in out.get(k, {}) for k in out.get('order', [])):
                t.append('error-on-nan-or-vector-input-not-judged')
        elif 'imeout' in str(out.get('error')):
            t.append('timeout-not-judged')
        if case.get('dtype'):
            t.append('dtype=' + case['dtype'])
        t.append('edges=' + (case['edges'].get('src', 'explicit') if 'explicit' in case['edges'] else case['edges'].get('scale', '?')
                             + ('-from-data' if case['edges'].get('from_data') else '')))
        return t

    def nontrivial(self, case, out):
        e = [float(v) for v in self._edges(case)]
        cats = {_spec.category(e, float(v)) for v in _spec.arr(case['F']).ravel()}
        inr = any(_spec.bin_of(e, v) is not None for v in _spec.arr(case['F']).ravel())
        return inr and bool(cats - {'interior'})

    def shrink(self, case):
        F, A = case['F'], case['A']
        n = len(F)
        if n > 1:
            for cut in (n // 2, n // 4, 1):
                if 0 < cut < n:
                    yield dict(case, F=F[cut:], A=A[cut:])
                    yield dict(case, F=F[:n - cut], A=A[:n - cut])
        if n and isinstance(F[0], list) and len(F[0]) > 1:
            for j in range(len(F[0])):
                yield dict(case, F=[[r[j]] for r in F], A=[[r[j]] for r in A])


class Dtypes(Single):
    """Frequency arrays stored in a dtype other than float64 (single precision, whole-Hz integers): "all frequency/amplitude
    arrays". The values are exactly representable in the dtype, so the model and the brute-force histogram see the very
    same real numbers; the bin edges stay the float64 edges the caller supplies (round-3 change C10/1 rounded the EDGES to
    the dtype of the frequencies: a sample equal to the float32 rounding of an edge, or an integer sample between a
    truncated edge and the true one, lands in a bin whose interval does not contain it)."""
    name = 'hht_dtypes'

    def corpus(self):
        lin = {'lo': 0.0, 'hi': 1.0, 'n': 10, 'scale': 'linear'}
        half = {'lo': 0.0, 'hi': 12.5, 'n': 5, 'scale': 'linear'}
        f32 = lambda v: float(np.float32(v))  # noqa
        return [
            # integer frequency 2 with edges 0, 2.5, 5: bin 0 (edges truncated to 0, 2, 5 would say bin 1)
            {'F': [[2.0]], 'A': [[3.0]], 'edges': {'explicit': [0.0, 2.5, 5.0]}, 'mode': 'amplitude', 'dtype': 'int64', 'seq': 0},
            {'F': [[2.0, 7.0, 12.0], [-1.0, 0.0, 13.0], [5.0, 10.0, 3.0]], 'A': [[1.0, 2.0, 3.0], [4.0, 5.0, 6.0], [7.0, 8.0, 9.0]],
             'edges': half, 'mode': 'energy', 'dtype': 'int32', 'seq': 2},
            # single-precision roundings of the edges 0.1 .. 0.9: every one that rounds DOWN lies below its edge
            {'F': [[f32(0.1 * k)] for k in range(11)], 'A': [[float(k + 1)] for k in range(11)], 'edges': lin, 'mode': 'amplitude',
             'dtype': 'float32', 'seq': 1},
            {'F': [[f32(0.7), f32(0.3)], [f32(-0.5), f32(1.0)]], 'A': [[2.0, 3.0], [5.0, 7.0]], 'edges': lin, 'mode': 'energy',
             'dtype': 'float32', 'seq': 5},
        ]

    def generate(self, rng, tier):
        for _ in range(700 if tier == 'thorough' else 90):
            dt = rng.choice(['float32', 'float32', 'int64', 'int32'])
            nb = rng.choice([1, 2, 3, 5, 10])
            integer = dt.startswith('int')
            if rng.random() < 0.25:
                lo = rng.choice([0.5, 0.1, 1.0, 2.5])
                es = {'lo': lo, 'hi': lo * rng.choice([4.0, 10.0, 80.0]), 'n': nb, 'scale': 'log'}
            elif integer:
                lo = rng.choice([0.0, 0.5, 2.5, 1.0, -2.5])
                es = {'lo': lo, 'hi': lo + nb * rng.choice([0.5, 0.75, 1.0, 1.5, 2.5]), 'n': nb, 'scale': 'linear'}
            else:
                lo = rng.choice([0.0, 0.1, 1.0, rng.uniform(0, 5)])
                es = {'lo': lo, 'hi': lo + rng.choice([1.0, 0.6, 0.7 * nb, rng.uniform(0.1, 20)]), 'n': nb, 'scale': 'linear'}
            e = [float(v) for v in _spec.make_edges(es)]
            lo, hi = e[0], e[-1]
            span = (hi - lo) or 1.0
            if integer:
                near = sorted({int(np.floor(v)) + d for v in e for d in (-1, 0, 1, 2)})
                alpha = [float(v) for v in near] + [float(int(np.floor(lo)) - 3), float(int(np.ceil(hi)) + 3), -1.0, 0.0]
                draw = lambda: float(rng.randint(int(np.floor(lo - 0.3 * span)) - 1, int(np.ceil(hi + 0.3 * span)) + 1))  # noqa
            else:
                alpha = []
                for v in e:
                    r = np.float32(v)
                    alpha += [float(r), float(np.nextafter(r, np.float32(-np.inf))), float(np.nextafter(r, np.float32(np.inf)))]
                alpha += [float(np.float32((a + b) / 2)) for a, b in zip(e, e[1:])]
                alpha += [float(np.float32(lo - span / 4)), float(np.float32(hi + span / 4)), float(np.float32(-abs(hi) - 1.0))]
                draw = lambda: float(np.float32(rng.uniform(lo - 0.3 * span, hi + 0.3 * span)))  # noqa
            T, M = rng.choice([1, 2, 3, 5, 8, 12]), rng.choice([1, 2, 3])
            p = rng.choice([0.5, 0.8, 1.0])
            F = [[rng.choice(alpha) if rng.random() < p else draw() for _ in range(M)] for _ in range(T)]
            if rng.random() < 0.5:
                A = [[float(rng.randint(0, 9)) for _ in range(M)] for _ in range(T)]
            else:
                A = [[rng.randint(-64, 64) / 8.0 for _ in range(M)] for _ in range(T)]
            yield {'F': F, 'A': A, 'edges': es, 'mode': rng.choice(_spec.MODES), 'dtype': dt, 'seq': rng.randrange(6)}


class Malformed(Stream):
    """Inputs the routines must reject (or handle in a documented way): only the error kind is compared."""
    name = 'hht_malformed'

    def corpus(self):
        lin = [1.0, 2.0, 3.0]
        return [
            {'F': [[1.5, 2.5], [1.0, 0.0]], 'A': [[1.0, 2.0]], 'e': lin, 'mode': 'energy', 'why': 'rows-differ'},
            {'F': [[1.5, 2.5]], 'A': [[1.0, 2.0, 3.0]], 'e': lin, 'mode': 'energy', 'why': 'cols-differ'},
            {'F': [1.5, 2.5], 'A': [[1.0, 2.0], [3.0, 4.0]], 'e': lin, 'mode': 'amplitude', 'why': 'vector-vs-matrix'},
            {'F': [[1.5, 2.5]], 'A': [[1.0, 2.0]], 'e': [1.0, 3.0, 2.0], 'mode': 'energy', 'why': 'edges-not-monotone'},
            {'F': [[1.5, 2.5]], 'A': [[1.0, 2.0]], 'e': [], 'mode': 'energy', 'why': 'no-edges'},
            {'F': [[1.5, 0.5, 2.5]], 'A': [[1.0, 2.0, 4.0]], 'e': [1.0], 'mode': 'amplitude', 'why': 'single-edge'},
            {'F': [1.5, 2.5], 'A': [1.0, 2.0], 'e': lin, 'mode': 'energy', 'why': 'vector-to-1d'},
            {'F': [], 'A': [], 'e': lin, 'mode': 'energy', 'why': 'no-samples', 'shape': [0, 2]},
        ]

    def generate(self, rng, tier):
        for _ in range(120 if tier == 'thorough' else 30):
            T, M = rng.randint(1, 6), rng.randint(1, 4)
            T2, M2 = T, M
            why = rng.choice(['rows-differ', 'cols-differ', 'edges-not-monotone', 'single-edge', 'ok'])
            if why == 'rows-differ':
                T2 = T + rng.choice([-1, 1, 2]) or T + 1
            if why == 'cols-differ':
                M2 = M + rng.choice([1, 2])
            e = sorted({float(rng.randint(0, 9)) for _ in range(rng.randint(2, 5))})
            if len(e) < 2:
                e = [1.0, 2.0]
            if why == 'edges-not-monotone':
                e = e + [e[0] + 0.5, e[-1] + 1] if len(e) > 1 else [2.0, 1.0, 3.0]
                if all(a <= b for a, b in zip(e, e[1:])) or all(a >= b for a, b in zip(e, e[1:])):
                    e = [1.0, 3.0, 2.0]
            if why == 'single-edge':
                e = e[:1]
            F = [[float(rng.randint(-1, 10)) for _ in range(M)] for _ in range(T)]
            A = [[float(rng.randint(0, 5)) for _ in range(M2)] for _ in range(max(T2, 1))]
            yield {'F': F, 'A': A, 'e': e, 'mode': rng.choice(_spec.MODES), 'why': why, 'seq': rng.randrange(6)}

    def _same_shape(self, case):
        return np.shape(_spec.arr(case['F'])) == np.shape(_spec.arr(case['A']))

    def _arrays(self, case):
        F, A = _spec.arr(case['F']), _spec.arr(case['A'])
        if 'shape' in case:      # JSON lists cannot carry the shape of an empty array
            F, A = F.reshape(case['shape']), A.reshape(case['shape'])
        return F, A

    def impl(self, case):
        F, A = self._arrays(case)
        return _spec.run_hht(F, A, case['e'], case['mode'], do_1d=self._same_shape(case), seq=case.get('seq', 0))

    def ops(self, case, out):
        F, A = self._arrays(case)
        return _spec.hht_ops(F, A, case['e'], case['mode'], do_1d=self._same_shape(case))

    def compare(self, case, out, results):
        if isinstance(out, ImplError):
            if 'imeout' in str(out.get('error')) or case['why'] != 'ok':
                return 'skip:time-out / input outside the quantifier'
            return 'implementation raised %s' % out['error']
        return _spec.hht_compare(out, results, do_1d=self._same_shape(case), outside=case['why'] != 'ok')

    @_guarded
    def holds(self, case, out):
        # Nothing in this stream is in the property's quantifier (mismatched shapes, zero bins, zero samples): the property
        # does not say that such inputs are rejected, nor how. These checks are mechanism-level (literal=False) and accept
        # ANY error as "rejected"; only the well-formed 'ok' cases are judged literally.
        if isinstance(out, ImplError):
            return _impl_error(out) if case['why'] == 'ok' else _spec.nonliteral(_impl_error(out))
        why = case['why']
        fs = [] if why == 'ok' else _spec.nonliteral(_spec.modified_failures(out))     # (hht_holds reports them for 'ok')
        if why in ('rows-differ', 'cols-differ', 'vector-vs-matrix'):
            for nm in ('dense', 'sparse'):
                if 'error' not in out[nm]:
                    fs.append(Failure('mismatched-shapes-not-rejected:' + nm,
                                      'shapes %s vs %s: returned a value' % (np.shape(case['F']), np.shape(case['A'])), literal=False))
        elif why == 'ok' or why == 'single-edge':
            if why == 'single-edge' and 'error' not in out['dense']:
                # zero bins: the only correct spectrum is empty
                if out['dense']['shape'][0] != 0 or out['dense']['v']:
                    fs.append(Failure('single-edge-nonempty', str(out['dense']), literal=False))
            elif why == 'ok':
                fs += _spec.hht_holds(case['F'], case['A'], case['e'], case['mode'], out)
        elif why == 'no-samples':
            if 'error' not in out['dense'] and 'error' not in out.get('oned', {}) and (
                    out['dense'].get('shape') != [len(case['e']) - 1, 0] or out['oned'].get('v') != [0.0] * (2 * (len(case['e']) - 1))):
                fs.append(Failure('no-samples-not-empty', str(out)[:300], literal=False))
        return fs

    def tags(self, case, out):
        t = ['why=' + case['why']]
        if not isinstance(out, ImplError):
            t.append('dense->' + out['dense'].get('error', 'value'))
            if 'oned' in out:
                t.append('1d->' + out['oned'].get('error', 'value'))
        return t

    def nontrivial(self, case, out):
        return case['why'] != 'ok'


class Bins(Stream):
    """np.digitize vs the model's digitize; define_hist_bins / define_hist_bins_from_data bookkeeping."""
    name = 'bins'

    def corpus(self):
        return [{'lo': 1.0, 'hi': 5.0, 'n': 4, 'scale': 'linear', 'ndata': 16},
                {'lo': 1.0, 'hi': 5.0, 'n': 4, 'scale': 'log', 'ndata': 17},
                {'lo': 2.0, 'hi': 2.0, 'n': 3, 'scale': 'linear', 'ndata': 1},
                {'lo': 0.1, 'hi': 0.7, 'n': 6, 'scale': 'linear', 'ndata': 99}]

    def generate(self, rng, tier):
        for _ in range(400 if tier == 'thorough' else 60):
            scale = rng.choice(['linear', 'log'])
            lo = rng.choice([0.1, 0.5, 1.0, 2.0, rng.uniform(0.01, 30)])
            hi = lo + rng.choice([0.0, 1.0, 4.0, rng.uniform(0.001, 100)]) if rng.random() < 0.9 else lo * 2
            yield {'lo': lo, 'hi': hi, 'n': rng.choice([1, 2, 3, 4, 7, 16, 50]), 'scale': scale,
                   'ndata': rng.choice([1, 2, 3, 4, 8, 9, 15, 16, 17, 24, 25, 26, 99, 100, 101, rng.randint(1, 5000)])}

    def impl(self, case):
        from emd import spectra
        e, c = spectra.define_hist_bins(case['lo'], case['hi'], case['n'], scale=case['scale'])
        g = [v for _, v in _spec.grid_for(e, with_nan=True, fine=True)]
        dig = [int(v) for v in np.digitize(_spec.arr(g), e)]
        # data-driven variant: the data are the alphabet values that are finite (and positive for log)
        X = np.array([v for v in g if v is not None and (v > 0 or case['scale'] == 'linear')], dtype=float)
        e2, c2 = spectra.define_hist_bins_from_data(X, nbins=case['n'], scale=case['scale'])
        Xn = np.linspace(case['lo'], case['hi'] if case['hi'] > case['lo'] else case['lo'] + 1, case['ndata'])
        e3, _ = spectra.define_hist_bins_from_data(Xn, scale='linear')
        return {'edges': e.tolist(), 'centres': c.tolist(), 'grid': g, 'digitize': dig,
                'edges_from_data': e2.tolist(), 'xmin': float(X.min()), 'xmax': float(X.max()),
                'auto_nbins': len(e3) - 1}

    def ops(self, case, out):
        if isinstance(out, ImplError):
            return []
        fv, fm, _ = _spec.nan_split(out['grid'])
        return [proto.op('DIGITIZE', {}, [out['edges'], fv, fm]),
                proto.op('CENTRES', {}, [out['edges']]),
                proto.op('SQRTBINS', {'n': case['ndata']})]

    def compare(self, case, out, results):
        if isinstance(out, ImplError):
            return 'implementation raised %s: %s' % (out['error'], out['msg'])
        r = results[0]
        if not r.ok or [int(v) for v in (r.vecs[0] or [])] != out['digitize']:
            return 'np.digitize %s vs model %s on edges %s values %s' % (out['digitize'], r.raw, out['edges'], out['grid'])
        r = results[1]
        mv = r.vecs[0] or []
        if not r.ok or len(mv) != len(out['centres']) or any(
                abs(proto.fr(a) - b) > 1e-9 * max(1.0, abs(case['hi'])) for a, b in zip(out['centres'], mv)):
            return 'centres %s vs model %s' % (out['centres'], r.raw[:200])
        r = results[2]
        if not r.ok or int(r.args['nbins']) != out['auto_nbins']:
            return 'automatic bin count %d vs model %s (n=%d)' % (out['auto_nbins'], r.raw, case['ndata'])
        return None

    @_guarded
    def holds(self, case, out):
        # The statement says nothing about HOW bin sets are constructed (they are only the configuration space of the
        # property): every kind of this stream is mechanism-level (literal=False), end points within 1e-9 relative.
        if isinstance(out, ImplError):
            return _spec.nonliteral(_impl_error(out))
        fs = []
        e = out['edges']
        if len(e) != case['n'] + 1 or len(out['centres']) != case['n']:
            fs.append(Failure('bins:wrong-count', '%d edges %d centres for nbins=%d' % (len(e), len(out['centres']), case['n'])))
        if any(a > b for a, b in zip(e, e[1:])):
            fs.append(Failure('bins:not-increasing', str(e)))
        if case['hi'] > case['lo'] and case['scale'] == 'linear' and any(a >= b for a, b in zip(e, e[1:])) and case['n'] < 1000:
            fs.append(Failure('bins:not-strictly-increasing', str(e)))
        rtol = 1e-9 * max(abs(case['lo']), abs(case['hi']), 1e-300)
        if abs(e[0] - case['lo']) > rtol or abs(e[-1] - case['hi']) > rtol:
            fs.append(Failure('bins:endpoints', '%r..%r for [%r, %r]' % (e[0], e[-1], case['lo'], case['hi'])))
        e2 = out['edges_from_data']
        tol = 1e-9 * max(1.0, abs(out['xmax']))
        if len(e2) != case['n'] + 1 or abs(e2[0] - out['xmin']) > tol or abs(e2[-1] - out['xmax']) > tol:
            fs.append(Failure('bins:from-data-range', 'edges %s for data range [%r, %r]' % (e2, out['xmin'], out['xmax'])))
        if out['auto_nbins'] != int(np.floor(np.sqrt(case['ndata']))):
            fs.append(Failure('bins:auto-count', '%d bins for %d samples' % (out['auto_nbins'], case['ndata'])))
        return _spec.nonliteral(fs)

    def tags(self, case, out):
        return ['scale=' + case['scale'], 'nbins=%d' % case['n'], 'degenerate' if case['hi'] == case['lo'] else 'proper']


STREAMS = [Exhaustive(), Single(), Dtypes(), Malformed(), Bins()]
