"""C19 — array inputs are layout-insensitive, validated and never modified."""
import itertools

import numpy as np

from common import proto
from common.framework import Failure, ImplError, Stream, err_kind
from props import _sup

ID = 'C19'
LEAN_MODULES = ['Proofs.C19']
REQUIRED = ['C19.ensure1d_accepts_iff', 'C19.ensure1d_rejects_iff', 'C19.ensure1d_layout_insensitive',
            'C19.ensureVector_accepts_iff', 'C19.ensureVector_rejects_iff', 'C19.ensure2d_spec',
            'C19.ensureEqualDims_iff', 'C19.ensureEqualDims_axis_iff', 'C19.ensure_preserves_size',
            'C19.ensureAll_iff', 'C19.ensure1d_two_columns_current', 'C19.ensure1d_one_sample_current',
            'C19.ensureVector_nd_current',
            'C19.spectra_shape_checks_are_support_routines', 'C19.ensure_equal_dims_empty_list',
            'C19.ensureEqualDims_pair', 'C19.ensureEqualDims_is_prefix_test', 'C19.ensureEqualDims_not_symmetric',
            'C19.ensureEqualDims_swap_witness',
            'C19.ensureEqualDims_rejects_every_mismatch']
TRUSTED = [
    'PARTIAL (instance-only): that no routine modifies its input arrays / option dictionaries, that accepted layouts give '
    'bitwise identical values, that read-only arrays are accepted and that a repeated deterministic call is identical are facts '
    'about Python object semantics with no counterpart in the pure model; they are decided only by the entry_points stream '
    '(byte-level snapshots before/after every call, digests of squeezed outputs) on the sampled inputs',
    'PARTIAL (instance-only): which layouts each public entry point accepts or rejects is checked on the implementation per '
    'entry point; the theorems cover the four ensure_* routines every entry point delegates to (shape logic only)',
    'ensure_equal_dims(dim=None) is a PREFIX test relative to the first array and therefore asymmetric '
    '(C19.ensureEqualDims_is_prefix_test / _not_symmetric; witness (7,2),(7,2,3) accepted, swapped -> IndexError): "mismatched '
    'lengths are rejected" is guaranteed only along the axes of the first array. The ensure_lists stream compares model and code on '
    'every pair in BOTH orders; the instance check speaks only about equal-rank inputs',
    'which entry point applies which normaliser (table in the header of lean/Proofs/C19.lean) is read from the code and validated '
    'by the entry_points stream; it is not a model',
    'numpy shape semantics of x[:, 0], x[:, newaxis], reshape are what the model assumes for the normalised shapes; the '
    'ensure_shapes stream compares them (and the element order of the data) with the real routines on every enumerated shape',
]
ASSUMPTIONS = ['shapes are tuples of non-negative integers; `dim` of ensure_equal_dims is None or a non-negative axis index '
               '(the only forms used inside emd)']
N = 5
RULE = ('ensure_shapes: exhaustive, every shape of rank <= 4 with dims in {1,2,3,%d} (thorough: also 0), each given to ensure_vector, '
        'ensure_1d_with_singleton and ensure_2d as a read-only arange array; ensure_lists: exhaustive pairs of shapes of rank <= 3 '
        '(quick dims {1,2,%d}, thorough {1,2,3,%d}) x dim in {None,0,1,2} for ensure_equal_dims and as two-array calls of the three '
        'normalisers, plus random triples; entry_points (instance-only): every public numeric entry point x accepted layouts x rejected '
        'layouts x shortened arguments x read-only arrays x option dictionaries passed twice, in a forked child with a memory limit '
        'and a per-call alarm; the table also holds, for every entry point that takes option dictionaries, a variant in which every '
        'optional key of the live signature is present (sift_args naming max_imfs, nested pad dictionaries), and for every documented '
        'non-default branch that handles the input arrays (energy-ratio stop of get_next_imf on a dominant oscillation, mask_sift with '
        'array mask_amp / mask_freqs in the modes ratio_sig and abs) and for every documented '
        'input-normalisation branch an input that reaches it (unwrapped phase > 2 pi through get_cycle_vector / Cycles / phase_align / '
        'get_cycle_stat / bin_by_phase, 3-d second-layer input of the transforms, integer and float32 arrays). '
        'The ensure_shapes / ensure_lists streams judge the support HELPERS (call signature, normalised shapes): mechanism-level only '
        '(literal=False), accepted/rejected compared with the model whatever the error class, no claim on empty shapes and on '
        'ensure_vector with all-singleton trailing axes. Stochastic entry points whose two seeded runs differ, time-outs on ACCEPTED '
        'input, inputs that cannot be built and a failed child are skipped and tagged (rejected layouts that hang stay failures). '
        'Non-trivial: a shape of rank >= 2 / a pair that differs / an entry point with at least one alternative '
        'layout or option dictionary.' % (N, N, N))

FN = {'vec': 'ensure_vector', '1d': 'ensure_1d_with_singleton', '2d': 'ensure_2d'}


def _call_ensure(fn, shapes):
    """Call the real routine on read-only arange arrays; returns dict(shapes|error, data_ok, untouched)."""
    import emd
    arrs = [np.arange(int(np.prod(s)), dtype=float).reshape(s) for s in shapes]
    for a in arrs:
        a.setflags(write=False)
    snaps = [(a.shape, a.tobytes()) for a in arrs]
    f = getattr(emd.support, FN[fn])
    try:
        out = f(list(arrs), ['a%d' % i for i in range(len(arrs))], 'c19')
    except Exception as e:  # noqa
        return {'error': err_kind(e), 'untouched': all((a.shape, a.tobytes()) == s for a, s in zip(arrs, snaps))}
    outs = [out] if len(arrs) == 1 else list(out)
    return {'shapes': [list(map(int, o.shape)) for o in outs],
            'data_ok': all(np.array_equal(np.asarray(o).ravel(), a.ravel()) for o, a in zip(outs, arrs)),
            'untouched': all((a.shape, a.tobytes()) == s for a, s in zip(arrs, snaps))}


def _ens_op(fn, shapes):
    return proto.op('ENSURE', {'fn': fn, 'variant': 'fixed'}, [list(s) for s in shapes])


def _cmp_ens(what, o, r):
    """model vs helper: accepted (normalised shapes) or rejected - with ANY error, the property names no class"""
    if 'error' in o:
        if r.status != 'err':
            return '%s: impl raised %s, model %s' % (what, o['error'], r.raw)
        return None
    if not r.ok or [[int(v) for v in (x or [])] for x in r.vecs] != o['shapes']:
        return '%s: impl shapes %s, model %s' % (what, o['shapes'], r.raw)
    return None


def expect_one(fn, s):
    """The documented contract of one normaliser on one shape: ('ok', shape) | ('raise',) | None (no claim)."""
    s = list(s)
    if len(s) == 0:
        return None                                   # 0-d: not an array of samples; the model states what happens
    if 0 in s:
        return None                                   # empty arrays are not signals of the quantifier
    if fn == 'vec' and len(s) > 2 and all(d == 1 for d in s[1:]):
        # (n,1,1), (1,1,1): "trailing singleton dimensions give identical results" - rejecting them (today's ensure_vector)
        # and accepting them are both compatible with the property, which only forbids GENUINELY multi-column input
        return None
    if fn == '2d':
        return ('ok', s + [1]) if len(s) == 1 else ('ok', s)
    if fn == '1d':
        return ('ok', [s[0], 1]) if all(d == 1 for d in s[1:]) else ('raise',)
    if fn == 'vec':
        if len(s) == 1:
            return ('ok', s)
        if len(s) == 2 and s[1] == 1:
            return ('ok', [s[0]])
        return ('raise',)


def ensure_failures(fn, shapes, o):
    """The support HELPERS against their documented contract. The property's quantifier is the public entry points (stream
    entry_points carries the literal claim); the helpers' call signature, normalised shapes and verdicts are the anchored
    mechanism: every failure here is mechanism-level (literal=False)."""
    fs = []
    name = FN[fn]
    exps = [expect_one(fn, s) for s in shapes]
    if any(e is None for e in exps):
        return fs
    must_raise = any(e == ('raise',) for e in exps)
    what = 'shapes %s' % (shapes,)
    if not o.get('untouched', True):
        fs.append(Failure('%s:input-modified' % name, what, literal=False))
    if 'error' in o:
        if not must_raise:
            fs.append(Failure('%s:valid-layout-rejected:%s' % (name, o['error']), what, literal=False))
        return fs
    if must_raise:
        bad = [s for s, e in zip(shapes, exps) if e == ('raise',)][0]
        cls = 'two-columns' if len(bad) == 2 else 'nd'
        fs.append(Failure('%s:multi-column-accepted:%s' % (name, cls), '%s accepted, returned shapes %s' % (what, o['shapes']), literal=False))
        return fs
    if o['shapes'] != [e[1] for e in exps]:
        fs.append(Failure('%s:wrong-normalised-shape' % name, '%s -> %s, expected %s' % (what, o['shapes'], [e[1] for e in exps]), literal=False))
    if not o['data_ok']:
        fs.append(Failure('%s:data-changed' % name, what, literal=False))
    return fs


class EnsureShapes(Stream):
    name = 'ensure_shapes'
    exhaustive = True
    parallel = False

    def corpus(self):
        # D15 witnesses: two columns, a row, (1,1,1) (np.squeeze removed the sample axis), 3-d with singleton second axis
        return [{'shape': s} for s in ([7, 2], [1, 7], [1, 1, 1], [7, 1, 3], [7, 1, 1], [7, 2, 3], [0], [0, 1, 1], [])]

    def generate(self, rng, tier):
        dims = [0, 1, 2, 3, N] if tier == 'thorough' else [1, 2, 3, N]
        for rank in range(0, 5):
            for s in itertools.product(dims, repeat=rank):
                yield {'shape': list(s)}

    def impl(self, case):
        return {fn: _call_ensure(fn, [case['shape']]) for fn in FN}

    def ops(self, case, out):
        return [_ens_op(fn, [case['shape']]) for fn in FN]

    def compare(self, case, out, results):
        if isinstance(out, ImplError):
            return 'harness: %s' % out['msg']
        skipped = False
        for fn, r in zip(FN, results):
            d = _cmp_ens('%s%s' % (FN[fn], tuple(case['shape'])), out[fn], r)
            if d and expect_one(fn, case['shape']) is None:
                skipped = True          # a shape the property makes no claim about: the model records today's behaviour only
            elif d:
                return d
        return 'skip:model and helper differ on a shape the property makes no claim about' if skipped else None

    def holds(self, case, out):
        if isinstance(out, ImplError):
            return [Failure('ensure-not-runnable', out['msg'], literal=False)]
        return [f for fn in FN for f in ensure_failures(fn, [case['shape']], out[fn])]

    def tags(self, case, out):
        s = case['shape']
        t = ['rank=%d' % len(s)]
        if not isinstance(out, ImplError):
            for fn in FN:
                t.append('%s:%s' % (fn, 'raises' if 'error' in out[fn] else 'accepts'))
        return t

    def nontrivial(self, case, out):
        return len(case['shape']) >= 2


DIMS = [None, 0, 1, 2]


def _call_eq(shapes, dim):
    import emd
    arrs = [np.zeros(s) for s in shapes]
    try:
        emd.support.ensure_equal_dims(tuple(arrs), ['a%d' % i for i in range(len(arrs))], 'c19', dim=dim)
        return 'ok'
    except Exception as e:  # noqa
        return err_kind(e)


class EnsureLists(Stream):
    """Several arrays per call: the loops of the normalisers and ensure_equal_dims."""
    name = 'ensure_lists'
    exhaustive = False
    parallel = False

    def corpus(self):
        return [{'shapes': s} for s in ([[7], [7, 2]], [[7, 2], [7]], [[7, 1], [6, 1]], [[7, 2, 3], [7, 2]], [[7], [7], [8]],
                                        [[7, 3], [7, 3, 2], [7, 3, 2]], [[], [3]], [[3], []],
                                        # C19.ensureEqualDims_swap_witness: the verdict depends on the order of the arrays
                                        [[7, 2], [7, 2, 3]], [[7, 2], [6, 2, 3]], [[6, 2, 3], [7, 2]])]
        # (an EMPTY list of arrays is outside the property - it speaks about the arrays that are passed - so it is not part
        #  of the correspondence or the instance check: a harmless rewrite may treat it differently. The model's answer on it,
        #  C19.ensure_equal_dims_empty_list, was checked against the code by hand when the two shape models were reconciled.)

    def generate(self, rng, tier):
        dims = [1, 2, 3, N] if tier == 'thorough' else [1, 2, N]
        shapes = [list(s) for r in range(0, 4) for s in itertools.product(dims, repeat=r)]
        for a in shapes:
            for b in shapes:
                yield {'shapes': [a, b]}
        for _ in range(3000 if tier == 'thorough' else 400):
            k = rng.choice([3, 3, 4])
            base = [rng.choice([1, 2, 3, N, 9]) for _ in range(rng.randint(1, 3))]
            out = []
            for _ in range(k):
                s = list(base)
                u = rng.random()
                if u < 0.25:
                    s[rng.randrange(len(s))] = rng.choice([1, 2, 3, N, 9])
                elif u < 0.4:
                    s = s + [rng.choice([1, 2])]
                elif u < 0.5 and len(s) > 1:
                    s = s[:-1]
                out.append(s)
            yield {'shapes': out}

    def impl(self, case):
        shapes = case['shapes']
        return {'eq': [_call_eq(shapes, d) for d in DIMS], 'ens': {fn: _call_ensure(fn, shapes) for fn in FN},
                'eq_swapped': _call_eq(shapes[::-1], None)}

    def ops(self, case, out):
        shapes = case['shapes']
        ops = [proto.op('ENSEQ', {'dim': 'none' if d is None else str(d)}, [list(s) for s in shapes]) for d in DIMS]
        return ops + [_ens_op(fn, shapes) for fn in FN] + \
            [proto.op('ENSEQ', {'dim': 'none'}, [list(s) for s in shapes[::-1]])]

    def compare(self, case, out, results):
        if isinstance(out, ImplError):
            return 'harness: %s' % out['msg']
        def verdict(v):       # accepted / rejected (the error class is not part of the property)
            return 'ok' if v == 'ok' else 'rejected'
        skipped = False
        for d, o, r in zip(DIMS, out['eq'], results[:len(DIMS)]):
            m = 'ok' if r.ok else (r.words[0] if r.status == 'err' and r.words else r.raw)
            if verdict(m) != verdict(o):
                return 'ensure_equal_dims(%s, dim=%s): impl %s, model %s' % (case['shapes'], d, o, m)
        for fn, r in zip(FN, results[len(DIMS):]):
            d = _cmp_ens('%s%s' % (FN[fn], case['shapes']), out['ens'][fn], r)
            if d and any(expect_one(fn, sh) is None for sh in case['shapes']):
                skipped = True
            elif d:
                return d
        if skipped:
            return 'skip:model and helper differ on a shape the property makes no claim about'
        r = results[len(DIMS) + len(FN)]
        m = 'ok' if r.ok else (r.words[0] if r.status == 'err' and r.words else r.raw)
        if verdict(m) != verdict(out['eq_swapped']):
            return 'ensure_equal_dims(%s reversed, dim=None): impl %s, model %s' % (case['shapes'], out['eq_swapped'], m)
        return None

    def holds(self, case, out):
        if isinstance(out, ImplError):
            return [Failure('ensure-not-runnable', out['msg'], literal=False)]
        shapes = case['shapes']
        fs = [f for fn in FN for f in ensure_failures(fn, shapes, out['ens'][fn])]
        for d, o in zip(DIMS, out['eq']):
            if d is None:
                if len({len(s) for s in shapes}) != 1:
                    continue                                  # ranks differ: only the model says what happens
                same = all(s == shapes[0] for s in shapes)
            else:
                if any(len(s) <= d for s in shapes):
                    continue
                same = all(s[d] == shapes[0][d] for s in shapes)
            if same and o != 'ok':
                fs.append(Failure('ensure_equal_dims:matching-rejected:%s' % o, 'shapes %s dim=%s' % (shapes, d), literal=False))
            if not same and o == 'ok':
                fs.append(Failure('ensure_equal_dims:mismatch-accepted', 'shapes %s dim=%s' % (shapes, d), literal=False))
        return fs

    def tags(self, case, out):
        t = ['arrays=%d' % len(case['shapes'])]
        if not isinstance(out, ImplError):
            for d, o in zip(DIMS, out['eq']):
                t.append('eq dim=%s:%s' % (d, o))
            if len(case['shapes']) == 2 and out['eq'][0] != out['eq_swapped']:
                t.append('eq dim=None:order-of-arrays-changes-verdict:%s/%s' % tuple(sorted([out['eq'][0], out['eq_swapped']])))
        return t

    def nontrivial(self, case, out):
        return any(s != case['shapes'][0] for s in case['shapes'])


# --------------------------------------------------------------------------------------------
# instance-only: every public numeric entry point
# --------------------------------------------------------------------------------------------

def not_reproducible(ep, out):
    """a stochastic entry point whose two identically seeded runs (np.random.seed, the legacy global generator) differ: the
    property speaks of DETERMINISTIC calls only - its value comparisons are skipped and tagged, side effects / rejections stay"""
    b, r = out['base'], out['repeat']
    return bool(ep.seeded) and 'error' not in b and 'error' not in r and b['out'] != r['out']


def entry_failures(fn, ep, out):
    fs = {}

    def fail(kind, detail):
        fs.setdefault(kind, Failure(kind, '%s: %s' % (fn, detail)))

    def same(a, b):
        return 'error' not in a and 'error' not in b and a['out'] == b['out']

    def describe(r):
        return ('raised %s (%s)' % (r['error'], r.get('msg', ''))) if 'error' in r else 'returned %s' % (str(r['out'])[:120],)

    base = out['base']
    values = not not_reproducible(ep, out)
    if 'error' in base:
        # the documented call itself fails on this input (degenerate signal: other properties' business);
        # here only consistency is required: the repeated / read-only call must fail as well (whatever the error class),
        # nothing is modified
        for tag in ('repeat', 'readonly'):
            if 'error' not in out[tag] and base['error'] != 'Timeout':
                fail('repeat-differs:%s' % fn, 'first call %s, %s call %s' % (describe(base), tag, describe(out[tag])))
        for tag, names in out['mutated'].items():
            for nm in names:
                fail(('options-mutated:%s:%s' if nm in ep.opts else 'input-mutated:%s:%s') % (fn, nm), 'differs after call [%s]' % tag)
        return list(fs.values())
    if values and not same(base, out['repeat']) and out['repeat'].get('error') != 'Timeout':
        fail('repeat-differs:%s' % fn, 'first call %s, second call %s' % (describe(base), describe(out['repeat'])))
    ro = out['readonly']
    if 'error' in ro:
        if ro['error'] != 'Timeout':          # wall-clock on accepted input is not the property's subject (skipped, tagged)
            fail('readonly-rejected:%s:%s' % (fn, ro['error']), 'read-only input arrays: %s' % describe(ro))
    elif values and not same(base, ro):
        fail('readonly-changes-result:%s' % fn, '%s vs %s' % (describe(base), describe(ro)))
    if 'reuse' in out and values:
        r1, r2 = out['reuse']
        if not (same(base, r1) and same(base, r2)) and 'Timeout' not in (r1.get('error'), r2.get('error')):
            fail('option-reuse-changes-result:%s' % fn, 'same option dicts passed twice: %s then %s' % (describe(r1), describe(r2)))
    for tag, names in out['mutated'].items():
        for nm in names:
            if nm in ep.opts:
                fail('options-mutated:%s:%s' % (fn, nm), 'option dictionary %r differs after call [%s]' % (nm, tag))
            else:
                fail('input-mutated:%s:%s' % (fn, nm), 'bytes of input array %r differ after call [%s]' % (nm, tag))
    for arg, d in out['layouts'].items():
        for L, r in d.items():
            lay = _sup.LAYOUT_SHAPES.get(L, L)
            if 'error' in r:
                if r['error'] == 'Timeout':
                    continue                   # accepted input that runs long: termination is not claimed here (skipped, tagged)
                fail('accepted-layout-raises:%s:%s=%s:%s' % (fn, arg, L, r['error']), '%s as %s %s' % (arg, lay, describe(r)))
            elif values and not same(base, r):
                fail('layout-changes-result:%s:%s=%s' % (fn, arg, L), '%s as %s gives %s, as vector %s' % (arg, lay, describe(r), describe(base)))
    for arg, d in out['rejects'].items():
        for L, r in d.items():
            lay = _sup.LAYOUT_SHAPES.get(L, L)
            if 'error' not in r:
                fail('multi-column-accepted:%s:%s=%s' % (fn, arg, L), '%s as %s was processed: %s' % (arg, lay, describe(r)))
            elif r['error'] in ('Timeout', 'MemoryError'):
                # "rejected with an error instead of being processed": running on until the budget is the property's subject
                fail('rejected-layout-hangs:%s:%s=%s' % (fn, arg, L), '%s as %s: %s' % (arg, lay, r['error']))
    for arg, r in out['short'].items():
        if 'error' not in r:
            fail('mismatched-length-accepted:%s:%s' % (fn, arg), '%s three samples short was processed: %s' % (arg, describe(r)))
        elif r['error'] in ('Timeout', 'MemoryError'):
            fail('mismatched-length-hangs:%s:%s' % (fn, arg), r['error'])
    return list(fs.values())


def timeouts_skipped(out):
    recs = [out['repeat'], out['readonly']] + list(out.get('reuse', [])) + [r for d in out['layouts'].values() for r in d.values()]
    return any(r.get('error') == 'Timeout' for r in recs)


_EPS = None


def eps():
    global _EPS
    if _EPS is None:
        _EPS = _sup.entry_points()
    return _EPS


class EntryPoints(Stream):
    name = 'entry_points'
    timeout_s = 1200

    def generate(self, rng, tier):
        names = list(eps())
        combos = [(3, 256), (11, 128), (29, 400)]
        for _ in range(17 if tier == 'thorough' else 4):
            combos.append((rng.randint(100, 10 ** 6), rng.choice([96, 160, 200, 320, 512])))
        for seed, n in combos:
            for nm in names:
                yield {'fn': nm, 'seed': seed, 'n': n}

    def impl(self, case):
        return _sup.run_case(eps()[case['fn']], case['seed'], case['n'])

    def holds(self, case, out):
        if isinstance(out, ImplError):
            if out['error'] == 'Timeout':
                return []
            # the forked child as a whole failed: no layout / side-effect statement was evaluated (mechanism-level)
            return [Failure('entry-point-not-runnable:%s:%s' % (case['fn'], out['error']), out['msg'], literal=False)]
        if 'not_constructible' in out:
            return []
        return entry_failures(case['fn'], eps()[case['fn']], out)

    def tags(self, case, out):
        ep = eps()[case['fn']]
        t = ['group=' + ep.group, 'fn=' + case['fn']]
        if isinstance(out, ImplError):
            return t + ['skipped:child-%s:%s' % (out['error'], case['fn'])]
        if 'not_constructible' in out:
            return t + ['skipped:inputs-not-constructible:%s:%s' % (case['fn'], out['not_constructible'])]
        if 'error' in out['base']:
            t.append('base-call-raises:%s:%s' % (case['fn'], out['base']['error']))
        if not_reproducible(ep, out):
            t.append('skipped:value-comparisons:stochastic-call-not-reproducible:%s' % case['fn'])
        if timeouts_skipped(out):
            t.append('skipped:time-out-on-accepted-input:%s' % case['fn'])
        if not isinstance(out, ImplError):
            for arg, d in out['layouts'].items():
                for L in d:
                    t.append('accept %s' % _sup.LAYOUT_SHAPES.get(L, L))
            if out['short']:
                t.append('mismatched-length args=%d' % len(out['short']))
            if 'reuse' in out:
                t.append('option dicts reused')
            for d in out['rejects'].values():
                for L, r in d.items():
                    t.append('reject %s:%s' % (_sup.LAYOUT_SHAPES.get(L, L), r.get('error', 'ACCEPTED')))
        return t

    def nontrivial(self, case, out):
        ep = eps()[case['fn']]
        return not isinstance(out, ImplError) and 'not_constructible' not in out and 'error' not in out['base'] \
            and bool(ep.args or ep.opts)

    def shrink(self, case):
        for n in (64, 96, 128):
            if n < case['n']:
                yield dict(case, n=n)


STREAMS = [EnsureShapes(), EnsureLists(), EntryPoints()]
