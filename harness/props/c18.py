"""C18 — sift configurations are faithful, addressable and persistable."""
import hashlib
import inspect
import os
import shutil
import tempfile

import numpy as np

from common import proto
from common.framework import Failure, ImplError, Stream, err_kind
from props import _cfg

ID = 'C18'
LEAN_MODULES = ['Proofs.C18']
REQUIRED = ['C18.keyTransform_join', 'C18.keyTransform_too_deep', 'C18.cfgGet_eq_nested', 'C18.cfgSet_eq_nested',
            'C18.cfgDel_eq_nested', 'C18.legacy_text_route_not_inverse', 'C18.legacy_dump_mutated_nested', 'C18.path_get_eq_nested', 'C18.path_set_eq_nested',
            'C18.path_del_eq_nested', 'C18.get_set_same', 'C18.get_set_other', 'C18.del_removes_only',
            'C18.del_keeps_parent', 'C18.set_missing_parent_errors', 'C18.toYamlSafe_idempotent',
            'C18.toYamlSafe_arrayFree', 'C18.toYamlSafe_yamlSafe', 'C18.toYamlSafe_numpy_scalar', 'C18.toYamlSafe_same_options',
            'C18.roundtrip_file', 'C18.roundtrip_text', 'C18.roundtrip_second_trip_identity',
            'C18.numpy_scalar_not_loadable_before_fix', 'C18.alias_copy_denotes_same_options',
            'C18.alias_top_level_edit_not_seen', 'C18.alias_nested_edit_is_seen', 'C18.get_func_shares_nested_dicts_current',
            'C18.roundtrip_get_func', 'C18.dump_leaves_config_untouched', 'C18.default_config_is_signature_defaults',
            'C18.default_config_agrees_with_option_model']
TRUSTED = ['PyYAML (dump / dump_all / load / load_all with FullLoader) is an oracle: assumed to satisfy load(dump(t)) = t on '
           'trees without ndarrays and numpy scalars (yamlSafe); validated on the real library on every run (stream yaml_codec), '
           'together with the refusal (ConstructorError) of trees that hold a numpy scalar, which the driver codec mirrors',
           'inspect.signature is an oracle: the live signatures are handed to the get_config model as tables',
           'error classes of str-indexing Python / numpy objects (TypeError, IndexError, ValueError) are part of the model '
           'and validated by the edit-sequence correspondence',
           'numerical behaviour of the sift variants is not modelled here: behavioural equality of config-driven and plain '
           'calls is decided by the instance check only (bit-identical outputs, seeded numpy RNG, nprocesses=1)']
ASSUMPTIONS = ['yaml_roundtrip_safe_tree: yaml.load(yaml.dump(t)) == t (types included) for option trees without ndarrays and '
               'numpy scalars; list(yaml.load_all(yaml.dump_all(ts))) == ts',
               'no Python object is stored under two keys of one configuration (aliasing has no counterpart in the Tree model)',
               'OUTSIDE the property (observed, stream aliasing; Lean C18.alias_*): get_func() returns functools.partial(func, '
               '**self.store), so the partial (like SiftConfig(name, **cfg), dict(cfg), SiftConfig(name, cfg.store)) shares the '
               'NESTED option dicts with the live configuration: a nested edit of the configuration made AFTER get_func() '
               'changes what the partial does (cfg[\'imf_opts/sd_thresh\'] = 5.0 -> different IMFs), a one-level edit does not. '
               'The property promises a callable that behaves like the original call, not one frozen against later edits of its '
               'source configuration; the theorems represent the partial by the store at the time it was taken',
               'option values are Python or numpy scalars (np.float64/32/16, np.int64/32, np.uint8, np.bool_), None, lists/tuples '
               'without arrays (numpy scalars allowed at any depth inside them), numeric arrays, and dicts of these; a numpy '
               'scalar reads back as the Python scalar of the same value (np.float32(0.1) -> 0.10000000149011612)',
               'to_yaml_file / from_yaml_file format str(config) for their log line whatever the log level: a configuration whose '
               'imf_opts / envelope_opts / extrema_opts entry is not a dict raises AttributeError there (modelled as is; the '
               'round-trip theorems assume the three stage entries are dicts)',
               'NOT JUDGED by the instance checks (outside statement / quantifier): the error CLASS of a refused key path (an error on both '
               'sides is agreement with nested indexing); keys deeper than three levels may be refused (any error, store unchanged) or do '
               'what nested indexing does; key ORDER of stores / written options (compared as mappings); arrays that come back as arrays; '
               'get_config on names that are no sift variant; YAML round trips of configurations whose sift type names no variant; whether '
               'get_func returns a functools.partial (any callable); outcomes of the two stochastic variants when a call is not repeatable '
               'under np.random.seed (run twice, tagged)',
               'MECHANISM-LEVEL (literal=False): the private helper SiftConfig.__keytransform__ (stream keytransform), key-for-key / typed / '
               'ordered equality of get_config with the live signatures (stream default_config; the behavioural statement is judged by '
               'stream behaviour), the PyYAML assumption validators (stream yaml_codec), writing / calling leaving the live configuration '
               'untouched, what functools.partial.keywords / the .store attribute hold, time-outs']
RULE = ('edit sequences: 3-12 (quick) / up to 40 (thorough) get/set/del operations with slash keys of depth 1-4 on the '
        'default configuration of a random variant or on a random nested dict; keys are mostly existing paths, plus new '
        'leaves, missing parents, non-dict parents (scalar, list, tuple, array) and too-deep keys; values are scalars, None, '
        'lists, tuples, 1-D/2-D arrays, nested dicts, numpy scalars (alone and inside lists/tuples/dicts). yaml: the same edited configurations through the file and the text '
        'route. foreign: hand-written YAML (one document, plain mapping, short/long lists). behaviour: 4 variants x signals x '
        'edited options x {unpack, get_func, file, text}. Non-trivial: an edit sequence that contains a successful depth>=2 '
        'write or delete and at least one raised error; a YAML case whose store holds a tuple or array below the top level.')

LEGACY = 0      # 1 = model of the pinned (pre-D14-repair) code, 2 = model before the numpy-scalar repair (D38); each used
                # once to rediscover the defect

VARIANTS = ['sift', 'ensemble_sift', 'complete_ensemble_sift', 'mask_sift']


def NP(t, v):
    """JSON form of the numpy scalar np.<t>(v)"""
    return {'$': 'np', 't': t, 'v': v}


def sift_mod():
    import emd
    return emd.sift


def make_cfg(init):
    S = sift_mod()
    if 'config' in init:
        return S.get_config(init['config'])
    cfg = S.SiftConfig(init.get('name', 'sift'))
    cfg.store = _cfg.build(init['store'])
    return cfg


def kind_of(e):
    return err_kind(e)


def _sorted(o):
    if isinstance(o, dict):
        return {k: _sorted(o[k]) for k in sorted(o, key=str)}
    if isinstance(o, list):
        return [_sorted(x) for x in o]
    if isinstance(o, tuple):
        return tuple(_sorted(x) for x in o)
    return o


def canon(o, forget=True):
    """Canonical form of an option tree AS A MAPPING: key order is immaterial (options are passed as **kwargs);
    with `forget` tuples / arrays count as lists ("tuples may become lists")."""
    return _cfg.safe_wire(_sorted(_cfg.forget_kinds(o) if forget else o))


def same_wire(a, b, forget=False):
    """two wire strings (optionally prefixed 'v:') denote the same typed tree AS MAPPINGS (dict key order immaterial);
    with `forget`, tuples / arrays count as lists (the YAML clause: "tuples may become lists" - or stay tuples)"""
    if not isinstance(a, str) or not isinstance(b, str):
        return a == b
    if a == b:
        return True
    if a.startswith('v:') != b.startswith('v:'):
        return False
    if a.startswith('v:'):
        a, b = a[2:], b[2:]
    if a.startswith('?') or b.startswith('?') or a.startswith('e:') or b.startswith('e:'):
        return a == b
    try:
        return canon_wire(a, forget=forget) == canon_wire(b, forget=forget)
    except Exception:  # noqa  (not a wire string)
        return False


def same_outcome(a, b):
    """results of one key-path operation agree: both refuse (ANY error class - the property fixes none; unknown classes
    arrive as Other:<name>), both succeed, or both return the same value"""
    a, b = str(a), str(b)
    if a.startswith('e:') and b.startswith('e:'):
        return True
    return same_wire(a, b)


def _library_layout(text):
    """is `text` one of the two layouts SiftConfig itself writes (a two-item list of mappings, or two mapping documents)?"""
    try:
        import yaml
        docs = list(yaml.safe_load_all(text))
    except Exception:  # noqa
        return False
    if len(docs) == 1 and isinstance(docs[0], list) and len(docs[0]) == 2 and all(isinstance(d, dict) for d in docs[0]):
        return True
    return len(docs) == 2 and all(isinstance(d, dict) for d in docs)


def canon_wire(w, forget=True):
    """canon() of a wire string ('?unencodable…' markers are returned as they are)"""
    return w if (not isinstance(w, str) or w.startswith('?')) else canon(_cfg.unwire(w), forget)


# ------------------------------------------------------------------------------------------------
# key paths and edit sequences

def apply_keypath(cfg, op):
    try:
        if op['o'] == 'get':
            return 'v:' + _cfg.safe_wire(cfg[op['k']])
        if op['o'] == 'set':
            cfg[op['k']] = _cfg.build(op['v'])
            return 'ok'
        del cfg[op['k']]
        return 'ok'
    except Exception as e:  # noqa
        return 'e:' + kind_of(e)


def apply_nested(store, op):
    """The same operation by plain nested indexing on a plain dict."""
    parts = op['k'].split('/')
    try:
        tgt = store
        for p in parts[:-1]:
            tgt = tgt[p]
        if op['o'] == 'get':
            return 'v:' + _cfg.safe_wire(tgt[parts[-1]])
        if op['o'] == 'set':
            tgt[parts[-1]] = _cfg.build(op['v'])
            return 'ok'
        del tgt[parts[-1]]
        return 'ok'
    except Exception as e:  # noqa
        return 'e:' + kind_of(e)


def all_paths(store, prefix=(), depth=3):
    out = []
    if isinstance(store, dict) and depth > 0:
        for k, v in store.items():
            out.append(prefix + (k,))
            out += all_paths(v, prefix + (k,), depth - 1)
    return out


def gen_ops(rng, store, n):
    """Random edit sequence, simulated on `store` (a plain dict) so that keys are mostly meaningful."""
    ops = []
    for _ in range(n):
        paths = all_paths(store, depth=4)
        r = rng.random()
        if paths and r < 0.55:
            p = rng.choice(paths)
        elif paths and r < 0.75:                       # new leaf under an existing entry (dict or not)
            p = rng.choice(paths + [()]) + (rng.choice(['new', 'pad_width', 'x', 'mode', 'zz']),)
        elif r < 0.85:                                 # missing parent(s)
            p = tuple(rng.choice(['nope', 'imf_opts', 'q']) for _ in range(rng.randint(2, 3)))
        elif r < 0.93:                                 # too deep
            p = tuple(rng.choice(['a', 'imf_opts', 'extrema_opts', 'mag_pad_opts', 'mode']) for _ in range(rng.randint(4, 6)))
        else:                                          # odd keys
            p = (rng.choice(['', '/', 'a//b', '/a', 'a/', ' ', 'ü/ü']),)
        key = '/'.join(p)
        o = rng.choice(['get', 'get', 'set', 'set', 'set', 'del'])
        op = {'o': o, 'k': key}
        if o == 'set':
            op['v'] = _cfg.rand_value(rng, 2, plain_only=False, np_scalars=0.5 if rng.random() < 0.3 else 0.0)
        # "key paths read, write and delete exactly the entries that nested indexing does": a share of the writes / deletes at
        # depth 2-3 is made by nested indexing ON THE CONFIGURATION OBJECT (config['imf_opts']['sd_thresh'] = x, the documented
        # style), so that later path reads, the final store and the YAML / unpacking see entries written the other way
        if o in ('set', 'del') and 2 <= len(p) <= 3 and '' not in p and rng.random() < 0.3:
            op['via'] = 'nested'
        ops.append(op)
        if len(key.split('/')) <= 3:
            apply_nested(store, op)
    return ops


class Edits(Stream):
    name = 'keypath_edits'

    def corpus(self):
        T = lambda *v: {'$': 'tuple', 'v': list(v)}  # noqa
        A = lambda *v: {'$': 'array', 'v': list(v)}  # noqa
        D = lambda *kv: {'$': 'dict', 'v': [list(x) for x in kv]}  # noqa
        return [
            # writes / deletes by nested indexing on the configuration object, read back through key paths (round 5, C18 patch 2
            # and C06 patch 2: __getitem__ handing out a copy of an option group)
            {'init': {'config': 'sift'}, 'ops': [
                {'o': 'set', 'k': 'imf_opts/sd_thresh', 'v': 0.25, 'via': 'nested'}, {'o': 'get', 'k': 'imf_opts/sd_thresh'},
                {'o': 'set', 'k': 'extrema_opts/mag_pad_opts/stat_length', 'v': 3, 'via': 'nested'},
                {'o': 'get', 'k': 'extrema_opts/mag_pad_opts/stat_length'}, {'o': 'del', 'k': 'imf_opts/energy_thresh', 'via': 'nested'},
                {'o': 'get', 'k': 'imf_opts/energy_thresh'}, {'o': 'get', 'k': 'imf_opts'}]},
            {'init': {'config': 'mask_sift'}, 'ops': [
                {'o': 'set', 'k': 'envelope_opts/interp_method', 'v': 'pchip', 'via': 'nested'}, {'o': 'get', 'k': 'envelope_opts'},
                {'o': 'set', 'k': 'extrema_opts/pad_width', 'v': 4, 'via': 'nested'}, {'o': 'del', 'k': 'extrema_opts/pad_width'},
                {'o': 'get', 'k': 'extrema_opts'}]},
            {'init': {'config': 'sift'}, 'ops': [
                {'o': 'get', 'k': 'imf_opts/sd_thresh'}, {'o': 'set', 'k': 'imf_opts/sd_thresh', 'v': 0.05},
                {'o': 'get', 'k': 'imf_opts/sd_thresh'}, {'o': 'get', 'k': 'imf_opts'},
                {'o': 'set', 'k': 'extrema_opts/loc_pad_opts/mode', 'v': 'edge'},
                {'o': 'get', 'k': 'extrema_opts/loc_pad_opts'}, {'o': 'del', 'k': 'extrema_opts/loc_pad_opts/reflect_type'},
                {'o': 'get', 'k': 'extrema_opts/loc_pad_opts'}, {'o': 'get', 'k': 'extrema_opts/loc_pad_opts/reflect_type'},
                {'o': 'get', 'k': 'extrema_opts'}]},
            # missing parents, non-dict parents, too deep: every one must raise and change nothing
            {'init': {'config': 'mask_sift'}, 'ops': [
                {'o': 'set', 'k': 'nope/x', 'v': 1}, {'o': 'set', 'k': 'imf_opts/nope/x', 'v': 1},
                {'o': 'set', 'k': 'sift_thresh/x', 'v': 1}, {'o': 'get', 'k': 'imf_opts/rilling_thresh/x'},
                {'o': 'set', 'k': 'imf_opts/rilling_thresh/x', 'v': 1}, {'o': 'del', 'k': 'imf_opts/rilling_thresh/x'},
                {'o': 'set', 'k': 'mask_freqs', 'v': A(0.25, 0.125)}, {'o': 'get', 'k': 'mask_freqs/x'},
                {'o': 'set', 'k': 'mask_freqs/x', 'v': 1}, {'o': 'del', 'k': 'mask_freqs/x'},
                {'o': 'get', 'k': 'a/b/c/d'}, {'o': 'set', 'k': 'extrema_opts/loc_pad_opts/mode/x', 'v': 1},
                {'o': 'del', 'k': 'a/b/c/d/e'}, {'o': 'del', 'k': 'nope'}, {'o': 'del', 'k': 'imf_opts/nope'},
                {'o': 'get', 'k': ''}, {'o': 'set', 'k': '', 'v': None}, {'o': 'get', 'k': ''}, {'o': 'set', 'k': '/', 'v': 1}]},
            # deleting a leaf keeps its parent and siblings; deleting a parent removes the subtree only
            {'init': {'store': D(('a', D(('b', D(('c', 1), ('d', T(1, 2)))), ('e', [1, 2]))), ('f', None))}, 'ops': [
                {'o': 'del', 'k': 'a/b/c'}, {'o': 'get', 'k': 'a/b'}, {'o': 'get', 'k': 'a'}, {'o': 'del', 'k': 'a/b'},
                {'o': 'get', 'k': 'a'}, {'o': 'get', 'k': 'a/b/d'}, {'o': 'set', 'k': 'a/b', 'v': D()},
                {'o': 'set', 'k': 'a/b/c', 'v': T()}, {'o': 'get', 'k': 'a'}, {'o': 'del', 'k': 'a'}, {'o': 'get', 'k': 'f'}]},
            {'init': {'store': D(('a/b', 1), ('a', D(('b', 2))))}, 'ops': [
                {'o': 'get', 'k': 'a/b'}, {'o': 'set', 'k': 'a/b', 'v': 3}, {'o': 'del', 'k': 'a/b'}, {'o': 'get', 'k': 'a'}]},
            # numpy scalars as option values and as (non-dict) parents: read back unchanged; get below one raises IndexError
            # ("invalid index to scalar variable"), set / del below one TypeError
            {'init': {'config': 'sift'}, 'ops': [
                {'o': 'set', 'k': 'imf_opts/sd_thresh', 'v': NP('float64', 0.1)}, {'o': 'get', 'k': 'imf_opts/sd_thresh'},
                {'o': 'set', 'k': 'max_imfs', 'v': NP('int64', 3)}, {'o': 'get', 'k': 'max_imfs/x'},
                {'o': 'set', 'k': 'max_imfs/x', 'v': 1}, {'o': 'del', 'k': 'max_imfs/x'}, {'o': 'get', 'k': 'imf_opts/sd_thresh/x'},
                {'o': 'set', 'k': 'imf_opts/sd_thresh/x', 'v': 1}, {'o': 'del', 'k': 'imf_opts/sd_thresh/x'},
                {'o': 'set', 'k': 'extrema_opts/parabolic_extrema', 'v': NP('bool', True)},
                {'o': 'get', 'k': 'extrema_opts/parabolic_extrema/x'}, {'o': 'del', 'k': 'extrema_opts/parabolic_extrema/x'},
                {'o': 'set', 'k': 'imf_opts/rilling_thresh', 'v': T(NP('float64', 0.05), 0.5, NP('float32', 0.05))},
                {'o': 'get', 'k': 'imf_opts'}]},
        ]

    def generate(self, rng, tier):
        n_cases = 1200 if tier == 'thorough' else 160
        for i in range(n_cases):
            if rng.random() < 0.6:
                init = {'config': rng.choice(VARIANTS)}
                store = _cfg.deep(make_cfg(init).store)
            else:
                j = {'$': 'dict', 'v': [[k, _cfg.rand_value(rng, 3, plain_only=False)]
                                         for k in rng.sample(['a', 'b', 'imf_opts', 'x', 'max_imfs'], rng.randint(0, 4))]}
                init = {'store': j}
                store = _cfg.build(j)
            n = rng.randint(3, 40 if tier == 'thorough' else 12)
            yield {'init': init, 'ops': gen_ops(rng, store, n)}

    def impl(self, case):
        # a second configuration of the same kind, created BEFORE the edits, and its pristine snapshot: edits of one
        # configuration must never show up in another one or in a configuration created afterwards (seeded change C18-1)
        other = make_cfg(case['init'])
        pristine = _cfg.safe_wire(other.store)
        cfg = make_cfg(case['init'])
        shadow = _cfg.deep(cfg.store)
        init = _cfg.wire(cfg.store)
        res, sres, unchanged = [], [], []
        for op in case['ops']:
            before = _cfg.safe_wire(cfg.store)
            res.append(apply_nested(cfg, op) if op.get('via') == 'nested' else apply_keypath(cfg, op))
            if res[-1].startswith('e:'):
                unchanged.append(_cfg.safe_wire(cfg.store) == before)
            # a key of more than three levels: the code refuses it (that is a rejection like any other - the store is
            # unchanged); an implementation that walks any depth must do what nested indexing does. Both are accepted.
            deep_rejected = len(op['k'].split('/')) > 3 and res[-1].startswith('e:')
            sres.append(None if deep_rejected else apply_nested(shadow, op))
        return {'init': init, 'results': res, 'nested': sres, 'store': _cfg.safe_wire(cfg.store),
                'nested_store': _cfg.safe_wire(shadow), 'failed_ops_left_store_unchanged': all(unchanged),
                'keys': list(cfg), 'len': len(cfg),
                'other_unchanged': _cfg.safe_wire(other.store) == pristine,
                'fresh_is_pristine': _cfg.safe_wire(make_cfg(case['init']).store) == pristine}

    def ops(self, case, out):
        if isinstance(out, ImplError):
            return []
        args = {'store': out['init'], 'n': len(case['ops'])}
        for i, op in enumerate(case['ops']):
            args['o%d' % i] = op['o']
            args['k%d' % i] = _cfg.wire_key(op['k'])
            if op['o'] == 'set':
                args['v%d' % i] = _cfg.wire(_cfg.build(op['v']))
        return [proto.op('CFGSEQ', args)]

    def compare(self, case, out, results):
        if isinstance(out, ImplError):
            return 'implementation raised %s' % out['error']
        r = results[0]
        if not r.ok:
            return 'model answered %s' % r.raw[:200]
        for i, v in enumerate(out['results']):
            if not same_outcome(r.args.get('r%d' % i), v):
                return 'op %d %s: impl %s, model %s' % (i, case['ops'][i], v, r.args.get('r%d' % i))
        if not same_wire(r.args.get('store'), out['store']):
            return 'final store: impl %s, model %s' % (out['store'], r.args.get('store'))
        return None

    def holds(self, case, out):
        if isinstance(out, ImplError):
            return [Failure('raises:' + out['error'], out['msg'], literal=out['error'] != 'Timeout')]
        fs = []
        for i, (a, b) in enumerate(zip(out['results'], out['nested'])):
            op = case['ops'][i]
            if b is None:
                continue      # deeper than three levels and refused (any error class; `failed-edit-changed-the-store` applies)
            if a.startswith('e:') and b.startswith('e:'):
                continue      # both refuse: agreement ("exactly the entries that nested indexing does" fixes no error class)
            if a != b:
                fs.append(Failure('keypath-%s-differs-from-nested-indexing:depth%d' % (op['o'], min(len(op['k'].split('/')), 4)),
                                  'op %d %s: key path %s, nested indexing %s' % (i, op, a, b)))
                break
        if not fs and canon_wire(out['store'], forget=False) != canon_wire(out['nested_store'], forget=False):
            fs.append(Failure('keypath-edits-final-store-differs-from-nested-indexing',
                              '%s vs %s' % (out['store'], out['nested_store'])))
        if not out['failed_ops_left_store_unchanged']:
            fs.append(Failure('failed-edit-changed-the-store'))
        if not out.get('other_unchanged', True):
            fs.append(Failure('edit-leaks-into-another-config', 'a configuration created before the edits changed with them'))
        if not out.get('fresh_is_pristine', True):
            fs.append(Failure('edit-leaks-into-later-config', 'a configuration created after the edits is not the pristine one'))
        final = _cfg.unwire(out['store']) if not out['store'].startswith('?') else None
        if isinstance(final, dict) and (sorted(map(str, out['keys'])) != sorted(map(str, final.keys())) or out['len'] != len(final)):
            fs.append(Failure('mapping-interface-disagrees-with-store', '%s / %s' % (out['keys'], out['len'])))
        return fs

    def tags(self, case, out):
        t = ['init=' + (case['init'].get('config') or 'custom'), 'nops=%d' % (len(case['ops']) // 10 * 10)]
        if not isinstance(out, ImplError):
            for op, r in zip(case['ops'], out['results']):
                d = len(op['k'].split('/'))
                t.append('%s:depth%s:%s' % (op['o'], d if d <= 3 else '>3', r[:1] == 'e' and r[2:] or 'ok'))
            for op in case['ops']:
                if op['o'] == 'set':
                    v = op['v']
                    t.append('value:' + (v['$'] if isinstance(v, dict) else type(v).__name__))
        return sorted(set(t))

    def nontrivial(self, case, out):
        if isinstance(out, ImplError):
            return False
        deep_ok = any(r == 'ok' and len(op['k'].split('/')) >= 2 for op, r in zip(case['ops'], out['results']))
        return deep_ok and any(r.startswith('e:') for r in out['results'])

    def shrink(self, case):
        ops = case['ops']
        for i in range(len(ops)):
            yield dict(case, ops=ops[:i] + ops[i + 1:])


class KeyTransform(Stream):
    name = 'keytransform'

    def corpus(self):
        return [{'key': k} for k in ['', 'a', 'a/b', 'a/b/c', 'a/b/c/d', '/', '//', '///', 'a//b', '/a', 'a/', 'imf_opts/sd_thresh',
                                     'extrema_opts/loc_pad_opts/mode', 'a/b/c/', 'ü/é', ' / ']]

    def generate(self, rng, tier):
        for i in range(2000 if tier == 'thorough' else 200):
            n = rng.randint(0, 9)
            yield {'key': ''.join(rng.choice('ab/_/ é') for _ in range(n))}

    def impl(self, case):
        r = sift_mod().SiftConfig().__keytransform__(case['key'])
        return {'parts': [r] if isinstance(r, str) else list(r), 'is_str': isinstance(r, str)}

    def ops(self, case, out):
        return [proto.op('KEYT', {'key': _cfg.wire_key(case['key'])})]

    def compare(self, case, out, results):
        r = results[0]
        if isinstance(out, ImplError):
            return None if r.status == 'err' else 'skip:foreign document refused by the implementation, accepted by the model'     # both refuse: any class
        if not r.ok or r.args.get('parts') != _cfg.wire(out['parts']):
            return 'impl %s model %s' % (out['parts'], r.raw)
        return None

    def holds(self, case, out):
        # `SiftConfig.__keytransform__` is a private helper the property never mentions (its return convention: str for
        # one level, list otherwise, ValueError for more than three): the whole stream is mechanism-level (literal=False)
        exp = case['key'].split('/')
        if len(exp) > 3:
            if not isinstance(out, ImplError):       # any exception is a rejection
                return [Failure('too-deep-key-not-rejected', repr(case['key']), literal=False)]
            return []
        if isinstance(out, ImplError):
            return [Failure('raises:' + out['error'], out['msg'], literal=False)]
        if out['parts'] != exp or out['is_str'] != (len(exp) == 1):
            return [Failure('keytransform-wrong-levels', '%r -> %s' % (case['key'], out['parts']), literal=False)]
        return []

    def tags(self, case, out):
        return ['levels=%d' % min(len(case['key'].split('/')), 5)]

    def nontrivial(self, case, out):
        return '/' in case['key']


# ------------------------------------------------------------------------------------------------
# YAML routes

def roundtrip(cfg, route):
    """(text, loaded config) through one of the two routes; temp files live under a mkdtemp dir that is removed."""
    S = sift_mod()
    if route == 'file':
        d = tempfile.mkdtemp(prefix='vc18-')
        try:
            fn = os.path.join(d, 'cfg.yml')
            cfg.to_yaml_file(fn)
            with open(fn) as f:
                text = f.read()
            back = S.SiftConfig.from_yaml_file(fn)
        finally:
            shutil.rmtree(d, ignore_errors=True)
        return text, back
    text = cfg.to_yaml_text()
    return text, S.SiftConfig.from_yaml_stream(text)


def func_summary(cfg):
    """what get_func() binds: {'fn', 'kw'} of a functools.partial, {'fn': '?'} for any other callable (the property
    promises "a callable"), {'error'} when get_func raises"""
    try:
        f = cfg.get_func()
    except Exception as e:  # noqa
        return {'error': kind_of(e)}
    try:
        return {'fn': getattr(f.func, '__name__', '?'), 'kw': _cfg.safe_wire(dict(f.keywords))}
    except Exception:  # noqa
        return {'fn': '?', 'kw': '?not-a-partial'}


def gen_plain_sets(rng, store, n):
    ops = []
    for _ in range(n):
        paths = [p for p in all_paths(store, depth=3)]
        p = rng.choice(paths) if paths and rng.random() < 0.7 else (rng.choice(paths + [()])[:2] + (rng.choice(['new', 'x', 'k']),))
        if len(p) >= 2 and not isinstance(_get(store, p[:-1]), dict):
            p = p[:1]
        v = _cfg.rand_value(rng, 2, plain_only=True, np_scalars=0.5 if rng.random() < 0.35 else 0.0)
        if len(p) == 1 and p[0] in ('imf_opts', 'envelope_opts', 'extrema_opts') and not (isinstance(v, dict) and v['$'] == 'dict'):
            if rng.random() < 0.85:      # mostly keep the stage entries dictionaries (str(config) needs them)
                p = p + ('x',) if isinstance(store.get(p[0]), dict) else ('x',)
        op = {'o': 'set', 'k': '/'.join(p), 'v': v}
        ops.append(op)
        apply_nested(store, op)
    return ops


def _get(store, p):
    for k in p:
        if not isinstance(store, dict) or k not in store:
            return None
        store = store[k]
    return store


class _Unreadable:
    """the emitted text is not readable by plain PyYAML FullLoader (safe_wire -> '?unencodable:_Unreadable')"""
    def __init__(self, why):
        self.why = why


class YamlRoutes(Stream):
    name = 'yaml_routes'

    def corpus(self):
        T = lambda *v: {'$': 'tuple', 'v': list(v)}  # noqa
        A = lambda *v: {'$': 'array', 'v': list(v)}  # noqa
        D = lambda *kv: {'$': 'dict', 'v': [list(x) for x in kv]}  # noqa
        out = []
        for route in ('text', 'file'):
            # D14 witnesses: default configs (nested tuple imf_opts/rilling_thresh) through both routes
            for v in VARIANTS:
                out.append({'init': {'config': v}, 'ops': [], 'route': route})
            out.append({'init': {'config': 'mask_sift'}, 'route': route, 'ops': [
                {'o': 'set', 'k': 'mask_freqs', 'v': A(0.25, 0.125, 0.0625)}, {'o': 'set', 'k': 'mask_amp', 'v': T(1, 2.0, 0.5)},
                {'o': 'set', 'k': 'extrema_opts/mag_pad_opts/stat_length', 'v': T(1, 2)},
                {'o': 'set', 'k': 'extrema_opts/loc_pad_opts', 'v': D(('mode', 'linear_ramp'), ('end_values', A([0.0, 1.0], [2.0, 3.0])))},
                {'o': 'set', 'k': 'imf_opts/stop_method', 'v': 'rilling'}, {'o': 'set', 'k': 'imf_opts/energy_thresh', 'v': 50}]})
            out.append({'init': {'name': 'my sift: type', 'store': D()}, 'ops': [], 'route': route})
            inner = D(('d', T(1, T(2))), ('e', A(1, 2)))
            out.append({'init': {'name': 'sift', 'store': D(('a', D(('b', D(('c', inner))))))}, 'ops': [], 'route': route})
            # D38 witnesses: a numpy scalar as an option value (values computed with numpy; np.float64 is a float subclass)
            out.append({'init': {'config': 'sift'}, 'route': route, 'ops': [
                {'o': 'set', 'k': 'imf_opts/sd_thresh', 'v': NP('float64', 0.1)}]})
            out.append({'init': {'config': 'sift'}, 'route': route, 'ops': [{'o': 'set', 'k': 'max_imfs', 'v': NP('int64', 3)}]})
            out.append({'init': {'config': 'mask_sift'}, 'route': route, 'ops': [
                {'o': 'set', 'k': 'imf_opts/rilling_thresh', 'v': T(NP('float64', 0.05), 0.5, NP('float32', 0.05))},
                {'o': 'set', 'k': 'mask_amp', 'v': [NP('float32', 1.0), 0.5, [NP('int32', 2), T(NP('uint8', 1))]]},
                {'o': 'set', 'k': 'extrema_opts/parabolic_extrema', 'v': NP('bool', True)},
                {'o': 'set', 'k': 'extrema_opts/mag_pad_opts/stat_length', 'v': NP('int64', 2)},
                {'o': 'set', 'k': 'extrema_opts/loc_pad_opts', 'v': D(('mode', 'reflect'), ('k', [D(('j', NP('float16', 0.5)))]))}]})
        return out

    def generate(self, rng, tier):
        n_cases = 600 if tier == 'thorough' else 90
        for i in range(n_cases):
            if rng.random() < 0.7:
                init = {'config': rng.choice(VARIANTS)}
                store = _cfg.deep(make_cfg(init).store)
            else:
                j = {'$': 'dict', 'v': [[k, _cfg.rand_value(rng, 3, plain_only=True)]
                                         for k in rng.sample(['a', 'b', 'imf_opts', 'x', 'max_imfs'], rng.randint(0, 4))]}
                init = {'name': rng.choice(['sift', 'mask_sift', 'Unknown', 'x y', '']), 'store': j}
                store = _cfg.build(j)
            yield {'init': init, 'ops': gen_plain_sets(rng, store, rng.randint(0, 6)), 'route': rng.choice(['file', 'text'])}

    def impl(self, case):
        import yaml
        cfg = make_cfg(case['init'])
        for op in case['ops']:
            apply_keypath(cfg, op)
        before = _cfg.wire(cfg.store)
        stype = cfg.sift_type
        try:
            text, back = roundtrip(cfg, case['route'])
        except Exception as e:  # noqa
            return {'before': before, 'after': _cfg.safe_wire(cfg.store), 'stype': _cfg.wire(stype), 'error': kind_of(e),
                    'msg': str(e)[:200]}
        after = _cfg.safe_wire(cfg.store)
        try:       # only feeds the correspondence (what PyYAML reads from the text); a writer with tags of its own is legal
            if case['route'] == 'file':
                docs = list(yaml.load_all(text, Loader=yaml.FullLoader))
            else:
                docs = yaml.load(text, Loader=yaml.FullLoader)
        except Exception as e:  # noqa
            docs = _Unreadable(type(e).__name__)
        # a second generation: the loaded configuration written and read again is a fixed point
        try:
            _, back2 = roundtrip(back, case['route'])
            again = [_cfg.safe_wire(back2.sift_type), _cfg.safe_wire(back2.store)]
        except Exception as e:  # noqa
            again = ['e:' + kind_of(e)]
        return {'before': before, 'after': after, 'stype': _cfg.wire(stype), 'back_stype': _cfg.safe_wire(back.sift_type),
                'back_store': _cfg.safe_wire(back.store), 'docs': _cfg.safe_wire(docs), 'func': func_summary(back),
                'orig_func': func_summary(cfg), 'again': again, 'text': text}

    def ops(self, case, out):
        if isinstance(out, ImplError):
            return []
        return [proto.op('CFGYAML', {'route': case['route'], 'legacy': LEGACY, 'store': out['before'], 'stype': out['stype']})]

    def compare(self, case, out, results):
        if isinstance(out, ImplError):
            return 'implementation raised %s: %s' % (out['error'], out['msg'])
        r = results[0]
        if 'error' in out:
            if r.status == 'err' and same_wire(r.args.get('live'), out['after']):
                return None         # both refuse (the error class is not compared)
            return 'impl raised %s (%s), model %s' % (out['error'], out['msg'], r.raw[:200])
        if not r.ok:
            # the modelled code REFUSES this configuration (a non-variant name, or an option dictionary overwritten by a scalar
            # that the converter then chokes on): a refusal is nothing the property asks for, so an implementation that copes
            # where the modelled one refuses is not a disagreement about the property (what it returns is judged by holds())
            return 'skip:configuration accepted by the implementation, refused by the model'
        for mk, ik in (('stype', 'back_stype'), ('store', 'back_store'), ('live', 'after')):
            # what comes BACK may hold a tuple as a list or as a tuple ("tuples may become lists"): kinds forgotten there
            if not same_wire(r.args.get(mk), out[ik], forget=(ik == 'back_store')):
                return '%s: impl %s, model %s' % (ik, out[ik], r.args.get(mk))
        if not out['docs'].startswith('?') and not same_wire(r.args.get('docs'), 'v:' + out['docs'], forget=True):
            return 'documents written: PyYAML reads %s, model %s' % (out['docs'], r.args.get('docs'))
        return None

    def _variant(self, case):
        """the quantifier ranges over the sift VARIANTS: a configuration whose sift type names none is not judged"""
        return (case['init'].get('config') or case['init'].get('name', 'sift')) in VARIANTS

    def holds(self, case, out):
        route = case['route']
        if isinstance(out, ImplError):
            return [Failure('yaml-roundtrip:raises:%s:%s' % (out['error'], route), out['msg'], literal=out['error'] != 'Timeout')] \
                if self._variant(case) else []
        fs = []
        if out['after'] != out['before']:
            # that writing leaves the live configuration untouched is not C18's statement (C19's): mechanism-level
            fs.append(Failure('yaml-dump-mutates-live-config', 'store before %s after %s' % (out['before'], out['after']), literal=False))
        if 'error' in out:
            o = _cfg.unwire(out['before'])
            if self._variant(case) and \
                    all(isinstance(o.get(s_), dict) for s_ in ('imf_opts', 'envelope_opts', 'extrema_opts') if s_ in o):
                fs.append(Failure('yaml-roundtrip:raises:%s:%s' % (out['error'], route), out['msg']))
            return fs           # a stage entry that is not a dictionary / no sift variant: not a usable configuration, no claim
        if out['back_stype'] != out['stype']:
            fs.append(Failure('yaml-roundtrip:sift-type-changed:' + route, '%s -> %s' % (out['stype'], out['back_stype'])))
        orig = _cfg.unwire(out['before'])
        back = None if out['back_store'].startswith('?') else _cfg.unwire(out['back_store'])
        if not isinstance(back, dict):
            fs.append(Failure('yaml-roundtrip:store-not-a-mapping:' + route, out['back_store'][:200]))
        elif canon(back) != canon(orig):        # the same options AS A MAPPING (key order is immaterial; tuples may become lists;
            #                                      an array that comes back as an array is fine too)
            fs.append(Failure('yaml-roundtrip:options-changed:' + route, '%s -> %s' % (out['before'], out['back_store'])))
        if not [f_ for f_ in fs if f_.literal]:
            f, g = out['func'], out['orig_func']
            if 'error' in g:
                if 'error' not in f:
                    fs.append(Failure('yaml-roundtrip:get_func-differs:' + route, '%s vs %s' % (g, f)))
            elif f.get('fn') == '?' or g.get('fn') == '?':
                pass        # get_func returns a callable that is no functools.partial: nothing to look into (stream behaviour judges it)
            elif 'error' in f or f['fn'] != g['fn'] or canon_wire(f['kw']) != canon_wire(g['kw']):
                fs.append(Failure('yaml-roundtrip:get_func-differs:' + route, '%s vs %s' % (g, f)))
            if len(out['again']) != 2 or out['again'][0] != out['back_stype'] or \
                    canon_wire(out['again'][1], forget=False) != canon_wire(out['back_store'], forget=False):
                fs.append(Failure('yaml-roundtrip:second-generation-differs:' + route, str(out['again'])[:300]))
        return fs

    def tags(self, case, out):
        t = ['route=' + case['route'], 'init=' + (case['init'].get('config') or 'custom')]
        if not isinstance(out, ImplError):
            if 'error' in out:
                t.append('raises:' + out['error'])
            o = _cfg.unwire(out['before'])
            nested = [v for v in o.values() if isinstance(v, dict)]
            if any(isinstance(x, tuple) for x in o.values()):
                t.append('tuple-at-top')
            if any(isinstance(x, np.ndarray) for x in o.values()):
                t.append('array-at-top')
            if any(isinstance(x, (tuple, np.ndarray)) for d in nested for x in _leaves(d)):
                t.append('tuple-or-array-nested')
            if 'J' in [tok[:1] for tok in out['before'].split(',')]:
                t.append('numpy-scalar')
            t.append('empty-store' if not o else 'nonempty-store')
        return t

    def nontrivial(self, case, out):
        return 'tuple-or-array-nested' in self.tags(case, out)

    def shrink(self, case):
        ops = case['ops']
        for i in range(len(ops)):
            yield dict(case, ops=ops[:i] + ops[i + 1:])


def _leaves(d):
    for v in d.values():
        if isinstance(v, dict):
            yield from _leaves(v)
        else:
            yield v


class YamlCodec(Stream):
    """Assumption validator: PyYAML round-trips array-free trees (types included)."""
    name = 'yaml_codec'

    def corpus(self):
        return [{'docs': [{'$': 'dict', 'v': [['a', {'$': 'tuple', 'v': [1, 2.0, True, None, '1', 'null', '']}],
                                               ['b', [1e-8, 1e-300, 2.5e10, -0.0, [[], {'$': 'tuple', 'v': []}]]],
                                               ['', {'$': 'dict', 'v': []}], ['x: y', '- z']]}]}] + \
            [{'docs': [d], 'refused': True} for d in (NP('float64', 0.1), NP('float32', 0.5), NP('int64', 3), NP('uint8', 3),
                                                      NP('bool', True), [1, {'$': 'tuple', 'v': [NP('float16', 0.5)]}])]

    def generate(self, rng, tier):
        for i in range(1500 if tier == 'thorough' else 150):
            yield {'docs': [_strip_arrays(_cfg.rand_value(rng, 3, plain_only=True)) for _ in range(rng.randint(1, 3))]}
        for i in range(300 if tier == 'thorough' else 40):
            # the refusal the driver codec mirrors: a document holding a numpy scalar is dumped but not loaded
            d = _strip_arrays(_cfg.rand_value(rng, 2, plain_only=True, np_scalars=0.6))
            if _has_np(d):
                yield {'docs': [d], 'refused': True}

    def impl(self, case):
        import yaml
        docs = [_cfg.build(d) for d in case['docs']]
        if case.get('refused'):
            res = []
            for f in (lambda: yaml.load(yaml.dump(docs[0], sort_keys=False), Loader=yaml.FullLoader),
                      lambda: yaml.load(yaml.dump([{'sift_type': 'sift'}, {'k': docs[0]}], sort_keys=False), Loader=yaml.FullLoader),
                      lambda: list(yaml.load_all(yaml.dump_all([{'a': 1}, {'k': docs[0]}], sort_keys=False), Loader=yaml.FullLoader))):
                try:
                    f()
                    res.append('loaded')
                except Exception as e:  # noqa
                    res.append(type(e).__name__)
            return {'refusal': res}
        one = [_cfg.safe_wire(yaml.load(yaml.dump(d, sort_keys=False), Loader=yaml.FullLoader)) for d in docs]
        lst = _cfg.safe_wire(yaml.load(yaml.dump(docs, sort_keys=False), Loader=yaml.FullLoader))
        many = _cfg.safe_wire(list(yaml.load_all(yaml.dump_all(docs, sort_keys=False), Loader=yaml.FullLoader)))
        return {'one': one, 'list': lst, 'many': many}

    def holds(self, case, out):
        # statements about third-party PyYAML (emd is not called): a broken ASSUMPTION of the model, never a violation of C18
        if isinstance(out, ImplError):
            return [Failure('assumption:yaml_roundtrip_safe_tree:raises:' + out['error'], out['msg'], literal=False)]
        if case.get('refused'):
            if out['refusal'] != ['ConstructorError'] * 3:
                return [Failure('assumption:yaml_refuses_numpy_scalar', '%s -> %s' % (case['docs'], out['refusal']), literal=False)]
            return []
        docs = [_cfg.build(d) for d in case['docs']]
        exp = [_cfg.wire(d) for d in docs]
        if out['one'] != exp or out['list'] != _cfg.wire(docs) or out['many'] != _cfg.wire(docs):
            return [Failure('assumption:yaml_roundtrip_safe_tree', '%s -> %s' % (exp, out), literal=False)]
        return []

    def tags(self, case, out):
        return ['ndocs=%d' % len(case['docs'])] + (['refused-numpy-scalar'] if case.get('refused') else [])


def _has_np(j):
    if isinstance(j, dict):
        if j['$'] == 'np':
            return True
        if j['$'] == 'dict':
            return any(_has_np(v) for _, v in j['v'])
        return any(_has_np(x) for x in j['v'])
    if isinstance(j, list):
        return any(_has_np(x) for x in j)
    return False


def _strip_arrays(j):
    if isinstance(j, dict):
        if j['$'] == 'array':
            return j['v']
        if j['$'] == 'tuple':
            return {'$': 'tuple', 'v': [_strip_arrays(x) for x in j['v']]}
        if j['$'] == 'np':
            return j
        return {'$': 'dict', 'v': [[k, _strip_arrays(v)] for k, v in j['v']]}
    if isinstance(j, list):
        return [_strip_arrays(x) for x in j]
    return j


class YamlForeign(Stream):
    """Hand-written YAML through both loaders (one document, plain mapping, lists of other lengths, empty)."""
    name = 'yaml_foreign'

    TEXTS = [
        'sift_thresh: 1.0e-08\nimf_opts:\n  sd_thresh: 0.05\n',                       # one document, plain mapping
        '- sift_type: mask_sift\n- max_imfs: 3\n  imf_opts: {stop_method: rilling}\n',    # text form
        'sift_type: ensemble_sift\n---\nnensembles: 2\nimf_opts: {}\n',                  # file form
        'sift_type: sift\n---\nmax_imfs: 2\n---\nignored: true\n',                       # three documents
        '- a\n- b\n- c\n', '- a\n', '[]\n', '- {other: 1}\n- {max_imfs: 2}\n', '- 1\n- 2\n', '- [1, 2]\n- {}\n',
        '', '3\n', 'null\n', 'just a string\n', 'other: 1\n---\nmax_imfs: 2\n', '!!python/tuple [{sift_type: sift}, {}]\n',
        '- sift_type: Unknown\n- {}\n', '- sift_type: [1, 2]\n- {max_imfs: 1}\n', '- sift_type: np\n- {}\n',
    ]

    def corpus(self):
        return [{'text': t, 'route': r} for t in self.TEXTS for r in ('file', 'text')]

    def impl(self, case):
        import yaml
        S = sift_mod()
        try:
            docs = list(yaml.load_all(case['text'], Loader=yaml.FullLoader)) if case['route'] == 'file' \
                else yaml.load(case['text'], Loader=yaml.FullLoader)
            docs = _cfg.safe_wire(docs)
        except Exception as e:  # noqa
            docs = 'e:' + type(e).__name__
        if case['route'] == 'file':
            d = tempfile.mkdtemp(prefix='vc18-')
            try:
                fn = os.path.join(d, 'cfg.yml')
                with open(fn, 'w') as f:
                    f.write(case['text'])
                try:
                    back = S.SiftConfig.from_yaml_file(fn)
                except Exception as e:  # noqa
                    return {'docs': docs, 'error': kind_of(e)}
            finally:
                shutil.rmtree(d, ignore_errors=True)
        else:
            try:
                back = S.SiftConfig.from_yaml_stream(case['text'])
            except Exception as e:  # noqa
                return {'docs': docs, 'error': kind_of(e)}
        st = back.sift_type
        return {'docs': docs, 'stype': _cfg.safe_wire(st), 'store': _cfg.safe_wire(back.store), 'func': func_summary(back),
                'known': int(isinstance(st, str) and hasattr(S, st))}

    def ops(self, case, out):
        if isinstance(out, ImplError) or out['docs'].startswith('e:') or out['docs'].startswith('?'):
            return []
        ops = [proto.op('CFGLOAD', {'route': case['route'], 'docs': out['docs']})]
        if 'error' not in out and not out['stype'].startswith('?') and not out['store'].startswith('?'):
            ops.append(proto.op('CFGFUNC', {'store': out['store'], 'stype': out['stype'], 'known': out['known']}))
        return ops

    def compare(self, case, out, results):
        if isinstance(out, ImplError):
            return 'implementation raised %s' % out['error']
        if not results:
            return None if 'error' in out else 'skip:foreign text accepted by the implementation (e.g. read document by document) that a single yaml.load rejects'
        r = results[0]
        if 'error' in out:
            # hand-written / malformed YAML is outside the quantifier: "both refuse" is agreement, whatever the classes
            return None if r.status == 'err' else 'skip:foreign document refused by the implementation, accepted by the model'
        if r.status == 'err':
            # hand-written documents in a layout the library itself never writes for that route are outside the quantifier:
            # a loader that accepts more layouts than the modelled one is not a disagreement about the property
            return 'skip:foreign document accepted by the implementation, refused by the model'
        if not r.ok or r.args.get('stype') != out['stype'] or not same_wire(r.args.get('store'), out['store'], forget=True):
            if not (isinstance(case.get('text'), str) and _library_layout(case['text'])):
                return 'skip:hand-written document in a layout the library never writes: read differently by model and implementation'
            return 'impl (%s, %s) model %s' % (out['stype'], out['store'], r.raw)
        if len(results) > 1 and out['store'].startswith('D'):
            # (a document that is no mapping - '[]', a scalar - is no configuration: what get_func makes of it is not compared)
            g, f = results[1], out['func']
            if 'error' in f:
                # a non-callable attribute (e.g. a module) is outside the model: only require that the model did not claim more
                pass        # get_func refuses: nothing the model could claim more precisely (error classes are not compared)
            elif f.get('fn') == '?':
                pass        # a callable that is no functools.partial: not inspected
            elif not g.ok or g.args.get('fn') != _cfg.wire(f['fn']) or not same_wire(g.args.get('kw'), f['kw']):
                return 'get_func: impl %s model %s' % (f, g.raw)
        return None

    def tags(self, case, out):
        if isinstance(out, ImplError):
            return ['impl-error']
        return ['route=' + case['route'], 'error=' + out['error'] if 'error' in out else 'loaded']


# ------------------------------------------------------------------------------------------------
# default configurations

EMPTY = '<empty>'


def sig_table(func):
    d = {}
    for p, par in inspect.signature(func).parameters.items():
        dv = par.default
        if dv is inspect.Parameter.empty:
            dv = EMPTY
        elif callable(dv):
            dv = '<function %s>' % getattr(dv, '__name__', '?')
        d[p] = dv
    return d


class Defaults(Stream):
    name = 'default_config'
    exhaustive = True

    NAMES = ['sift', 'ensemble_sift', 'complete_ensemble_sift', 'mask_sift', 'mask_sift_adaptive', 'mask_sift_specified',
             'get_next_imf', 'sift_second_layer', 'nope', '', 'Sift']

    def generate(self, rng, tier):
        return [{'name': n} for n in self.NAMES]

    def impl(self, case):
        cfg = sift_mod().get_config(case['name'])
        return {'stype': _cfg.wire(cfg.sift_type), 'store': _cfg.wire(cfg.store)}

    def ops(self, case, out):
        S = sift_mod()
        f = getattr(S, case['name'], None) if case['name'] else None
        return [proto.op('CFGDEFAULT', {
            'name': _cfg.wire_key(case['name']),
            'gpe': _cfg.wire(sig_table(S.get_padded_extrema)), 'ie': _cfg.wire(sig_table(S.interp_envelope)),
            'gni': _cfg.wire(sig_table(S.get_next_imf)),
            'var': _cfg.wire(sig_table(f)) if callable(f) else 'N'})]

    def compare(self, case, out, results):
        r = results[0]
        if isinstance(out, ImplError):
            return None if r.status == 'err' else 'skip:foreign document refused by the implementation, accepted by the model'      # both refuse
        if not r.ok or r.args.get('stype') != out['stype'] or not same_wire(r.args.get('store'), out['store']):
            return 'impl %s model %s' % (out, r.raw)
        return None

    def holds(self, case, out):
        S = sift_mod()
        name = case['name']
        if not callable(getattr(S, name, None) if name else None) or name not in VARIANTS:
            return []      # the property speaks about "each sift variant": no claim for other names (accepted or refused)
        if isinstance(out, ImplError):
            return [Failure('get_config-raises:' + out['error'], out['msg'])]
        # What follows compares get_config with the live signatures key for key (typed, top level in signature order):
        # the anchored MECHANISM ("defaults harvested from live function signatures"). The property's statement is
        # behavioural - the unpacked default reproduces the no-option call - and is judged by stream behaviour
        # (`no_options`). All four kinds are literal=False.
        fs = self._mechanism(case, out)
        for f in fs:
            f.literal = False
        return fs

    def _mechanism(self, case, out):
        S = sift_mod()
        name = case['name']
        store = _cfg.unwire(out['store'])
        fs = []
        nested = {'imf_opts': (S.get_next_imf, ['X', 'envelope_opts', 'extrema_opts']),
                  'envelope_opts': (S.interp_envelope, ['X', 'extrema_opts', 'mode', 'ret_extrema']),
                  'extrema_opts': (S.get_padded_extrema, ['X', 'mode'])}
        top = sig_table(getattr(S, name))
        for p, dv in top.items():
            if p == 'X' or p in nested:
                continue
            if p not in store or not _cfg.typed_equal(store[p], dv):
                fs.append(Failure('default-config-differs-from-signature:top', '%s.%s: %r vs %r' % (name, p, store.get(p), dv)))
        if [k for k in store if k not in nested] != [p for p in top if p != 'X' and p not in nested]:
            fs.append(Failure('default-config-has-extra-or-missing-keys:top', str(list(store))))
        for key, (f, ign) in nested.items():
            tab = {p: dv for p, dv in sig_table(f).items() if p not in ign}
            got = store.get(key)
            if not isinstance(got, dict) or sorted(got) != sorted(tab):
                fs.append(Failure('default-config-has-extra-or-missing-keys:' + key, '%r vs %s' % (got, sorted(tab))))
                continue
            for p, dv in tab.items():
                if dv is None and p in ('loc_pad_opts', 'mag_pad_opts'):
                    continue       # spelled out in the config; equality with the in-function literal is behavioural (stream behaviour)
                if not _cfg.typed_equal(got[p], dv):
                    fs.append(Failure('default-config-differs-from-signature:' + key, '%s: %r vs %r' % (p, got[p], dv)))
        return fs

    def tags(self, case, out):
        return ['error=' + out['error'] if isinstance(out, ImplError) else 'config']

    def nontrivial(self, case, out):
        return not isinstance(out, ImplError)


# ------------------------------------------------------------------------------------------------
# behaviour: config-driven calls equal plain calls; round-tripped configs behave identically

def make_signal(spec):
    rs = np.random.RandomState(spec['seed'])
    n = spec['n']
    t = np.linspace(0, 1, n)
    fam = spec['family']
    if fam == 'tones':
        x = np.sin(2 * np.pi * 5 * t) + 0.6 * np.sin(2 * np.pi * 17 * t + 1) + 0.3 * np.cos(2 * np.pi * 41 * t)
    elif fam == 'chirp':
        x = np.sin(2 * np.pi * (3 + 20 * t) * t) * (1 + 0.5 * t)
    elif fam == 'walk':
        x = np.cumsum(rs.randn(n)) * 0.2
    else:
        x = rs.randn(n)
    return x + 0.05 * rs.randn(n)


def digest(o):
    if isinstance(o, tuple):
        return [digest(x) for x in o]
    a = np.ascontiguousarray(np.asarray(o, dtype=float))
    return '%s:%s' % ('x'.join(map(str, a.shape)), hashlib.sha1(a.tobytes()).hexdigest()[:16])


def outcome(f, seed):
    np.random.seed(seed)
    try:
        return digest(f())
    except Exception as e:  # noqa
        return 'e:' + kind_of(e)


BEHAVIOUR_EDITS = {
    'any': [
        [], [{'k': 'imf_opts/sd_thresh', 'v': 0.05}], [{'k': 'imf_opts/stop_method', 'v': 'rilling'}],
        [{'k': 'imf_opts/stop_method', 'v': 'rilling'}, {'k': 'imf_opts/rilling_thresh', 'v': {'$': 'tuple', 'v': [0.1, 0.6, 0.1]}}],
        [{'k': 'imf_opts/stop_method', 'v': 'fixed'}, {'k': 'imf_opts/max_iters', 'v': 3}],
        [{'k': 'imf_opts/env_step_size', 'v': 0.5}], [{'k': 'envelope_opts/interp_method', 'v': 'pchip'}],
        [{'k': 'envelope_opts/interp_method', 'v': 'mono_pchip'}, {'k': 'extrema_opts/pad_width', 'v': 4}],
        [{'k': 'extrema_opts/parabolic_extrema', 'v': True}], [{'k': 'max_imfs', 'v': 2}],
        [{'k': 'extrema_opts/mag_pad_opts', 'v': {'$': 'dict', 'v': [['mode', 'mean'], ['stat_length', {'$': 'tuple', 'v': [2, 2]}]]}}],
        [{'k': 'extrema_opts/loc_pad_opts/reflect_type', 'v': 'odd'}, {'k': 'sift_thresh', 'v': 1e-6}],
        # values computed with numpy (D38): the loaded configuration must still behave like the edited one
        [{'k': 'imf_opts/sd_thresh', 'v': NP('float64', 0.05)}, {'k': 'max_imfs', 'v': NP('int64', 3)}],
        [{'k': 'imf_opts/stop_method', 'v': 'rilling'},
         {'k': 'imf_opts/rilling_thresh', 'v': {'$': 'tuple', 'v': [NP('float64', 0.1), 0.6, NP('float32', 0.125)]}}],
        [{'k': 'extrema_opts/parabolic_extrema', 'v': NP('bool', True)}, {'k': 'extrema_opts/pad_width', 'v': NP('int32', 3)}],
    ],
    'mask_sift': [
        [{'k': 'mask_freqs', 'v': {'$': 'array', 'v': [0.25, 0.12, 0.05, 0.02]}}, {'k': 'mask_amp_mode', 'v': 'ratio_sig'}],
        [{'k': 'mask_freqs', 'v': 0.3}, {'k': 'mask_amp', 'v': {'$': 'tuple', 'v': [1, 0.8, 0.6, 0.5, 0.5, 0.5, 0.5, 0.5, 0.5]}}],
        [{'k': 'mask_freqs', 'v': 'if'}, {'k': 'max_imfs', 'v': 3}, {'k': 'nphases', 'v': 2}],
    ],
    'ensemble_sift': [[{'k': 'nensembles', 'v': 2}, {'k': 'max_imfs', 'v': 2}, {'k': 'noise_mode', 'v': 'flip'}],
                      [{'k': 'ensemble_noise', 'v': 0.1}, {'k': 'max_imfs', 'v': 3}]],
    'complete_ensemble_sift': [[{'k': 'nensembles', 'v': 2}, {'k': 'max_imfs', 'v': 2}], [{'k': 'ensemble_noise', 'v': 0.1}]],
}


class Behaviour(Stream):
    name = 'behaviour'
    parallel = False        # the ensemble variants create their own worker pools
    timeout_s = 300

    def corpus(self):
        out = []
        for v in VARIANTS:
            out.append({'variant': v, 'signal': {'family': 'tones', 'n': 128, 'seed': 3}, 'edits': [], 'seed': 11})
        out.append({'variant': 'sift', 'signal': {'family': 'chirp', 'n': 96, 'seed': 4}, 'seed': 5,
                    'edits': [{'k': 'imf_opts/stop_method', 'v': 'rilling'}]})
        out.append({'variant': 'sift', 'signal': {'family': 'tones', 'n': 128, 'seed': 3}, 'seed': 11,
                    'edits': [{'k': 'imf_opts/sd_thresh', 'v': NP('float64', 0.05)}, {'k': 'max_imfs', 'v': NP('int64', 3)}]})
        return out

    def generate(self, rng, tier):
        n_cases = 120 if tier == 'thorough' else 14
        for i in range(n_cases):
            v = VARIANTS[i % 4] if rng.random() < 0.8 else rng.choice(VARIANTS)
            pool = BEHAVIOUR_EDITS['any'] + BEHAVIOUR_EDITS.get(v, [])
            edits = list(rng.choice(pool))
            if rng.random() < 0.4:
                edits = edits + [e for e in rng.choice(pool) if e['k'] not in [x['k'] for x in edits]]
            yield {'variant': v, 'signal': {'family': rng.choice(['tones', 'chirp', 'walk', 'noise']),
                                            'n': rng.choice([64, 96, 128, 200]), 'seed': rng.randint(0, 10 ** 6)},
                   'edits': edits, 'seed': rng.randint(0, 10 ** 6)}

    def impl(self, case):
        S = sift_mod()
        v = case['variant']
        func = getattr(S, v)
        x = make_signal(case['signal'])
        seed = case['seed']
        cfg = S.get_config(v)
        kw = _cfg.deep(cfg.store)            # the same options as a plain nested dict, edited by plain indexing
        for e in case['edits']:
            cfg[e['k']] = _cfg.build(e['v'])
            apply_nested(kw, {'o': 'set', 'k': e['k'], 'v': e['v']})
        before = _cfg.wire(cfg.store)
        out = {}
        if not case['edits']:
            out['no_options'] = outcome(lambda: func(x), seed)
        out['plain_kwargs'] = outcome(lambda: func(x, **kw), seed)
        reproducible = True
        if v in ('ensemble_sift', 'complete_ensemble_sift'):
            # two stochastic calls are comparable only if seeding the legacy global generator makes a call repeatable;
            # a library drawing its noise elsewhere (np.random.default_rng()) satisfies C18 and is not comparable bit for bit
            reproducible = outcome(lambda: func(x, **kw), seed) == out['plain_kwargs']
        out['unpack'] = outcome(lambda: func(x, **cfg), seed)
        out['get_func'] = outcome(lambda: cfg.get_func()(x), seed)
        for route in ('file', 'text'):
            try:
                _, back = roundtrip(cfg, route)
                out[route] = outcome(lambda: back.get_func()(x), seed)
            except Exception as e:  # noqa
                out[route] = 'e:route:' + kind_of(e)
        fsum = func_summary(cfg)
        return {'outcomes': out, 'fn': fsum.get('fn', '?'), 'kw': fsum.get('kw', '?'), 'reproducible': reproducible,
                'store': before, 'store_after': _cfg.safe_wire(cfg.store), 'x_digest': digest(x)}

    def ops(self, case, out):
        if isinstance(out, ImplError):
            return []
        return [proto.op('CFGFUNC', {'store': out['store'], 'stype': _cfg.wire(case['variant']), 'known': 1})]

    def compare(self, case, out, results):
        if isinstance(out, ImplError):
            return 'implementation raised %s: %s' % (out['error'], out['msg'])
        g = results[0]
        if out['fn'] == '?':
            return 'skip:get_func-returns-a-callable-that-is-no-functools.partial'
        if not g.ok or g.args.get('fn') != _cfg.wire(out['fn']) or not same_wire(g.args.get('kw'), out['kw']):
            return 'get_func: impl (%s, %s) model %s' % (out['fn'], out['kw'], g.raw)
        return None

    def holds(self, case, out):
        if isinstance(out, ImplError):
            return [Failure('behaviour:raises:' + out['error'], out['msg'], literal=out['error'] != 'Timeout')]
        o = out['outcomes']
        ref_name = 'no_options' if 'no_options' in o else 'plain_kwargs'
        ref = o[ref_name]
        fs = []
        for k2, v2 in o.items():
            if v2 != ref:
                if not out.get('reproducible', True) and not str(v2).startswith('e:') and not str(ref).startswith('e:'):
                    continue      # stochastic variant, not repeatable under np.random.seed: not comparable (tagged)
                fs.append(Failure('behaviour:%s-differs-from-%s:%s' % (k2, ref_name, case['variant']),
                                  '%s=%s %s=%s' % (ref_name, ref, k2, v2)))
        if out['store_after'] != out['store']:
            # calls leaving the configuration untouched: C19's statement, not C18's (mechanism-level here)
            fs.append(Failure('behaviour:calls-changed-the-config', '', literal=False))
        return fs

    def tags(self, case, out):
        t = ['variant=' + case['variant'], 'family=' + case['signal']['family'], 'edited' if case['edits'] else 'default']
        if not isinstance(out, ImplError):
            t.append('outcome=' + ('error:' + out['outcomes']['plain_kwargs'][2:] if str(out['outcomes']['plain_kwargs']).startswith('e:')
                                   else 'array'))
            if case['variant'] in ('ensemble_sift', 'complete_ensemble_sift'):
                t.append('stochastic-variant:' + ('repeatable-under-np.random.seed' if out.get('reproducible', True)
                                                  else 'NOT-repeatable-under-np.random.seed(outcomes-not-compared)'))
        for e in case['edits']:
            t.append('edit:' + e['k'])
        return t

    def nontrivial(self, case, out):
        return not isinstance(out, ImplError) and not str(out['outcomes']['plain_kwargs']).startswith('e:')

    def shrink(self, case):
        for i in range(len(case['edits'])):
            yield dict(case, edits=case['edits'][:i] + case['edits'][i + 1:])


# ------------------------------------------------------------------------------------------------
# object sharing between a configuration and what was taken from it (observed, not claimed)

class Aliasing(Stream):
    """`f = cfg.get_func()` (or a `SiftConfig(name, **cfg)` / `dict(cfg)` copy), THEN an edit of `cfg`.

    The property does not say whether the partial follows later edits; the Tree model represents it by the value of the
    store when it was taken.  What is checked (instance): at the moment it is taken the partial binds exactly the
    configuration's options, an edit never touches an independently created configuration, and the edited configuration
    reads the new value.  What is only OBSERVED (tags `seen-by-*` in the evidence; Lean: C18.alias_nested_edit_is_seen,
    C18.alias_top_level_edit_not_seen): one-level edits are not seen by the partial / copy, nested edits are.
    """
    name = 'aliasing'
    exhaustive = True

    def generate(self, rng, tier):
        out = []
        for v in VARIANTS:
            for taker in ('get_func', 'kwargs_copy', 'dict_copy', 'store_copy'):
                for key, val in (('max_imfs', 1), ('imf_opts/sd_thresh', 5.0), ('extrema_opts/loc_pad_opts/mode', 'edge'),
                                 ('imf_opts', {'$': 'dict', 'v': [['sd_thresh', 5.0]]})):
                    out.append({'variant': v, 'taker': taker, 'k': key, 'v': val})
        return out

    def impl(self, case):
        S = sift_mod()
        cfg = S.get_config(case['variant'])
        bystander = S.get_config(case['variant'])
        pristine = _cfg.wire(bystander.store)
        if case['taker'] == 'get_func':
            taken = getattr(cfg.get_func(), 'keywords', None)
            if taken is None:
                return {'not_a_partial': True}       # "a callable": nothing to look into
        elif case['taker'] == 'kwargs_copy':
            taken = S.SiftConfig(case['variant'], **cfg).store
        elif case['taker'] == 'dict_copy':
            taken = dict(cfg)
        else:
            taken = S.SiftConfig(case['variant'], cfg.store).store
        at_creation = _cfg.wire(dict(taken)) == _cfg.wire(cfg.store)
        before = _cfg.wire(dict(taken))
        cfg[case['k']] = _cfg.build(case['v'])
        return {'at_creation_equal': at_creation, 'seen': _cfg.wire(dict(taken)) != before,
                'taken_equals_config_after': _cfg.wire(dict(taken)) == _cfg.wire(cfg.store),
                'readback': _cfg.safe_wire(cfg[case['k']]) == _cfg.wire(_cfg.build(case['v'])),
                'bystander_unchanged': _cfg.wire(bystander.store) == pristine}

    def holds(self, case, out):
        if isinstance(out, ImplError):
            return [Failure('aliasing:raises:' + out['error'], out['msg'], literal=out['error'] != 'Timeout')]
        fs = []
        if out.get('not_a_partial'):
            return fs
        if not out['at_creation_equal']:
            # looking into functools.partial.keywords / constructing from the `.store` attribute is mechanism-level;
            # `SiftConfig(name, **cfg)` and `dict(cfg)` use the documented mapping interface only
            fs.append(Failure('partial-or-copy-differs-from-config-when-taken:' + case['taker'],
                              literal=case['taker'] in ('kwargs_copy', 'dict_copy')))
        if not out['readback']:
            fs.append(Failure('edit-not-read-back'))
        if not out['bystander_unchanged']:
            fs.append(Failure('edit-leaks-into-another-config', 'an independently created configuration changed'))
        return fs

    def tags(self, case, out):
        if isinstance(out, ImplError):
            return ['impl-error']
        if out.get('not_a_partial'):
            return ['taker=get_func', 'get_func-is-not-a-functools.partial(not-inspected)']
        depth = len(case['k'].split('/'))
        return ['taker=' + case['taker'],
                'edit-depth%d:%s-by-%s' % (depth, 'seen' if out['seen'] else 'not-seen', case['taker']),
                'model-predicts:' + ('seen' if depth >= 2 else 'not-seen'),
                'as-modelled' if out['seen'] == (depth >= 2) else 'NOT-as-modelled(no sharing)']

    def nontrivial(self, case, out):
        return not isinstance(out, ImplError) and not out.get('not_a_partial') and len(case['k'].split('/')) >= 2


STREAMS = [Edits(), KeyTransform(), YamlRoutes(), YamlCodec(), YamlForeign(), Defaults(), Behaviour(), Aliasing()]


def _guard(fn):
    """An exception inside an instance check is a harness fault (an oracle tripping over an unexpected but legal
    output container), not the property's words failing: reported as mechanism-level, never as a violation."""
    def holds(self, case, out):
        try:
            return fn(self, case, out)
        except Exception as e:  # noqa
            return [Failure('instance-check-crashed', repr(e), literal=False)]
    return holds


for _cls in {_b for _s in STREAMS for _b in type(_s).__mro__ if _b.__module__ == __name__ and 'holds' in _b.__dict__}:
    _cls.holds = _guard(_cls.holds)
