"""Entry-point table and guarded runner for the C19 instance checks.

Every public numeric entry point is described by an `EP`: how to build its inputs from a seed,
how to call it, which argument layouts its documented contract accepts (must give identical
values) or rejects (must raise), which arguments must agree in length, and which inputs are
option dictionaries.  `run_case` executes one entry point on one seed inside a forked child
with an address-space limit and a per-call alarm: before the D15 repair a rejected layout such
as (n,2,3) sent `interp_envelope` into an endless padding loop that allocated tens of GB.
"""
import copy
import hashlib
import inspect
import resource
import signal

import numpy as np

from props._log import _in_child

CALL_BUDGET_S = 25
MEM_LIMIT = 6 << 30

LAYOUT_SHAPES = {'v': '(n,)', 'c': '(n,1)', 'c11': '(n,1,1)', 'n2': '(n,2)', '1n': '(1,n)', 'n23': '(n,2,3)'}


def relayout(a, L):
    a = np.asarray(a)
    if a.ndim == 2 and a.shape[1] == 1:      # a base given as a single column: re-lay its signal
        a = a[:, 0]
    if L == 'v':
        return a.copy()
    if L == 'c':
        return a[:, None].copy()
    if L == 'c11':
        return a[:, None, None].copy()
    if L == 'n2':
        return np.stack([a, a[::-1]], axis=1).copy()
    if L == '1n':
        return a[None, :].copy()
    if L == 'n23':
        return np.tile(a[:, None, None], (1, 2, 3)).copy()
    if L == 'short':
        return a[:-3].copy()
    raise ValueError(L)


class _Timeout(Exception):
    pass


def _on_alarm(*a):
    raise _Timeout()


def err_kind(e):
    if isinstance(e, _Timeout):
        return 'Timeout'
    return type(e).__name__


def digest_array(a):
    a = np.asarray(a)
    if a.dtype == object:            # e.g. control points: numbers and None mixed; compare values, not pointers
        try:
            a = a.astype(float)
        except (TypeError, ValueError):
            return hashlib.sha1(repr(a.tolist()).encode()).hexdigest()[:16]
    a = np.ascontiguousarray(np.squeeze(a))
    return hashlib.sha1(repr((a.shape, str(a.dtype))).encode() + a.tobytes()).hexdigest()[:16]


def canon(out):
    """Canonical, layout-free form of a result: arrays are squeezed and digested."""
    if out is None:
        return None
    if isinstance(out, np.ndarray):
        if out.size == 1 and out.dtype != object:
            return canon(out.reshape(-1)[0])          # a 1-element array and a scalar are the same value
        return ['a', [int(d) for d in np.squeeze(out).shape], digest_array(out)]
    if isinstance(out, (tuple, list)):
        return [canon(o) for o in out]
    if isinstance(out, dict):
        return {str(k): canon(v) for k, v in sorted(out.items(), key=lambda kv: str(kv[0]))}
    if isinstance(out, (bool, np.bool_)):
        return bool(out)
    if isinstance(out, str):
        return out
    if isinstance(out, (int, np.integer)):
        return int(out)
    if isinstance(out, (complex, np.complexfloating)):
        return [canon(float(out.real)), canon(float(out.imag))]
    if isinstance(out, (float, np.floating)):
        return float(out).hex() if np.isfinite(out) else repr(float(out))
    if hasattr(out, 'toarray'):      # sparse
        return canon(np.asarray(out.toarray()))
    return 'obj:' + type(out).__name__


def snapshot(v):
    """Byte-level snapshot of arrays, structural snapshot of option containers."""
    if isinstance(v, np.ndarray):
        return ('nd', v.shape, str(v.dtype), v.tobytes())
    if isinstance(v, dict):
        return ('dict', tuple((repr(k), snapshot(x)) for k, x in v.items()))
    if isinstance(v, (list, tuple)):
        return (type(v).__name__, tuple(snapshot(x) for x in v))
    if callable(v):
        return ('callable', getattr(v, '__name__', repr(type(v))))
    return ('val', type(v).__name__, repr(v))


class EP:
    def __init__(self, name, make, call, args=None, opts=(), group='', seeded=False, min_n=64):
        self.name = name
        self.make = make            # (seed, n) -> dict of inputs
        self.call = call            # (**inputs) -> output
        self.args = args or {}      # arg -> dict(accept=[layouts], reject=[layouts], short=bool)
        self.opts = tuple(opts)     # names of option-dict inputs
        self.group = group
        self.seeded = seeded


def _guarded(ep, inputs, seed):
    """One call under the alarm; returns (record, exception-free flag)."""
    signal.alarm(CALL_BUDGET_S)
    try:
        if ep.seeded:
            np.random.seed(1234 + seed)
        out = ep.call(**inputs)
        rec = {'out': canon(out)}
    except MemoryError:
        rec = {'error': 'MemoryError'}
    except Exception as e:  # noqa
        rec = {'error': err_kind(e), 'msg': str(e)[:160]}
    finally:
        signal.alarm(0)
    return rec


def _fresh(base):
    return copy.deepcopy(base)


def _changed(before, inputs):
    return sorted(k for k in inputs if snapshot(inputs[k]) != before[k])


def _run_case_body(ep, seed, n):
    resource.setrlimit(resource.RLIMIT_AS, (MEM_LIMIT, MEM_LIMIT))
    signal.signal(signal.SIGALRM, _on_alarm)
    import logging
    logging.disable(logging.CRITICAL)          # keep the ensure_* warnings off the console
    try:
        base = ep.make(seed, n)
    except Exception as e:  # noqa - building the inputs uses the library itself (sift, transforms): nothing about layouts / side
        return {'not_constructible': err_kind(e), 'msg': str(e)[:160]}     # effects was evaluated - skipped and tagged
    res = {'mutated': {}, 'layouts': {}, 'rejects': {}, 'short': {}}

    def one(tag, inputs, readonly=False):
        if readonly:
            for v in inputs.values():
                if isinstance(v, np.ndarray):
                    v.setflags(write=False)
        before = {k: snapshot(v) for k, v in inputs.items()}
        rec = _guarded(ep, inputs, seed)
        ch = _changed(before, inputs)
        if ch:
            res['mutated'][tag] = ch
        return rec

    res['base'] = one('base', _fresh(base))
    res['repeat'] = one('repeat', _fresh(base))
    res['readonly'] = one('readonly', _fresh(base), readonly=True)
    # option dictionaries reused across calls: the same dict objects passed twice
    if ep.opts:
        reused = _fresh(base)
        r1 = one('reuse-1', reused)
        r2 = one('reuse-2', reused)
        res['reuse'] = [r1, r2]
    for arg, spec in ep.args.items():
        for L in spec.get('accept', []):
            inp = _fresh(base)
            inp[arg] = relayout(base[arg], L)
            res['layouts'].setdefault(arg, {})[L] = one('%s=%s' % (arg, L), inp, readonly=True)
        for L in spec.get('reject', []):
            inp = _fresh(base)
            inp[arg] = relayout(base[arg], L)
            res['rejects'].setdefault(arg, {})[L] = one('%s=%s' % (arg, L), inp)
        if spec.get('short'):
            inp = _fresh(base)
            inp[arg] = relayout(base[arg], 'short') if np.asarray(base[arg]).ndim == 1 else np.asarray(base[arg])[:-3].copy()
            res['short'][arg] = one('%s=short' % arg, inp)
    return res


def run_case(ep, seed, n):
    out = _in_child(lambda: _run_case_body(ep, seed, n), budget=CALL_BUDGET_S * 40)
    if not isinstance(out, dict) or '__child_error__' in out:
        raise RuntimeError('entry-point child failed: %r' % (out,))
    return out


# ---------------------------------------------------------------------------------------------
# inputs
# ---------------------------------------------------------------------------------------------

def sig(seed, n):
    r = np.random.RandomState(seed)
    t = np.linspace(0, 1, n)
    return (np.sin(2 * np.pi * r.uniform(4, 9) * t + r.uniform(0, 6))
            + r.uniform(.3, .8) * np.sin(2 * np.pi * r.uniform(15, 30) * t + r.uniform(0, 6))
            + r.uniform(-1, 1) * t + 0.02 * r.randn(n))


_cache = {}


def derived(seed, n):
    """IMFs, phase / frequency / amplitude and a cycle vector from the implementation itself."""
    key = (seed, n)
    if key not in _cache:
        import emd
        x = sig(seed, n)
        imf = emd.sift.sift(x, max_imfs=3)
        IP, IF, IA = emd.spectra.frequency_transform(imf, float(n), 'hilbert')
        cv = np.asarray(emd.cycles.get_cycle_vector(IP[:, 0].copy(), return_good=False))
        cv = cv[:, 0] if cv.ndim == 2 else cv
        _cache[key] = dict(x=x, imf=imf, ip=IP[:, 0].copy(), if_=IF[:, 0].copy(), ia=IA[:, 0].copy(),
                           IP=IP, IF=IF, IA=IA, cv=cv.copy())
    return {k: v.copy() for k, v in _cache[key].items()}


def sift_opts():
    return dict(imf_opts={'env_step_size': 1, 'sd_thresh': 0.1, 'max_iters': 500},
                envelope_opts={'interp_method': 'splrep'},
                extrema_opts={'pad_width': 2, 'parabolic_extrema': False,
                              'loc_pad_opts': {'mode': 'reflect', 'reflect_type': 'odd'},
                              'mag_pad_opts': {'mode': 'median', 'stat_length': 1}})


IMF_VALUES = {'env_step_size': 1, 'max_iters': 500, 'energy_thresh': 50, 'stop_method': 'sd', 'sd_thresh': 0.1,
              'rilling_thresh': (0.05, 0.5, 0.05)}


def every_key(func, values, skip=()):
    """A keyword dictionary in which EVERY optional parameter of `func` is present (read off the live signature, so a
    parameter added later is included with its default); `values` gives the non-default values used here."""
    d = {}
    for p in list(inspect.signature(func).parameters.values())[1:]:
        if p.name in skip or p.default is inspect.Parameter.empty or p.kind in (p.VAR_POSITIONAL, p.VAR_KEYWORD):
            continue
        d[p.name] = copy.deepcopy(values.get(p.name, p.default))
    return d


def full_stage_opts():
    """The three option dictionaries with every optional key of their stage present (nested pad dictionaries included)."""
    S = _E().sift
    ext = every_key(S.get_padded_extrema, dict(sift_opts()['extrema_opts'], pad_width=3), skip=('mode',))
    return dict(imf_opts=every_key(S.get_next_imf, IMF_VALUES, skip=('envelope_opts', 'extrema_opts')),
                envelope_opts=every_key(S.interp_envelope, {'interp_method': 'pchip'}, skip=('mode', 'extrema_opts', 'ret_extrema')),
                extrema_opts=ext)


def full_sift_args(func, **values):
    """Every optional keyword of a sift variant, the three stage dictionaries complete as well (for sift_args=...)."""
    return every_key(func, dict(full_stage_opts(), **values))


def _mk_sift_full(seed, n):
    return dict(X=sig(seed, n), **full_stage_opts())


def cast(make, **how):
    """The inputs of `make` with some arrays converted: 'f4' float32, 'i8' integers (values scaled by 50 and rounded)."""
    def mk(seed, n):
        d = make(seed, n)
        for k, dt in how.items():
            a = np.asarray(d[k])
            d[k] = np.round(a * 50).astype(np.int64) if dt == 'i8' else a.astype(dt)
        return d
    return mk


def unwrapped(seed, n):
    """An UNWRAPPED instantaneous phase (values far above 2 pi): get_cycle_vector documents that it wraps such input."""
    return np.unwrap(derived(seed, n)['ip'])


def clean_unwrapped(seed, n):
    r = np.random.RandomState(seed + 17)
    return 2 * np.pi * r.randint(4, 9) * np.arange(n) / n + 2 * np.pi * r.uniform(0.2, 0.8)


SIFT_X = dict(accept=['c', 'c11'], reject=['n2', '1n', 'n23'])
ENV_X = dict(accept=['c'], reject=['n2', '1n', 'n23'])
VEC = dict(accept=['c'], reject=['n2'], short=True)
VEC_OR_COL = dict(accept=['c'], short=True)
OPTS3 = ('imf_opts', 'envelope_opts', 'extrema_opts')


def _E():
    import emd
    return emd


def _mk_sift(seed, n):
    return dict(X=sig(seed, n), **sift_opts())


def dominant(seed, n):
    """One oscillation carrying nearly all of the energy plus a very weak slow component: the first IMF passes the
    energy-ratio test of get_next_imf(energy_thresh=...), so the continue flag comes back False"""
    r = np.random.RandomState(seed)
    t = np.linspace(0, 1, n)
    return np.sin(2 * np.pi * r.uniform(9, 14) * t + r.uniform(0, 6)) + 1e-3 * np.sin(2 * np.pi * 1.5 * t)


def _mk_mask_arrays(seed, n):
    return dict(X=sig(seed, n), mask_freqs=np.array([0.2, 0.1, 0.05]), mask_amp=np.array([1.0, 0.8, 0.6]), **sift_opts())


def _edges(d):
    # some samples fall below the first / above the last edge: the out-of-range path is exercised too
    lo, hi = np.nanpercentile(d['IF'], [8, 92])
    return np.linspace(float(lo), float(hi) + 1.0, 13)


def _mk_hht(seed, n):
    d = derived(seed, n)
    return dict(infr=d['if_'], inam=d['ia'], freq_edges=_edges(d))


def _mk_hht2(seed, n):
    d = derived(seed, n)
    return dict(infr=d['IF'], inam=d['IA'], freq_edges=_edges(d))


def _mk_holo(seed, n):
    d = derived(seed, n)
    e = _edges(d)
    infr2 = np.stack([d['if_'] / 4, d['if_'] / 8], axis=1)[:, None, :]
    inam2 = np.stack([d['ia'], d['ia'] * .5], axis=1)[:, None, :]
    return dict(infr=d['if_'], infr2=infr2, inam2=inam2, freq_edges=e, freq_edges2=e / 4)


def _cycles_add_metric(IP, cycle_vals, dtype):
    C = _E().cycles.Cycles(IP)
    vals = cycle_vals[:C.ncycles] if len(cycle_vals) >= C.ncycles else np.resize(cycle_vals, C.ncycles)
    keep = vals.copy()
    C.add_cycle_metric('m', vals, dtype=dtype)
    # the caller's array is `vals` (a view of cycle_vals when long enough): report it explicitly
    return [C.metrics['m'], ['caller-array-unchanged', bool(np.array_equal(keep, vals, equal_nan=True))]]


def clean_phase(seed, n):
    """A phase ramp with several complete, well-formed cycles (so that the container has good cycles)."""
    r = np.random.RandomState(seed + 17)
    f = r.randint(4, 9)
    return (2 * np.pi * f * np.arange(n) / n + 2 * np.pi * r.uniform(0.2, 0.8)) % (2 * np.pi)


def _mk_add_metric(seed, n):
    r = np.random.RandomState(seed + 5)
    vals = r.randn(400)
    vals[r.rand(400) < 0.3] = np.nan
    vals[0] = np.nan
    return dict(IP=clean_phase(seed, n), cycle_vals=vals)


def _mk_container(seed, n):
    r = np.random.RandomState(seed + 6)
    return dict(IP=clean_phase(seed, n), vals=1.0 + r.rand(n))


def _cycles_compute(IP, vals):
    C = _E().cycles.Cycles(IP)
    C.compute_cycle_metric('mx', vals, np.max)
    C.compute_cycle_metric('mean_aug', vals, np.mean, mode='augmented')
    return [C.metrics['mx'], C.metrics['mean_aug']]


def _cycles_subset(IP, vals, conditions):
    C = _E().cycles.Cycles(IP)
    C.compute_cycle_metric('mx', vals, np.max)
    C.pick_cycle_subset(conditions)
    return [C.subset_vect, C.chain_vect, C.metrics['chain_ind']]


def entry_points():
    E = _E()
    S, SP, CY, UT = E.sift, E.spectra, E.cycles, E.utils
    eps = [
        # ---- single-signal sift routines ---------------------------------------------------------
        EP('sift', _mk_sift, lambda X, **o: S.sift(X, max_imfs=3, **o), {'X': SIFT_X}, OPTS3, 'sift'),
        EP('ensemble_sift', _mk_sift,
           lambda X, **o: S.ensemble_sift(X, nensembles=2, max_imfs=2, nprocesses=1, **o), {'X': SIFT_X}, OPTS3, 'sift', seeded=True),
        EP('complete_ensemble_sift', _mk_sift,
           lambda X, **o: S.complete_ensemble_sift(X, nensembles=2, max_imfs=2, nprocesses=1, **o), {'X': SIFT_X}, OPTS3, 'sift', seeded=True),
        EP('mask_sift', _mk_sift, lambda X, **o: S.mask_sift(X, max_imfs=3, nprocesses=1, **o), {'X': SIFT_X}, OPTS3, 'sift'),
        EP('get_next_imf', lambda s, n: dict(X=sig(s, n), envelope_opts=sift_opts()['envelope_opts'], extrema_opts=sift_opts()['extrema_opts']),
           lambda X, **o: S.get_next_imf(X, energy_thresh=50, **o), {'X': SIFT_X}, ('envelope_opts', 'extrema_opts'), 'sift'),
        EP('get_next_imf_mask', _mk_sift, lambda X, **o: S.get_next_imf_mask(X, 0.1, 1.0, nprocesses=1, **o), {'X': SIFT_X}, OPTS3, 'sift'),
        EP('get_mask_freqs', lambda s, n: dict(X=sig(s, n), imf_opts=sift_opts()['imf_opts']),
           lambda X, imf_opts: S.get_mask_freqs(X, 'zc', imf_opts=imf_opts), {'X': SIFT_X}, ('imf_opts',), 'sift'),
        # ---- envelope / extrema ------------------------------------------------------------------
        EP('interp_envelope:upper', lambda s, n: dict(X=sig(s, n), extrema_opts=sift_opts()['extrema_opts']),
           lambda X, extrema_opts: S.interp_envelope(X, mode='upper', extrema_opts=extrema_opts), {'X': ENV_X}, ('extrema_opts',), 'envelope'),
        EP('interp_envelope:combined:pchip', lambda s, n: dict(X=sig(s, n), extrema_opts=sift_opts()['extrema_opts']),
           lambda X, extrema_opts: S.interp_envelope(X, mode='combined', interp_method='pchip', extrema_opts=extrema_opts, ret_extrema=True),
           {'X': ENV_X}, ('extrema_opts',), 'envelope'),
        EP('get_padded_extrema', lambda s, n: dict(X=sig(s, n), loc_pad_opts={'mode': 'reflect', 'reflect_type': 'odd'},
                                                   mag_pad_opts={'mode': 'median', 'stat_length': 1}),
           lambda X, **o: S.get_padded_extrema(X, pad_width=3, mode='troughs', **o), {'X': ENV_X}, ('loc_pad_opts', 'mag_pad_opts'), 'envelope'),
        EP('is_imf', lambda s, n: dict(imf=derived(s, n)['imf'][:, 0].copy(), envelope_opts={'interp_method': 'splrep'},
                                       extrema_opts={'pad_width': 2}),
           lambda imf, **o: S.is_imf(imf, **o), {'imf': dict(accept=['c'])}, ('envelope_opts', 'extrema_opts'), 'envelope'),
        EP('zero_crossing_count', lambda s, n: dict(X=derived(s, n)['imf'][:, 0].copy()), lambda X: S.zero_crossing_count(X),
           {'X': dict(accept=['c'])}, (), 'envelope'),
        # ---- second layer -------------------------------------------------------------------------
        EP('sift_second_layer', lambda s, n: dict(IA=derived(s, n)['IA'][:, :2].copy(), sift_args={'max_imfs': 2, 'imf_opts': {'sd_thresh': 0.1}}),
           lambda IA, sift_args: S.sift_second_layer(IA, sift_args=sift_args), {}, ('sift_args',), 'second-layer'),
        EP('mask_sift_second_layer', lambda s, n: dict(IA=derived(s, n)['ia'], mask_freqs=np.array([0.2, 0.1, 0.05]),
                                                       sift_args={'mask_amp': 1.0, 'nphases': 4}),
           lambda IA, mask_freqs, sift_args: S.mask_sift_second_layer(IA, mask_freqs, sift_args=sift_args),
           {'IA': dict(accept=['c'])}, ('sift_args',), 'second-layer'),
        # ---- transforms ---------------------------------------------------------------------------
        EP('frequency_transform:hilbert', lambda s, n: dict(imf=derived(s, n)['imf'][:, 0].copy()),
           lambda imf: SP.frequency_transform(imf, 128.0, 'hilbert'), {'imf': dict(accept=['c'])}, (), 'transform'),
        EP('frequency_transform:nht', lambda s, n: dict(imf=derived(s, n)['imf'][:, 0].copy()),
           lambda imf: SP.frequency_transform(imf, 128.0, 'nht'), {'imf': dict(accept=['c'])}, (), 'transform'),
        EP('frequency_transform:quad', lambda s, n: dict(imf=derived(s, n)['imf'][:, 0].copy()),
           lambda imf: SP.frequency_transform(imf, 128.0, 'quad', smooth_phase=3), {'imf': dict(accept=['c'])}, (), 'transform'),
        EP('frequency_transform:multi', lambda s, n: dict(imf=derived(s, n)['imf']),
           lambda imf: SP.frequency_transform(imf, 128.0, 'nht'), {}, (), 'transform'),
        EP('phase_from_freq', lambda s, n: dict(f=derived(s, n)['if_']), lambda f: SP.phase_from_freq(f, 128.0), {'f': dict(accept=['c'])}, (), 'transform'),
        EP('freq_from_phase', lambda s, n: dict(p=np.unwrap(derived(s, n)['ip'])), lambda p: SP.freq_from_phase(p, 128.0), {'p': dict(accept=['c'])}, (), 'transform'),
        EP('phase_from_complex_signal', lambda s, n: dict(z=np.exp(1j * derived(s, n)['IP'])),
           lambda z: SP.phase_from_complex_signal(z, smoothing=5, ret_phase='unwrapped'), {}, (), 'transform'),
        EP('amplitude_normalise', lambda s, n: dict(X=derived(s, n)['imf'][:, 0].copy()[:, None]), lambda X: UT.amplitude_normalise(X),
           {'X': dict(accept=['c11'])}, (), 'transform'),
        EP('amplitude_normalise:3d', lambda s, n: dict(X=np.tile(derived(s, n)['imf'][:, :2, None], (1, 1, 2))), lambda X: UT.amplitude_normalise(X, clip=True),
           {}, (), 'transform'),
        # ---- spectra ------------------------------------------------------------------------------
        EP('hilberthuang', _mk_hht, lambda infr, inam, freq_edges: SP.hilberthuang(infr, inam, freq_edges),
           {'infr': VEC_OR_COL, 'inam': VEC_OR_COL}, (), 'spectra'),
        EP('hilberthuang:multi', _mk_hht2, lambda infr, inam, freq_edges: SP.hilberthuang(infr, inam, freq_edges, mode='amplitude'),
           {'infr': dict(short=True), 'inam': dict(short=True)}, (), 'spectra'),
        EP('hilberthuang_1d', _mk_hht2, lambda infr, inam, freq_edges: SP.hilberthuang_1d(infr, inam, freq_edges),
           {'infr': dict(short=True), 'inam': dict(short=True)}, (), 'spectra'),
        EP('holospectrum', _mk_holo, lambda **k: SP.holospectrum(**k), {'infr': VEC_OR_COL, 'infr2': dict(short=True), 'inam2': dict(short=True)}, (), 'spectra'),
        EP('define_hist_bins_from_data', lambda s, n: dict(X=derived(s, n)['if_']), lambda X: SP.define_hist_bins_from_data(X), {}, (), 'spectra'),
        # ---- cycles -------------------------------------------------------------------------------
        EP('get_cycle_vector', lambda s, n: dict(phase=derived(s, n)['ip']), lambda phase: CY.get_cycle_vector(phase, return_good=True),
           {'phase': dict(accept=['c'])}, (), 'cycles'),
        EP('get_cycle_vector:mask', lambda s, n: dict(phase=derived(s, n)['ip'], mask=derived(s, n)['ia'] > np.median(derived(s, n)['ia']) * .5),
           lambda phase, mask: CY.get_cycle_vector(phase, return_good=False, mask=mask),
           {'phase': VEC_OR_COL, 'mask': VEC_OR_COL}, (), 'cycles'),
        EP('get_cycle_stat', lambda s, n: dict(cycles=derived(s, n)['cv'], values=derived(s, n)['if_']),
           lambda cycles, values: CY.get_cycle_stat(cycles, values, func=np.max), {'cycles': VEC, 'values': VEC}, (), 'cycles'),
        EP('get_cycle_stat:samples', lambda s, n: dict(cycles=derived(s, n)['cv'], values=derived(s, n)['ia']),
           lambda cycles, values:
           CY.get_cycle_stat(cycles, values, out='samples', func=np.mean), {'values': VEC}, (), 'cycles'),
        EP('phase_align', lambda s, n: dict(ip=derived(s, n)['ip'], x=derived(s, n)['if_']),
           lambda ip, x: CY.phase_align(ip, x, npoints=16), {'ip': VEC, 'x': VEC}, (), 'cycles'),
        EP('phase_align:cycles', lambda s, n: dict(ip=derived(s, n)['ip'], x=derived(s, n)['if_'], cycles=derived(s, n)['cv']),
           lambda ip, x, cycles: CY.phase_align(ip, x, cycles=cycles, npoints=16), {'cycles': VEC}, (), 'cycles'),
        EP('bin_by_phase', lambda s, n: dict(ip=derived(s, n)['ip'], x=derived(s, n)['if_']),
           lambda ip, x: CY.bin_by_phase(ip, x, nbins=8), {'ip': VEC, 'x': VEC_OR_COL}, (), 'cycles'),
        EP('bin_by_phase:weights', lambda s, n: dict(ip=derived(s, n)['ip'], x=derived(s, n)['if_'][:, None], weights=derived(s, n)['ia']),
           lambda ip, x, weights: CY.bin_by_phase(ip, x, nbins=8, weights=weights), {'weights': VEC_OR_COL, 'ip': dict(accept=['c'])}, (), 'cycles'),
        EP('get_control_points', lambda s, n: dict(x=derived(s, n)['imf'][:, 0].copy(), cycles=derived(s, n)['cv']),
           lambda x, cycles: CY.get_control_points(x, cycles), {'x': VEC}, (), 'cycles'),
        EP('normalised_waveform', lambda s, n: dict(infreq=derived(s, n)['if_'][:60].copy()), lambda infreq: CY.normalised_waveform(infreq),
           {'infreq': dict(accept=['c'])}, (), 'cycles'),
        EP('is_good', lambda s, n: dict(phase=np.linspace(0.01, 2 * np.pi - 0.01, 40)), lambda phase: CY.is_good(phase, ret_all_checks=True), {}, (), 'cycles'),
        EP('mean_vector', lambda s, n: dict(IP=derived(s, n)['ip'], X=derived(s, n)['IA']), lambda IP, X: CY.mean_vector(IP, X), {}, (), 'cycles'),
        EP('kdt_match', lambda s, n: dict(x=np.sort(np.random.RandomState(s).rand(20)), y=np.sort(np.random.RandomState(s + 1).rand(25))),
           lambda x, y: CY.kdt_match(x, y, K=3), {}, (), 'cycles'),
        EP('Cycles.add_cycle_metric:int', _mk_add_metric, lambda IP, cycle_vals: _cycles_add_metric(IP, cycle_vals, int), {'IP': dict(accept=['c'], reject=['n2'])}, (), 'container'),
        EP('Cycles.add_cycle_metric:float', _mk_add_metric, lambda IP, cycle_vals: _cycles_add_metric(IP, cycle_vals, float), {}, (), 'container'),
        EP('Cycles.compute_cycle_metric', _mk_container, _cycles_compute, {}, (), 'container'),
        EP('Cycles.pick_cycle_subset', lambda s, n: dict(conditions=['is_good==1', 'mx>0.1'], **_mk_container(s, n)),
           _cycles_subset, {}, ('conditions',), 'container'),
        # ---- option dictionaries in which every optional key is present (and the same dict object passed twice) ----
        EP('sift:every-option', _mk_sift_full, lambda X, **o: S.sift(X, sift_thresh=1e-8, max_imfs=3, verbose=None, **o), {'X': dict(accept=['c'])}, OPTS3, 'options'),
        EP('ensemble_sift:every-option', _mk_sift_full,
           lambda X, **o: S.ensemble_sift(X, nensembles=2, ensemble_noise=.2, noise_mode='single', nprocesses=1, sift_thresh=1e-8, max_imfs=2, verbose=None, **o),
           {}, OPTS3, 'options', seeded=True),
        EP('complete_ensemble_sift:every-option', _mk_sift_full,
           lambda X, **o: S.complete_ensemble_sift(X, nensembles=2, ensemble_noise=.2, noise_mode='flip', nprocesses=1, sift_thresh=1e-8, max_imfs=2, verbose=None, **o),
           {}, OPTS3, 'options', seeded=True),
        EP('mask_sift:every-option', _mk_sift_full,
           lambda X, **o: S.mask_sift(X, **every_key(S.mask_sift, dict(max_imfs=3, nphases=4, nprocesses=1), skip=OPTS3), **o), {}, OPTS3, 'options'),
        EP('mask_sift:mask_freqs-array', lambda s, n: dict(X=sig(s, n), mask_freqs=np.array([0.2, 0.1, 0.05]), mask_amp=np.array([1.0, 0.8, 0.6]), **sift_opts()),
           lambda X, mask_freqs, mask_amp, **o: S.mask_sift(X, mask_freqs=mask_freqs, mask_amp=mask_amp, max_imfs=3, nprocesses=1, **o), {}, OPTS3, 'options'),
        # the optional energy-ratio test of get_next_imf on a signal whose first IMF passes it (continue flag False) in every layout
        EP('get_next_imf:energy-stop', lambda s, n: dict(X=dominant(s, n)), lambda X: S.get_next_imf(X, energy_thresh=50), {'X': SIFT_X}, (), 'options'),
        EP('get_next_imf:energy-stop:rilling', lambda s, n: dict(X=dominant(s, n)),
           lambda X: S.get_next_imf(X, energy_thresh=50, stop_method='rilling'), {'X': dict(accept=['c', 'c11'])}, (), 'options'),
        # per-IMF mask amplitudes / frequencies given as arrays, in every amplitude mode
        EP('mask_sift:mask_amp-array:ratio_sig', _mk_mask_arrays,
           lambda X, mask_freqs, mask_amp, **o: S.mask_sift(X, mask_freqs=mask_freqs, mask_amp=mask_amp, mask_amp_mode='ratio_sig', max_imfs=3, nprocesses=1, **o),
           {'X': dict(accept=['c'])}, OPTS3, 'options'),
        EP('mask_sift:mask_amp-array:abs', _mk_mask_arrays,
           lambda X, mask_freqs, mask_amp, **o: S.mask_sift(X, mask_freqs=mask_freqs, mask_amp=mask_amp, mask_amp_mode='abs', max_imfs=3, nprocesses=1, **o),
           {}, OPTS3, 'options'),
        EP('mask_sift:mask_amp-int-array:ratio_sig', cast(_mk_mask_arrays, mask_amp='i8'),
           lambda X, mask_freqs, mask_amp, **o: S.mask_sift(X, mask_freqs=mask_freqs, mask_amp=mask_amp, mask_amp_mode='ratio_sig', max_imfs=3, nprocesses=1, **o),
           {}, OPTS3, 'options'),
        EP('get_next_imf:every-option', lambda s, n: dict(X=sig(s, n), envelope_opts=full_stage_opts()['envelope_opts'], extrema_opts=full_stage_opts()['extrema_opts']),
           lambda X, **o: S.get_next_imf(X, **dict(full_stage_opts()['imf_opts'], **o)), {}, ('envelope_opts', 'extrema_opts'), 'options'),
        EP('get_next_imf_mask:every-option', _mk_sift_full,
           lambda X, **o: S.get_next_imf_mask(X, 0.1, 1.0, **every_key(S.get_next_imf_mask, dict(nphases=4, nprocesses=1), skip=OPTS3 + ('z', 'amp')), **o),
           {}, OPTS3, 'options'),
        EP('get_mask_freqs:every-option', lambda s, n: dict(X=sig(s, n), imf_opts=full_stage_opts()['imf_opts']),
           lambda X, imf_opts: S.get_mask_freqs(X, 'zc', imf_opts=imf_opts), {}, ('imf_opts',), 'options'),
        EP('interp_envelope:every-option', lambda s, n: dict(X=sig(s, n), extrema_opts=full_stage_opts()['extrema_opts']),
           lambda X, extrema_opts: S.interp_envelope(X, mode='lower', interp_method='mono_pchip', extrema_opts=extrema_opts, ret_extrema=True),
           {}, ('extrema_opts',), 'options'),
        EP('is_imf:every-option', lambda s, n: dict(imf=derived(s, n)['imf'][:, :2].copy(), envelope_opts=full_stage_opts()['envelope_opts'],
                                                    extrema_opts=full_stage_opts()['extrema_opts']),
           lambda imf, **o: S.is_imf(imf, avg_tol=5e-2, **o), {}, ('envelope_opts', 'extrema_opts'), 'options'),
        EP('sift_second_layer:every-option', lambda s, n: dict(IA=derived(s, n)['IA'][:, :2].copy(), sift_args=full_sift_args(S.sift, max_imfs=2)),
           lambda IA, sift_args: S.sift_second_layer(IA, sift_func=S.sift, sift_args=sift_args), {}, ('sift_args',), 'options'),
        EP('sift_second_layer:mask_sift:every-option',
           lambda s, n: dict(IA=derived(s, n)['IA'][:, :2].copy(), sift_args=full_sift_args(S.mask_sift, max_imfs=2, nphases=4, nprocesses=1)),
           lambda IA, sift_args: S.sift_second_layer(IA, sift_func=S.mask_sift, sift_args=sift_args), {}, ('sift_args',), 'options'),
        # the caller's sift_args already names max_imfs (round-2 change C19/1: a copy was only made when it had to be filled in)
        EP('mask_sift_second_layer:max_imfs', lambda s, n: dict(IA=derived(s, n)['IA'][:, :2].copy(), mask_freqs=np.array([0.2, 0.1, 0.05]),
                                                                sift_args={'max_imfs': 2, 'mask_amp': 1.0, 'nphases': 4}),
           lambda IA, mask_freqs, sift_args: S.mask_sift_second_layer(IA, mask_freqs, sift_args=sift_args), {}, ('sift_args',), 'options'),
        EP('mask_sift_second_layer:max_imfs-only', lambda s, n: dict(IA=derived(s, n)['ia'], mask_freqs=np.array([0.2, 0.1, 0.05]), sift_args={'max_imfs': 3}),
           lambda IA, mask_freqs, sift_args: S.mask_sift_second_layer(IA, mask_freqs, sift_args=sift_args), {'IA': dict(accept=['c'])}, ('sift_args',), 'options'),
        EP('mask_sift_second_layer:every-option',
           lambda s, n: dict(IA=derived(s, n)['IA'][:, :2].copy(), mask_freqs=np.array([0.2, 0.1, 0.05]),
                             sift_args=full_sift_args(S.mask_sift, max_imfs=2, nphases=4, nprocesses=1)),
           lambda IA, mask_freqs, sift_args: S.mask_sift_second_layer(IA, mask_freqs, sift_args=sift_args), {}, ('sift_args',), 'options'),
        EP('mask_sift_second_layer:none', lambda s, n: dict(IA=derived(s, n)['IA'][:, :2].copy(), mask_freqs=np.array([0.2, 0.1, 0.05])),
           lambda IA, mask_freqs: S.mask_sift_second_layer(IA, mask_freqs), {}, (), 'options'),
        # ---- documented input-normalisation branches: unwrapped phase is wrapped (round-2 change C19/2 wrapped it in place) ----
        EP('get_cycle_vector:unwrapped', lambda s, n: dict(phase=unwrapped(s, n)), lambda phase: CY.get_cycle_vector(phase, return_good=True),
           {'phase': dict(accept=['c'])}, (), 'normalise'),
        EP('get_cycle_vector:unwrapped:2d', lambda s, n: dict(phase=np.unwrap(derived(s, n)['IP'], axis=0)),
           lambda phase: CY.get_cycle_vector(phase, return_good=False), {}, (), 'normalise'),
        EP('get_cycle_vector:unwrapped:mask', lambda s, n: dict(phase=clean_unwrapped(s, n), mask=derived(s, n)['ia'] > np.median(derived(s, n)['ia']) * .5),
           lambda phase, mask: CY.get_cycle_vector(phase, return_good=False, mask=mask), {'phase': VEC_OR_COL, 'mask': VEC_OR_COL}, (), 'normalise'),
        EP('Cycles:unwrapped', lambda s, n: dict(IP=clean_unwrapped(s, n)),
           lambda IP: (lambda C: [C.cycle_vect, C.metrics['is_good'], C.phase])(CY.Cycles(IP)), {'IP': dict(accept=['c'], reject=['n2'])}, (), 'normalise'),
        EP('Cycles:wrapped', lambda s, n: dict(IP=clean_phase(s, n)),
           lambda IP: (lambda C: [C.cycle_vect, C.metrics['is_good'], C.phase])(CY.Cycles(IP, compute_timings=True)), {'IP': dict(accept=['c'], reject=['n2'])}, (), 'normalise'),
        EP('phase_align:unwrapped', lambda s, n: dict(ip=clean_unwrapped(s, n), x=derived(s, n)['if_']),
           lambda ip, x: CY.phase_align(ip, x, npoints=16)[0].shape, {'ip': VEC, 'x': VEC}, (), 'normalise'),
        EP('get_cycle_stat:Cycles:unwrapped', lambda s, n: dict(IP=clean_unwrapped(s, n), values=derived(s, n)['if_']),
           lambda IP, values: CY.get_cycle_stat(CY.Cycles(IP), values, func=np.max), {'IP': dict(accept=['c']), 'values': dict(accept=['c'])}, (), 'normalise'),
        EP('get_cycle_stat:Cycles:augmented', lambda s, n: dict(IP=clean_phase(s, n), values=derived(s, n)['if_']),
           lambda IP, values: CY.get_cycle_stat(CY.Cycles(IP), values, mode='augmented', func=np.mean), {'values': dict(accept=['c'])}, (), 'normalise'),
        EP('bin_by_phase:unwrapped', lambda s, n: dict(ip=clean_unwrapped(s, n), x=derived(s, n)['if_']),
           lambda ip, x: CY.bin_by_phase(ip, x, nbins=8), {'ip': VEC, 'x': VEC_OR_COL}, (), 'normalise'),
        EP('wrap_phase:-pi2pi', lambda s, n: dict(IP=unwrapped(s, n)), lambda IP: UT.wrap_phase(IP, ncycles=2, mode='-pi2pi'), {'IP': dict(accept=['c'])}, (), 'normalise'),
        EP('get_cycle_vector_from_waveform', lambda s, n: dict(imf=derived(s, n)['imf'][:, 0].copy()),
           lambda imf: CY.get_cycle_vector_from_waveform(imf, cycle_start='peaks'), {'imf': dict(accept=['c', 'c11'], reject=['n2'])}, (), 'normalise'),
        # second-layer (3-d) input of the transforms: the 2-d -> 3-d lifting branch is skipped
        EP('frequency_transform:hilbert:3d', lambda s, n: dict(imf=np.tile(derived(s, n)['imf'][:, :2, None], (1, 1, 2)) * np.array([1.0, 0.5])),
           lambda imf: SP.frequency_transform(imf, 128.0, 'hilbert'), {}, (), 'normalise'),
        EP('frequency_transform:nht:3d', lambda s, n: dict(imf=np.tile(derived(s, n)['imf'][:, :2, None], (1, 1, 2)) * np.array([1.0, 0.5])),
           lambda imf: SP.frequency_transform(imf, 128.0, 'nht'), {}, (), 'normalise'),
        EP('phase_from_complex_signal:vector', lambda s, n: dict(z=np.exp(1j * derived(s, n)['IP'])),
           lambda z: SP.phase_from_complex_signal(z, smoothing=None, ret_phase='wrapped'), {}, (), 'normalise'),
        # dtype branches: integer and single-precision input (no value claim across dtypes: untouched inputs, identical repeats)
        EP('sift:float32', cast(_mk_sift, X='f4'), lambda X, **o: S.sift(X, max_imfs=3, **o), {'X': dict(accept=['c', 'c11'])}, OPTS3, 'dtype'),
        EP('sift:int', cast(_mk_sift, X='i8'), lambda X, **o: S.sift(X, max_imfs=3, **o), {'X': dict(accept=['c', 'c11'])}, OPTS3, 'dtype'),
        EP('mask_sift:int', cast(_mk_sift, X='i8'), lambda X, **o: S.mask_sift(X, max_imfs=3, nprocesses=1, **o), {'X': dict(accept=['c'])}, OPTS3, 'dtype'),
        EP('ensemble_sift:int', cast(_mk_sift, X='i8'), lambda X, **o: S.ensemble_sift(X, nensembles=2, max_imfs=2, nprocesses=1, **o), {}, OPTS3, 'dtype', seeded=True),
        EP('complete_ensemble_sift:float32', cast(_mk_sift, X='f4'),
           lambda X, **o: S.complete_ensemble_sift(X, nensembles=2, max_imfs=2, nprocesses=1, **o), {}, OPTS3, 'dtype', seeded=True),
        EP('get_next_imf:int', cast(lambda s, n: dict(X=sig(s, n)), X='i8'), lambda X: S.get_next_imf(X), {'X': dict(accept=['c'])}, (), 'dtype'),
        EP('interp_envelope:int', cast(lambda s, n: dict(X=sig(s, n)), X='i8'), lambda X: S.interp_envelope(X, mode='lower'), {'X': dict(accept=['c'])}, (), 'dtype'),
        EP('get_padded_extrema:float32', cast(lambda s, n: dict(X=sig(s, n)), X='f4'),
           lambda X: S.get_padded_extrema(X, pad_width=2, mode='abs_peaks', parabolic_extrema=True), {'X': dict(accept=['c'])}, (), 'dtype'),
        EP('frequency_transform:hilbert:float32', cast(lambda s, n: dict(imf=derived(s, n)['imf']), imf='f4'),
           lambda imf: SP.frequency_transform(imf, 128.0, 'hilbert'), {}, (), 'dtype'),
        EP('frequency_transform:nht:int', cast(lambda s, n: dict(imf=derived(s, n)['imf'][:, :2].copy()), imf='i8'),
           lambda imf: SP.frequency_transform(imf, 128.0, 'nht'), {}, (), 'dtype'),
        EP('amplitude_normalise:int', cast(lambda s, n: dict(X=derived(s, n)['imf'][:, :2].copy()), X='i8'), lambda X: UT.amplitude_normalise(X), {}, (), 'dtype'),
        EP('amplitude_normalise:float32', cast(lambda s, n: dict(X=derived(s, n)['imf'][:, :2].copy()), X='f4'), lambda X: UT.amplitude_normalise(X, clip=True), {}, (), 'dtype'),
        EP('hilberthuang:float32', cast(_mk_hht2, infr='f4', inam='f4'), lambda infr, inam, freq_edges: SP.hilberthuang(infr, inam, freq_edges),
           {'infr': dict(short=True), 'inam': dict(short=True)}, (), 'dtype'),
        EP('hilberthuang_1d:float32', cast(_mk_hht2, infr='f4', inam='f4'), lambda infr, inam, freq_edges: SP.hilberthuang_1d(infr, inam, freq_edges), {}, (), 'dtype'),
        EP('get_cycle_vector:float32', cast(lambda s, n: dict(phase=derived(s, n)['ip']), phase='f4'), lambda phase: CY.get_cycle_vector(phase, return_good=True),
           {'phase': dict(accept=['c'])}, (), 'dtype'),
        EP('get_cycle_vector:unwrapped:float32', cast(lambda s, n: dict(phase=clean_unwrapped(s, n)), phase='f4'),
           lambda phase: CY.get_cycle_vector(phase, return_good=False), {'phase': dict(accept=['c'])}, (), 'dtype'),
        EP('get_cycle_vector:unwrapped:int', lambda s, n: dict(phase=np.floor(clean_unwrapped(s, n)).astype(np.int64)),
           lambda phase: CY.get_cycle_vector(phase, return_good=False), {'phase': dict(accept=['c'])}, (), 'dtype'),
        EP('get_cycle_stat:int-values', lambda s, n: dict(cycles=derived(s, n)['cv'].astype(np.int32), values=np.round(derived(s, n)['if_']).astype(np.int64)),
           lambda cycles, values: CY.get_cycle_stat(cycles, values, func=np.max), {'cycles': VEC, 'values': VEC}, (), 'dtype'),
        EP('phase_align:float32', cast(lambda s, n: dict(ip=derived(s, n)['ip'], x=derived(s, n)['if_']), ip='f4', x='f4'),
           lambda ip, x: CY.phase_align(ip, x, npoints=16), {'ip': VEC, 'x': VEC}, (), 'dtype'),
        EP('bin_by_phase:float32', cast(lambda s, n: dict(ip=derived(s, n)['ip'], x=derived(s, n)['if_']), ip='f4', x='f4'),
           lambda ip, x: CY.bin_by_phase(ip, x, nbins=8), {'ip': VEC, 'x': VEC_OR_COL}, (), 'dtype'),
        EP('wrap_phase:float32', cast(lambda s, n: dict(IP=unwrapped(s, n)), IP='f4'), lambda IP: UT.wrap_phase(IP), {'IP': dict(accept=['c'])}, (), 'dtype'),
        EP('est_orthogonality:float32', cast(lambda s, n: dict(imf=derived(s, n)['imf']), imf='f4'), lambda imf: UT.est_orthogonality(imf), {}, (), 'dtype'),
        # ---- utils --------------------------------------------------------------------------------
        EP('wrap_phase', lambda s, n: dict(IP=np.unwrap(derived(s, n)['ip'])), lambda IP: UT.wrap_phase(IP), {'IP': dict(accept=['c'])}, (), 'utils'),
        EP('est_orthogonality', lambda s, n: dict(imf=derived(s, n)['imf']), lambda imf: UT.est_orthogonality(imf), {}, (), 'utils'),
        EP('find_extrema_locked_epochs', lambda s, n: dict(X=sig(s, n)), lambda X: UT.find_extrema_locked_epochs(X, 10), {'X': dict(accept=['c'])}, (), 'utils'),
        EP('apply_epochs', lambda s, n: dict(X=derived(s, n)['imf'], trls=UT.find_extrema_locked_epochs(sig(s, n), 10)),
           lambda X, trls: UT.apply_epochs(X, trls), {}, (), 'utils'),
    ]
    return {e.name: e for e in eps}
