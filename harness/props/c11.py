"""C11 — the holospectrum bins jointly by carrier and amplitude-modulation frequency."""
import itertools

import numpy as np

from common.framework import Failure, ImplError, Stream
from props import _spec

ID = 'C11'
LEAN_MODULES = ['Proofs.C11']
REQUIRED = ['C11.unfold_fold', 'C11.holo_sparse_in_shape', 'C11.holo_eq_spec', 'C11.holo_shape',
            'C11.holo_sum_eq', 'C11.holo_mean_eq', 'C11.holo_total', 'C11.holo_energy_is_square',
            'C11.holo_sparse_one_per_sample', 'C11.holo_nnz', 'C11.decreasing_edges_digitize',
            'C11.increasing_edges_digitize', 'C11.squash_other_raises', 'C11.mean_empty_raises']
TRUSTED = ['np.digitize, scipy.sparse.coo_matrix(...).toarray()/sum(axis=0)/mean(axis=0) and ndarray.reshape are modelled by what they do '
           'to indices (count of edges <= v; scatter-add with accumulating duplicates; column sums; C-order chunking)',
           'bin edges come from the real define_hist_bins and are handed to the model as exact rationals',
           'exactness: integer / dyadic amplitudes, so the full and time-summed outputs are compared with ==; the time-averaged output is '
           'formed by scipy as sum(x * (1/T)) and is compared within 1e-9 * max|weight| (exact when T is a power of two)',
           'large bin sets (stream holo_large): the model answers with its sparse entries holoCoo (op HOLOCOO) and the harness reads the '
           'outputs off them (cell [t][a][c] = sum of the entries with row t and column (c+1)+(a+1)(L1+1): Spectra.holo3d_eq, '
           'C11.unfold_fold, C11.holo_sum_eq, C11.holo_mean_eq); on every case of stream holo_random this reading is compared with the '
           'model\'s own unfolded full / sum / mean outputs']
ASSUMPTIONS = ['edges_weakly_increasing: the histogram SPEC theorems (holo_eq_spec, holo_total, holo_sparse_one_per_sample) assume both edge '
               'vectors are non-decreasing (validated for every edge vector produced by define_hist_bins in the run: instance kinds '
               'assumption:carrier-edges-not-increasing / am-edges-not-increasing). np.digitize also accepts DEcreasing edges with the mirrored '
               'convention edges[i-1] > v >= edges[i]; the model follows it (Spectra.digitizeM, theorem C11.decreasing_edges_digitize) and is '
               'compared with the code on such edges (stream holo_malformed, why=decreasing-edges, tag outside-domain:decreasing-edges: '
               'compared, not judged by the instance check); non-monotonic edges: ValueError on both sides',
               'squash_time values other than False / sum / mean raise TypeError after the sparse matrix is built (C11.squash_other_raises; '
               'stream holo_squash_other compares THAT the call is refused, not the class of the exception); the mean over an '
               'empty time axis raises ZeroDivisionError (C11.mean_empty_raises; holo_mean_eq is stated for T > 0); for arrays that do not fit '
               'each other, non-monotone / empty edges and T = 0 the correspondence compares "both refuse / both answer", not the error class',
               'literal verdicts are given on finite frequencies in [T x M] / [T x M x K] arrays of any real dtype; NaN frequencies, vector-shaped '
               'first-level input, mismatched shapes, T = 0, side effects on the arguments and time-outs are mechanism-level (literal=False)',
               'amplitudes are finite']
RULE = ('exhaustive: every assignment of the edge-hitting alphabets {below, negative, each edge, each bin interior, above, NaN} of the '
        'carrier bin set to the T*M first-level samples and of the AM bin set to the T*M*K second-level samples, for (T,M,K) in '
        '{(1,1,1),(1,1,2),(1,2,1),(2,1,1)} and independent carrier/AM bin sets with 1..3 bins (amplitudes 1,2,4,...: distinct subset '
        'sums) x {energy, amplitude} x squash_time in {False, sum, mean}; random: T <= 24, M <= 4, K <= 4, 1..8 bins per axis '
        '(linear/log), alphabet + adjacent floats + uniform frequencies, integer/dyadic amplitudes of either sign, vector first-level '
        'input; large bin sets (stream holo_large): 1..3 time samples, (carrier bins + 2)(AM bins + 2) around and far above 2^16 '
        '(254x254 ... 300x300, 2x40000, 40000x2, 70000x1, 1x70000; linear and log), samples on the edges and in the interiors of the '
        'highest, lowest and 2^16-boundary bins and out of range, compared with the model through its sparse entries (op HOLOCOO, '
        'read with holo3d_eq / holo_sum_eq / holo_mean_eq; on every small random case this reading is checked against the model\'s own '
        'unfolded output); non-float64 storage (stream holo_dtype): frequency arrays as int64 / int32 / int16 / float32 with edges that are not '
        'numbers of that dtype (half-integer edges, 0.1-0.3-0.7 grids, float32 neighbours of every edge), integer / float32 / list edge '
        'vectors; long recordings (stream holo_long): T = 2^14 / 2^15 / 2^16 (/ 2^17) + r samples generated from a seed, content drifting '
        'over the recording; malformed: mismatched T / M / K, 2-D second level, non-monotone or empty edges, T = 0. Every input is '
        'evaluated as ONE SEQUENCE OF CALLS ON THE SAME ARRAY OBJECTS: the three squash_time settings in one of the 6 orders, a call in '
        'the other mode, the first setting again; each result is compared with the model and with the triple-loop histogram of a '
        'pristine copy, and the arrays handed in are compared with the pristine copy after every call. Non-trivial: at least one sample '
        'lands in a cell and at least one is rejected; distinct by content hash.')

LIN = lambda n, lo=1.0: {'lo': lo, 'hi': lo + n, 'n': n, 'scale': 'linear'}   # noqa: E731
LOG = lambda n: {'lo': 0.5, 'hi': 8.0, 'n': n, 'scale': 'log'}               # noqa: E731


# ---------------------------------------------------------------------------------------------
# what is a LITERAL verdict (review C): C11 speaks about the values of the three outputs for frequency / amplitude arrays with
# out-of-range and edge-valued frequencies. It says nothing about NaN frequencies, vector-shaped first-level input, arrays that
# do not fit each other, side effects on the arguments, or how long a call may take. Checks on those stay in place as
# mechanism-level checks (literal=False: a broken correspondence, never "the property fails on this input").

def has_nan(*xs):
    return any(bool(np.isnan(_spec.arr(x)).any()) for x in xs)


def soften(fs, F1=None, F2=None):
    """mark the failure kinds that are not the property's own words as mechanism-level"""
    outside = (F1 is not None and (np.ndim(F1) == 1 or has_nan(F1, F2)))
    for f in fs:
        if f.kind.startswith(('input-modified:', 'assumption:')):
            f.literal = False
        elif f.kind.startswith('raises:') and (outside or f.kind.endswith(':Timeout')):
            f.literal = False
    return fs


def impl_error(out):
    """the whole impl() call failed (the per-call errors are caught inside run_holo): a time-out or a harness problem; the
    correspondence reports it (compare), termination / harness faults are not the subject of C11"""
    return [Failure('raises:' + out['error'], out['msg'], literal=False)]


def guarded(holds):
    """an exception inside the instance check itself is a harness fault, not a property failure"""
    def wrapper(self, case, out):
        try:
            return holds(self, case, out)
        except Exception as e:  # noqa
            return [Failure('instance-check-crashed', repr(e), literal=False)]
    return wrapper


class Exhaustive(Stream):
    name = 'holo_exhaustive'
    exhaustive = True

    def _configs(self, tier):
        th = tier == 'thorough'
        cfg = []
        pairs = [(a, b) for a in (1, 2, 3) for b in (1, 2, 3)]
        for (n1, n2) in pairs:
            cfg.append(((1, 1, 1), LIN(n1), LIN(n2, 0.0)))
        cfg.append(((1, 1, 1), LOG(2), LIN(2, 0.0)))
        cfg.append(((1, 1, 1), LIN(3), LOG(3)))
        for (n1, n2) in [(2, 2), (1, 3), (3, 1)] + ([(3, 3)] if th else []):
            cfg.append(((1, 1, 2), LIN(n1), LIN(n2, 0.0)))
        for shape in ((1, 2, 1), (2, 1, 1)):
            for (n1, n2) in [(1, 1)] + ([(2, 1), (1, 2), (2, 2)] if th else []):
                cfg.append((shape, LIN(n1), LIN(n2, 0.0)))
        if th:
            cfg.append(((1, 1, 3), LIN(2), LIN(2, 0.0)))
            cfg.append(((2, 1, 1), LOG(1), LOG(2)))
        return cfg

    def generate(self, rng, tier):
        for (T, M, K), es1, es2 in self._configs(tier):
            g1 = len(_spec.grid_for(_spec.make_edges(es1)))
            g2 = len(_spec.grid_for(_spec.make_edges(es2)))
            n1, n2 = T * M, T * M * K
            sizes = [g1] * n1 + [g2] * n2
            total = int(np.prod(sizes))
            npre = 0
            while total > 600 and npre < len(sizes):
                total //= sizes[npre]
                npre += 1
            for mode in _spec.MODES:
                for pre in itertools.product(*[range(s) for s in sizes[:npre]]):
                    yield {'e1': es1, 'e2': es2, 'T': T, 'M': M, 'K': K, 'mode': mode, 'prefix': list(pre)}

    def _inputs(self, case):
        e1 = _spec.make_edges(case['e1'])
        e2 = _spec.make_edges(case['e2'])
        g1, g2 = _spec.grid_for(e1), _spec.grid_for(e2)
        T, M, K = case['T'], case['M'], case['K']
        n1, n2 = T * M, T * M * K
        sizes = [len(g1)] * n1 + [len(g2)] * n2
        A2 = [[[float(2 ** ((t * M + j) * K + k)) for k in range(K)] for j in range(M)] for t in range(T)]
        pre = tuple(case['prefix'])
        combos = [tuple(case['only'])] if 'only' in case else \
            [pre + rest for rest in itertools.product(*[range(s) for s in sizes[len(pre):]])]
        for combo in combos:
            F1 = [[g1[combo[t * M + j]][1] for j in range(M)] for t in range(T)]
            F2 = [[[g2[combo[n1 + (t * M + j) * K + k]][1] for k in range(K)] for j in range(M)] for t in range(T)]
            yield combo, e1, e2, F1, F2, A2

    @staticmethod
    def _seq(combo):
        """call order of this input: a function of its content only (stable under shrinking / replay)"""
        return sum((i + 1) * c for i, c in enumerate(combo)) + len(combo)

    def impl(self, case):
        return [_spec.run_holo(F1, F2, A2, e1, e2, case['mode'], seq=self._seq(combo))
                for combo, e1, e2, F1, F2, A2 in self._inputs(case)]

    def ops(self, case, out):
        ops = []
        for _, e1, e2, F1, F2, A2 in self._inputs(case):
            ops += _spec.holo_ops(F1, F2, A2, e1, e2, case['mode'])
        return ops

    def compare(self, case, out, results):
        if isinstance(out, ImplError):
            return 'implementation raised %s' % out['error']
        scale = float(2 ** (case['T'] * case['M'] * case['K'])) ** 2
        for i, ((combo, e1, e2, F1, F2, A2), o) in enumerate(zip(self._inputs(case), out)):
            d = _spec.holo_compare(o, results[3 * i:3 * i + 3], case['T'], scale)
            if d:
                return 'infr=%s infr2=%s inam2=%s carrier edges=%s AM edges=%s mode=%s: %s' % (
                    F1, F2, A2, list(map(float, e1)), list(map(float, e2)), case['mode'], d)
        return None

    @guarded
    def holds(self, case, out):
        if isinstance(out, ImplError):
            return impl_error(out)
        fs = {}
        for (combo, e1, e2, F1, F2, A2), o in zip(self._inputs(case), out):
            for f in soften(_spec.holo_holds(F1, F2, A2, e1, e2, case['mode'], o), F1, F2):
                if (f.kind, f.literal) not in fs:
                    f.detail = 'infr=%s infr2=%s inam2=%s carrier edges=%s AM edges=%s mode=%s: %s' % (
                        F1, F2, A2, list(map(float, e1)), list(map(float, e2)), case['mode'], f.detail)
                    fs[(f.kind, f.literal)] = f
        return list(fs.values())

    def tags(self, case, out):
        return ['shape=%dx%dx%d' % (case['T'], case['M'], case['K']), 'mode=' + case['mode'],
                'carrier-bins=%d' % case['e1']['n'], 'am-bins=%d' % case['e2']['n'],
                'scales=%s/%s' % (case['e1']['scale'], case['e2']['scale'])]

    def shrink(self, case):
        if 'only' in case:
            return
        for combo, *_ in self._inputs(case):
            yield dict(case, only=list(combo))


class Single(Stream):
    """One explicit input (also the replay format)."""
    name = 'holo_random'

    def corpus(self):
        e1 = {'lo': 1.0, 'hi': 4.0, 'n': 3, 'scale': 'linear'}
        e2 = {'lo': 0.0, 'hi': 2.0, 'n': 2, 'scale': 'linear'}
        return [
            # the Lean non-vacuity example (C11.exRows)
            {'F1': [[1.5, 5.0], [2.0, 3.0]], 'F2': [[[1.0, 0.5], [1.0, 1.0]], [[0.0, 2.0], [None, 1.5]]],
             'A2': [[[1.0, 2.0], [4.0, 8.0]], [[3.0, 5.0], [7.0, 2.0]]], 'e1': e1, 'e2': e2, 'mode': 'energy'},
            # every margin of the folded index: below/above on either axis, last edge exactly
            {'F1': [[0.5, 1.0, 4.0, 9.0, 3.5]], 'F2': [[[0.5], [-1.0], [1.0], [1.0], [2.0]]],
             'A2': [[[1.0], [2.0], [4.0], [8.0], [16.0]]], 'e1': e1, 'e2': e2, 'mode': 'amplitude'},
            # one bin per axis; three time samples (mean is not a dyadic division)
            {'F1': [[1.5], [1.5], [0.0]], 'F2': [[[0.5, 0.5]], [[0.5, 3.0]], [[0.5, 0.5]]],
             'A2': [[[1.0, 2.0]], [[4.0, 8.0]], [[16.0, 32.0]]],
             'e1': {'lo': 1.0, 'hi': 2.0, 'n': 1, 'scale': 'linear'}, 'e2': {'lo': 0.0, 'hi': 1.0, 'n': 1, 'scale': 'linear'}, 'mode': 'amplitude'},
            # vector first-level input; AM bins more numerous than carrier bins
            {'F1': [1.5, 2.5], 'F2': [[[0.1, 0.6, 1.1]], [[1.6, 2.0, 0.0]]], 'A2': [[[1.0, 2.0, 4.0]], [[8.0, 16.0, 32.0]]],
             'e1': {'lo': 1.0, 'hi': 3.0, 'n': 2, 'scale': 'linear'}, 'e2': {'lo': 0.0, 'hi': 2.0, 'n': 4, 'scale': 'linear'}, 'mode': 'energy'},
            # round-2 seed C11-4 (energy mode squared the caller's inam2 in place: the first call is right, every later call on
            # "the same" data is wrong): one in-range sample of amplitude 3, every call order, both modes
        ] + [{'F1': [[1.5]], 'F2': [[[0.5]]], 'A2': [[[3.0]]], 'e1': e1, 'e2': e2, 'mode': m, 'seq': q}
             for q in range(6) for m in _spec.MODES] + [
            {'F1': [[1.5, 5.0], [2.0, 3.0]], 'F2': [[[1.0, 0.5], [1.0, 1.0]], [[0.0, 2.0], [None, 1.5]]],
             'A2': [[[1.0, 2.0], [4.0, 8.0]], [[3.0, 5.0], [7.0, 2.0]]], 'e1': e1, 'e2': e2, 'mode': 'amplitude', 'seq': 3},
        ]

    def generate(self, rng, tier):
        n_cases = 1500 if tier == 'thorough' else 200

        def es(nb):
            if rng.random() < 0.3:
                lo = rng.choice([0.1, 0.5, 1.0, rng.uniform(0.01, 3)])
                return {'lo': lo, 'hi': lo * rng.choice([2.0, 10.0, rng.uniform(1.5, 50)]), 'n': nb, 'scale': 'log'}
            lo = rng.choice([0.0, 0.5, 1.0, rng.uniform(0, 10)])
            return {'lo': lo, 'hi': lo + rng.choice([1.0, float(nb), rng.uniform(0.1, 40)]), 'n': nb, 'scale': 'linear'}

        def draw(e, g, p_grid):
            lo, hi = float(e[0]), float(e[-1])
            span = (hi - lo) or 1.0
            if rng.random() < p_grid:
                return rng.choice(g)[1]
            return rng.uniform(lo - 0.3 * span, hi + 0.3 * span)

        for _ in range(n_cases):
            es1, es2 = es(rng.choice([1, 2, 3, 4, 8])), es(rng.choice([1, 2, 3, 5, 8]))
            e1, e2 = _spec.make_edges(es1), _spec.make_edges(es2)
            g1 = _spec.grid_for(e1, fine=True)
            g2 = _spec.grid_for(e2, fine=True)
            T = rng.choice([1, 2, 3, 4, 5, 8, 24])
            M = rng.choice([1, 1, 2, 3, 4])
            K = rng.choice([1, 2, 3, 4])
            p = rng.choice([0.2, 0.6, 1.0])
            F1 = [[draw(e1, g1, p) for _ in range(M)] for _ in range(T)]
            F2 = [[[draw(e2, g2, p) for _ in range(K)] for _ in range(M)] for _ in range(T)]
            amp = rng.choice(['pos-int', 'int', 'dyadic'])
            def a():
                if amp == 'pos-int':
                    return float(rng.randint(0, 9))
                if amp == 'int':
                    return float(rng.randint(-9, 9))
                return rng.randint(-64, 64) / 8.0
            A2 = [[[a() for _ in range(K)] for _ in range(M)] for _ in range(T)]
            if M == 1 and rng.random() < 0.3:
                F1 = [r[0] for r in F1]
            yield {'F1': F1, 'F2': F2, 'A2': A2, 'e1': es1, 'e2': es2, 'mode': rng.choice(_spec.MODES), 'seq': rng.randrange(6)}

    def _edges(self, case):
        return _spec.make_edges(case['e1']), _spec.make_edges(case['e2'])

    def impl(self, case):
        e1, e2 = self._edges(case)
        return _spec.run_holo(case['F1'], case['F2'], case['A2'], e1, e2, case['mode'], seq=case.get('seq', 0))

    def ops(self, case, out):
        e1, e2 = self._edges(case)
        a = (case['F1'], case['F2'], case['A2'], e1, e2, case['mode'])
        return _spec.holo_ops(*a) + [_spec.holo_coo_op(*a)]

    def _scale(self, case):
        a = np.abs(_spec.arr(case['A2']))
        m = float(a.max()) if a.size else 1.0
        return max(1.0, m * m if case['mode'] == 'energy' else m) * max(1, a.size)

    def compare(self, case, out, results):
        if isinstance(out, ImplError):
            return 'implementation raised %s' % out['error']
        return (_spec.holo_compare(out, results[:3], len(case['F1']), self._scale(case))
                or _spec.holo_coo_vs_model(results[3], results[:3]))

    @guarded
    def holds(self, case, out):
        if isinstance(out, ImplError):
            return impl_error(out)
        e1, e2 = self._edges(case)
        return soften(_spec.holo_holds(case['F1'], case['F2'], case['A2'], e1, e2, case['mode'], out), case['F1'], case['F2'])

    def _cats(self, case):
        e1, e2 = self._edges(case)
        e1 = [float(v) for v in e1]
        e2 = [float(v) for v in e2]
        c1 = {_spec.category(e1, float(v)) for v in _spec.arr(case['F1']).ravel()}
        c2 = {_spec.category(e2, float(v)) for v in _spec.arr(case['F2']).ravel()}
        return c1, c2

    def tags(self, case, out):
        e1, e2 = self._edges(case)
        c1, c2 = self._cats(case)
        A = _spec.arr(case['A2'])
        t = ['mode=' + case['mode'], 'carrier-bins=%d' % (len(e1) - 1), 'am-bins=%d' % (len(e2) - 1),
             'T=%d' % A.shape[0], 'M=%d' % A.shape[1], 'K=%d' % A.shape[2], 'infr-ndim=%d' % np.ndim(case['F1'])]
        t += ['carrier-has:' + c for c in sorted(c1)] + ['am-has:' + c for c in sorted(c2)]
        if not isinstance(out, ImplError):
            t.append('calls=' + '>'.join(x.split('/')[-1] for x in out.get('order', [])[:3]))
        return t

    def nontrivial(self, case, out):
        if isinstance(out, ImplError) or 'error' in out['none']:
            return False
        c1, c2 = self._cats(case)
        return bool(np.any(_spec.vals(out['none']) != 0)) and bool((c1 | c2) - {'interior'})

    def shrink(self, case):
        F1, F2, A2 = case['F1'], case['F2'], case['A2']
        n = len(F1)
        if n > 1:
            for cut in (n // 2, 1):
                if 0 < cut < n:
                    yield dict(case, F1=F1[cut:], F2=F2[cut:], A2=A2[cut:])
                    yield dict(case, F1=F1[:n - cut], F2=F2[:n - cut], A2=A2[:n - cut])
        if n and isinstance(F1[0], list) and len(F1[0]) > 1:
            for j in range(len(F1[0])):
                yield dict(case, F1=[[r[j]] for r in F1], F2=[[r[j]] for r in F2], A2=[[r[j]] for r in A2])
        if n and len(F2[0][0]) > 1:
            for k in range(len(F2[0][0])):
                yield dict(case, F2=[[[c[k]] for c in r] for r in F2], A2=[[[c[k]] for c in r] for r in A2])


class Large(Single):
    """Bin sets whose folded sparse column index (carrier bins + 2) * (AM bins + 2) is around / far above 2^16, a few samples.
    The model is consulted through its sparse entries (HOLOCOO): its unfolded [T x AM x carrier] output has ~10^5 cells."""
    name = 'holo_large'

    @staticmethod
    def _es(n, kind):
        if kind == 'unit':
            return {'lo': 1.0, 'hi': 1.0 + n, 'n': n, 'scale': 'linear'}
        if kind == 'lin':
            return {'lo': 0.5, 'hi': 40.0, 'n': n, 'scale': 'linear'}
        return {'lo': 0.5, 'hi': 64.0, 'n': n, 'scale': 'log'}

    @staticmethod
    def _value(e, b, how):
        """a frequency for bin b of edge vector e: on its lower edge / in its interior"""
        lo, hi = float(e[b]), float(e[b + 1])
        m = (lo + hi) / 2
        return lo if how == 'edge' or not (lo < m < hi) else m

    def _build(self, rng, n1, n2, k1, k2, mode, T, M, K, seq, where):
        es1, es2 = self._es(n1, k1), self._es(n2, k2)
        e1, e2 = _spec.make_edges(es1), _spec.make_edges(es2)

        def pick(e, n, other_n):
            """bin index: highest / lowest bins, the bins where the folded index crosses 2^16, anywhere; or out of range"""
            r = rng.random() if where == 'mixed' else 0.0
            if where == 'top' or r < 0.45:
                b = n - 1 - rng.choice([0, 0, 1, 2])
            elif r < 0.6:
                b = rng.choice([0, 1])
            elif r < 0.75:
                b = 65536 // (other_n + 2) - 1 + rng.choice([-2, -1, 0, 1])
            elif r < 0.9:
                b = rng.randrange(n)
            else:
                return rng.choice([float(e[0]) - 1.0, float(e[-1]), float(e[-1]) + 1.0, None, -3.0])
            b = min(max(b, 0), n - 1)
            return self._value(e, b, rng.choice(['edge', 'interior']))
        F1 = [[pick(e1, n1, n2) for _ in range(M)] for _ in range(T)]
        F2 = [[[pick(e2, n2, n1) for _ in range(K)] for _ in range(M)] for _ in range(T)]
        A2 = [[[float(2 ** ((t * M + j) * K + k)) * rng.choice([1.0, 1.0, -1.0, 1.5]) for k in range(K)] for j in range(M)] for t in range(T)]
        return {'F1': F1, 'F2': F2, 'A2': A2, 'e1': es1, 'e2': es2, 'mode': mode, 'seq': seq}

    SIZES = [(300, 300), (254, 254), (255, 254), (255, 255), (2, 40000), (40000, 2), (70000, 1), (1, 70000), (511, 127), (1000, 100)]

    def corpus(self):
        import random
        rng = random.Random(11)
        cs = []
        # round-2 seed C11-3 (bin indices cast to uint16: the folded index wraps modulo 2^16): samples in the highest AM and
        # carrier bins of 300 x 300 bins, both modes; the 2^16 boundary itself (254 x 254: 256 * 256 columns); lopsided bin sets
        for i, ((n1, n2), mode) in enumerate([((300, 300), 'energy'), ((300, 300), 'amplitude'), ((254, 254), 'energy'),
                                              ((255, 255), 'amplitude'), ((2, 40000), 'energy'), ((40000, 2), 'amplitude'),
                                              ((70000, 1), 'energy'), ((1, 70000), 'amplitude')]):
            cs.append(self._build(rng, n1, n2, 'unit', 'unit', mode, 2, 1, 2, i, 'top'))
        cs.append(self._build(rng, 300, 300, 'lin', 'log', 'energy', 3, 2, 2, 2, 'mixed'))
        return cs

    def generate(self, rng, tier):
        for _ in range(60 if tier == 'thorough' else 7):
            n1, n2 = rng.choice(self.SIZES) if rng.random() < 0.7 else (rng.randint(200, 400), rng.randint(200, 400))
            yield self._build(rng, n1, n2, rng.choice(['unit', 'lin', 'log']), rng.choice(['unit', 'lin', 'log']), rng.choice(_spec.MODES),
                              rng.choice([1, 2, 3]), rng.choice([1, 2]), rng.choice([1, 2, 3]), rng.randrange(6),
                              rng.choice(['mixed', 'mixed', 'top']))

    def ops(self, case, out):
        e1, e2 = self._edges(case)
        return [_spec.holo_coo_op(case['F1'], case['F2'], case['A2'], e1, e2, case['mode'])]

    def compare(self, case, out, results):
        if isinstance(out, ImplError):
            return 'implementation raised %s' % out['error']
        return _spec.holo_compare_coo(out, results[0], self._scale(case))

    def tags(self, case, out):
        e1, e2 = self._edges(case)
        cols = (len(e1) + 1) * (len(e2) + 1)
        t = ['mode=' + case['mode'], 'scales=%s/%s' % (case['e1']['scale'], case['e2']['scale']),
             'folded-columns:' + ('<2^16' if cols < 65536 else '=2^16' if cols == 65536 else '>2^16'),
             'bins=%dx%d' % (len(e1) - 1, len(e2) - 1) if (len(e1) - 1, len(e2) - 1) in self.SIZES else 'bins=other']
        if not isinstance(out, ImplError) and 'error' not in out['none']:
            nz = np.flatnonzero(_spec.vals(out['none']))
            na, nc = len(e2) - 1, len(e1) - 1
            if any((int(i) % nc + 1) + ((int(i) % (na * nc)) // nc + 1) * (nc + 2) >= 65536 for i in nz):
                t.append('has-sample-with-folded-index>=2^16')
        return t


# ---------------------------------------------------------------------------------------------
# frequency arrays / bin-edge vectors that are not float64 (round 3, C11 patch 2: both edge vectors cast to the dtype of the
# frequency arrays before np.digitize: integer Hz arrays truncate the edges, float32 arrays round them)

DTYPES = ('int64', 'int32', 'int16', 'float32', 'float64')


def near_values(e, dt):
    """values of dtype `dt` hitting the edges of `e` the way that dtype can: for integers floor/ceil of every edge and their
    neighbours, for float32 the float32 nearest to every edge and its two neighbours (one of them lies between the edge and
    its float32 rounding whenever the edge is not a float32), interiors, below, above. Returned as exact Python floats."""
    e = [float(v) for v in e]
    span = (e[-1] - e[0]) or 1.0
    vs = []
    if dt.startswith('int'):
        for v in e:
            vs += [np.floor(v) - 1, np.floor(v), np.ceil(v), np.ceil(v) + 1]
        vs += [np.floor(e[0] - span / 3) - 1, np.ceil(e[-1] + span / 3) + 1, round((e[0] + e[-1]) / 2)]
        info = np.iinfo(dt)
        return sorted({float(min(max(int(v), info.min), info.max)) for v in vs})
    f = np.dtype(dt).type
    for v in e:
        c = f(v)
        vs += [c, np.nextafter(c, f(-np.inf)), np.nextafter(c, f(np.inf))]
    for a, b in zip(e, e[1:]):
        vs.append(f((a + b) / 2))
    vs += [f(e[0] - span / 3), f(e[-1] + span / 3), f(-abs(e[-1]) - 1.0)]
    return sorted({float(v) for v in vs})


def run_holo_typed(F1, F2, A2, e1, e2, mode, dt1, dt2, edt1=None, edt2=None, seq=0):
    """_spec.run_holo with the frequency arrays (and optionally the edge vectors) in the given dtypes: the same sequence of calls
    on the same array objects (three squash settings, the other mode, the first setting again)."""
    from emd import spectra

    def edges(e, edt):
        e = np.asarray(e, dtype=float)
        if edt == 'list':
            return [float(v) for v in e]
        return e.astype(edt) if edt else e
    P = [np.array(F1, dtype=float).astype(dt1), np.array(F2, dtype=float).astype(dt2), _spec.arr(A2), edges(e1, edt1), edges(e2, edt2)]
    W = [x.copy() if isinstance(x, np.ndarray) else list(x) for x in P]
    names = ('infr', 'infr2', 'inam2', 'freq_edges', 'freq_edges2')
    order = _spec.HOLO_ORDERS[seq % len(_spec.HOLO_ORDERS)]
    calls = [(nm, mode, nm) for nm in order] + [('other', _spec.other_mode(mode), order[1]), ('again', mode, order[0])]
    out = {'order': ['%s:%s/%s' % c for c in calls], 'modified': {}}
    for lab, md, sq in calls:
        def go(md=md, sq=sq):
            h = spectra.holospectrum(W[0], W[1], W[2], W[3], W[4], mode=md, squash_time=_spec.SQ[sq])
            return dict(_spec.pack(h), squash=sq, mode=md)
        out[lab] = _spec._guard(go)
        for arg, now, pristine in zip(names, W, P):
            if arg not in out['modified'] and (list(now) != list(pristine) if isinstance(now, list) else _spec.changed(now, pristine)):
                out['modified'][arg] = '%s:%s/%s' % (lab, md, sq)
    return out


class Typed(Single):
    """Integer / single-precision frequency arrays (and integer / list bin-edge vectors): the value of every sample and of every
    edge is an exact real number whatever its dtype, so the cell "containing its two frequencies" is the same cell."""
    name = 'holo_dtype'

    def corpus(self):
        A = lambda T, M, K: [[[float(1 + ((t * M + j) * K + k) % 7) for k in range(K)] for j in range(M)] for t in range(T)]  # noqa: E731
        half = {'explicit': [0.5, 1.5, 2.5, 3.5]}
        tenth = {'explicit': [0.1, 0.3, 0.7, 0.9]}
        f32 = lambda v: float(np.float32(v))  # noqa: E731
        cs = []
        for mode in _spec.MODES:
            # integer Hz carriers / AM frequencies against half-integer edges: 2 Hz lies in [1.5, 2.5)
            cs.append({'F1': [[0.0, 1.0], [2.0, 3.0], [4.0, 2.0]], 'F2': [[[1.0, 2.0], [3.0, 0.0]], [[2.0, 2.0], [1.0, 4.0]], [[3.0, 1.0], [2.0, 3.0]]],
                       'A2': A(3, 2, 2), 'e1': half, 'e2': half, 'mode': mode, 'dt1': 'int64', 'dt2': 'int64', 'seq': 1})
            cs.append({'F1': [[2.0], [3.0]], 'F2': [[[1.5]], [[2.0]]], 'A2': A(2, 1, 1), 'e1': half, 'e2': half, 'mode': mode,
                       'dt1': 'int32', 'dt2': 'float64', 'seq': 0})
            # float32 frequencies on the float32 roundings of edges that are not float32 numbers (0.7 rounds DOWN: float32(0.7) < 0.7)
            cs.append({'F1': [[f32(0.7), f32(0.3)], [f32(0.1), f32(0.9)]], 'F2': [[[f32(0.7)], [f32(0.5)]], [[f32(0.3)], [f32(0.9)]]],
                       'A2': A(2, 2, 1), 'e1': tenth, 'e2': tenth, 'mode': mode, 'dt1': 'float32', 'dt2': 'float32', 'seq': 2})
            # integer-typed edge vectors with fractional frequencies (the mirror image)
            cs.append({'F1': [[0.5, 1.5], [2.0, 2.999]], 'F2': [[[0.999], [1.0]], [[1.5], [3.0]]], 'A2': A(2, 2, 1),
                       'e1': {'explicit': [0.0, 1.0, 2.0, 3.0]}, 'e2': {'explicit': [0.0, 1.0, 2.0, 3.0]}, 'mode': mode,
                       'dt1': 'float64', 'dt2': 'float64', 'edt1': 'int64', 'edt2': 'int32', 'seq': 3})
        return cs

    def generate(self, rng, tier):
        for _ in range(500 if tier == 'thorough' else 90):
            dt1, dt2 = rng.choice(DTYPES), rng.choice(DTYPES)
            if dt1 == dt2 == 'float64':
                dt1 = rng.choice(DTYPES[:-1])

            def es(dt, nb):
                r = rng.random()
                if dt.startswith('int'):
                    if r < 0.4:
                        lo = rng.choice([0.5, 1.5, 0.25, rng.randint(0, 6) + rng.choice([0.5, 0.1, 0.9])])
                        return {'lo': lo, 'hi': lo + nb * rng.choice([1, 1, 2, 3]), 'n': nb, 'scale': 'linear'}
                    if r < 0.6:
                        return {'lo': 0.5, 'hi': rng.choice([8.0, 20.0, 64.0]), 'n': nb, 'scale': 'log'}
                    if r < 0.85:
                        lo = rng.uniform(0, 5)
                        return {'lo': lo, 'hi': lo + rng.uniform(1.5, 12), 'n': nb, 'scale': 'linear'}
                    lo = float(rng.randint(0, 4))          # integer edges: every integer sample is edge-valued
                    return {'lo': lo, 'hi': lo + nb * rng.choice([1, 2]), 'n': nb, 'scale': 'linear'}
                if r < 0.35:
                    return {'lo': 0.1, 'hi': 0.1 + 0.2 * nb, 'n': nb, 'scale': 'linear'}
                if r < 0.55:
                    return {'explicit': sorted(rng.sample([0.1, 0.2, 0.3, 0.6, 0.7, 0.9, 1.1, 1.3, 1.7, 2.3], nb + 1))}
                if r < 0.75:
                    lo = rng.choice([0.1, 0.3, rng.uniform(0.01, 3)])
                    return {'lo': lo, 'hi': lo * rng.choice([10.0, rng.uniform(1.5, 50)]), 'n': nb, 'scale': 'log'}
                lo = rng.uniform(0, 10)
                return {'lo': lo, 'hi': lo + rng.uniform(0.1, 40), 'n': nb, 'scale': 'linear'}
            es1, es2 = es(dt1, rng.choice([1, 2, 3, 4, 8])), es(dt2, rng.choice([1, 2, 3, 5, 8]))
            e1, e2 = _spec.make_edges(es1), _spec.make_edges(es2)
            g1, g2 = near_values(e1, dt1), near_values(e2, dt2)
            T, M, K = rng.choice([1, 2, 3, 5, 8, 16]), rng.choice([1, 1, 2, 3]), rng.choice([1, 2, 3])
            F1 = [[rng.choice(g1) for _ in range(M)] for _ in range(T)]
            F2 = [[[rng.choice(g2) for _ in range(K)] for _ in range(M)] for _ in range(T)]
            amp = rng.choice(['pos-int', 'int', 'dyadic'])
            a = {'pos-int': lambda: float(rng.randint(1, 9)), 'int': lambda: float(rng.randint(-9, 9)),
                 'dyadic': lambda: rng.randint(-64, 64) / 8.0}[amp]
            A2 = [[[a() for _ in range(K)] for _ in range(M)] for _ in range(T)]
            case = {'F1': F1, 'F2': F2, 'A2': A2, 'e1': es1, 'e2': es2, 'mode': rng.choice(_spec.MODES), 'seq': rng.randrange(6),
                    'dt1': dt1, 'dt2': dt2}
            if rng.random() < 0.15:
                case['edt1'] = rng.choice(['list', 'float32'])
            if rng.random() < 0.15:
                case['edt2'] = rng.choice(['list', 'float32'])
            yield case

    def _edges(self, case):
        # the edge VALUES the implementation is handed (a float32 / integer edge vector denotes its own values)
        def ev(es, edt):
            e = _spec.make_edges(es)
            return e.astype(edt).astype(float) if edt and edt != 'list' else e
        return ev(case['e1'], case.get('edt1')), ev(case['e2'], case.get('edt2'))

    def impl(self, case):
        e1, e2 = self._edges(case)
        return run_holo_typed(case['F1'], case['F2'], case['A2'], e1, e2, case['mode'], case['dt1'], case['dt2'],
                              case.get('edt1'), case.get('edt2'), seq=case.get('seq', 0))

    def tags(self, case, out):
        return Single.tags(self, case, out) + ['infr-dtype=' + case['dt1'], 'infr2-dtype=' + case['dt2'],
                                              'edges-dtype=%s/%s' % (case.get('edt1', 'float64'), case.get('edt2', 'float64'))]


class LongT(Stream):
    """Recordings longer than any plausible internal block (2^15, 2^16 samples): "the time-averaged output equals the mean over
    time of the full output" for every T, also when T is not a multiple of a block length (round 3, C11 patch 1: mean of block means).
    The arrays are a function of the case's generator seed (a 40000-sample array is not carried as JSON)."""
    name = 'holo_long'
    timeout_s = 300

    def corpus(self):
        return [{'T': 2 ** 15 + 4321, 'M': 1, 'K': 1, 'gseed': 1, 'e1': LIN(2), 'e2': LIN(2, 0.0), 'mode': 'energy', 'seq': 0},
                {'T': 2 ** 16 + 4465, 'M': 1, 'K': 2, 'gseed': 2, 'e1': LIN(3), 'e2': LIN(1, 0.0), 'mode': 'amplitude', 'seq': 3}]

    def generate(self, rng, tier):
        for _ in range(8 if tier == 'thorough' else 1):
            base = rng.choice([2 ** 15, 2 ** 15, 2 ** 16, 2 ** 14, 50000, 2 ** 17] if tier == 'thorough' else [2 ** 15, 2 ** 14, 2 ** 16])
            yield {'T': base + rng.randint(1, base // 2), 'M': rng.choice([1, 2]), 'K': rng.choice([1, 2]), 'gseed': rng.randrange(10 ** 6),
                   'e1': LIN(rng.choice([1, 2, 3])), 'e2': LIN(rng.choice([1, 2]), 0.0), 'mode': rng.choice(_spec.MODES),
                   'seq': rng.randrange(6)}

    def _data(self, case):
        g = np.random.default_rng(case['gseed'])
        T, M, K = case['T'], case['M'], case['K']
        e1, e2 = _spec.make_edges(case['e1']), _spec.make_edges(case['e2'])

        def fr(e, shape):
            lo, hi = float(e[0]), float(e[-1])
            # quarter steps: interiors, every edge exactly, out of range on either side; a slow drift over the recording so that
            # the first and the last stretch of it differ in content
            v = np.round(g.uniform(lo - 1.0, hi + 1.0, size=shape) * 4) / 4
            drift = np.linspace(0.0, 1.0, shape[0]).reshape((-1,) + (1,) * (len(shape) - 1))
            return np.where(g.random(shape) < drift * 0.6, lo + 0.25, v)
        F1, F2 = fr(e1, (T, M)), fr(e2, (T, M, K))
        A2 = g.integers(0, 10, size=(T, M, K)).astype(float)
        return F1, F2, A2, e1, e2

    def impl(self, case):
        F1, F2, A2, e1, e2 = self._data(case)
        return _spec.run_holo(F1, F2, A2, e1, e2, case['mode'], seq=case.get('seq', 0))

    def ops(self, case, out):
        F1, F2, A2, e1, e2 = self._data(case)
        return [_spec.holo_coo_op(F1, F2, A2, e1, e2, case['mode'])]

    def compare(self, case, out, results):
        if isinstance(out, ImplError):
            return 'implementation raised %s' % out['error']
        return _spec.holo_compare_coo(out, results[0], 81.0 * case['M'] * case['K'])

    @guarded
    def holds(self, case, out):
        if isinstance(out, ImplError):
            return impl_error(out)
        F1, F2, A2, e1, e2 = self._data(case)
        fs = soften(_spec.holo_holds(F1, F2, A2, e1, e2, case['mode'], out))
        for f in fs:
            f.detail = 'T=%d M=%d K=%d (arrays: LongT._data of generator seed %d): %s' % (case['T'], case['M'], case['K'], case['gseed'], f.detail)
        return fs

    def tags(self, case, out):
        T = case['T']
        return ['mode=' + case['mode'], 'M=%d' % case['M'], 'K=%d' % case['K'],
                'T:' + ('<=2^15' if T <= 2 ** 15 else '2^15..2^16' if T <= 2 ** 16 else '>2^16')]

    def shrink(self, case):
        T = case['T']
        for t in (T // 2, T - T // 4, T - T // 8):
            if 1024 < t < T:
                yield dict(case, T=t)
        if case['M'] > 1:
            yield dict(case, M=1)
        if case['K'] > 1:
            yield dict(case, K=1)


# the probe of review B / Proofs/C11.lean `decRows`: with e1=[3,2,1], e2=[0,1,2], amplitude mode the full output is
# [[[0,1],[4,2]],[[0,0],[0,0]]]
DEC_DATA = {'F1': [[1.5, 2.5], [3.0, 0.5]], 'F2': [[[0.5, 1.5], [1.0, 2.0]], [[0.0, 1.2], [None, 0.1]]],
            'A2': [[[1.0, 2.0], [4.0, 8.0]], [[16.0, 32.0], [64.0, 128.0]]], 'mode': 'amplitude'}


class Malformed(Stream):
    """Rejected / degenerate inputs: the error kind (or the empty result) must agree with the model."""
    name = 'holo_malformed'

    def corpus(self):
        o = np.ones
        e1, e2 = [1.0, 2.0, 3.0, 4.0], [0.0, 1.0, 2.0]

        def c(s1, s2, s3, why, e1=e1, e2=e2):
            return {'F1': o(s1).tolist(), 'F2': o(s2).tolist(), 'A2': o(s3).tolist(), 'e1': e1, 'e2': e2,
                    'mode': 'energy', 'why': why, 'shapes': [list(s1), list(s2), list(s3)]}
        return [
            c((2, 2), (3, 2, 2), (3, 2, 2), 'T-differs'),
            c((2, 2), (2, 3, 2), (2, 3, 2), 'M-differs'),
            c((2, 2), (2, 2, 2), (2, 2, 3), 'K-differs'),
            c((2, 2), (2, 2, 3), (2, 2), 'inam2-2d'),
            c((2, 2), (2, 2), (2, 2), 'infr2-2d'),
            c((2,), (2, 3), (2, 3), 'vector-vs-2d'),
            c((2, 2), (2, 2, 2), (2, 2, 2), 'edges-not-monotone', e1=[1.0, 3.0, 2.0]),
            c((2, 2), (2, 2, 2), (2, 2, 2), 'edges-not-monotone', e2=[1.0, 3.0, 2.0]),
            c((2, 2), (2, 2, 2), (2, 2, 2), 'no-edges', e1=[]),
            c((2, 2), (2, 2, 2), (2, 2, 2), 'single-edge', e1=[1.0], e2=[1.0]),
            c((0, 2), (0, 2, 2), (0, 2, 2), 'no-samples'),
            c((2, 2), (2, 2, 1), (2, 2), 'inam2-2d-K1'),
            # decreasing edges (review B, C11): np.digitize accepts them with the mirrored convention; model: digitizeM
            dict(c((2, 2), (2, 2, 2), (2, 2, 2), 'decreasing-edges', e1=[3.0, 2.0, 1.0]), **DEC_DATA),
            dict(c((2, 2), (2, 2, 2), (2, 2, 2), 'decreasing-edges', e1=[1.0, 2.0, 3.0], e2=[2.0, 1.0, 0.0]), **DEC_DATA),
            dict(c((2, 2), (2, 2, 2), (2, 2, 2), 'decreasing-edges', e1=[3.0, 2.0, 1.0], e2=[2.0, 1.0, 0.0]), **DEC_DATA),
            dict(c((2, 2), (2, 2, 2), (2, 2, 2), 'decreasing-edges', e1=[3.0, 2.0, 2.0, 1.0], e2=[2.0, 2.0, 0.0]), **DEC_DATA),
            dict(c((2, 2), (2, 2, 2), (2, 2, 2), 'decreasing-edges', e1=[2.0, 2.0, 2.0], e2=[2.0, 1.0]), **DEC_DATA),
        ]

    def generate(self, rng, tier):
        for _ in range(80 if tier == 'thorough' else 20):
            T, M, K = rng.randint(1, 4), rng.randint(1, 3), rng.randint(1, 3)
            s1, s2, s3 = [T, M], [T, M, K], [T, M, K]
            why = rng.choice(['T-differs', 'M-differs', 'K-differs', 'infr2-2d', 'ok', 'decreasing-edges', 'decreasing-edges'])
            if why == 'T-differs':
                rng.choice([s1, s2, s3])[0] += rng.choice([1, 2])
            elif why == 'M-differs':
                rng.choice([s1, s2, s3])[1] += rng.choice([1, 2])
            elif why == 'K-differs':
                rng.choice([s2, s3])[2] += rng.choice([1, 2])
            elif why == 'infr2-2d':
                s2, s3 = s2[:2], s3[:2]
            mk = lambda s: np.array([float(rng.randint(-1, 6)) for _ in range(int(np.prod(s)))]).reshape(s).tolist()  # noqa: E731
            e1, e2 = [1.0, 2.0, 4.0, 5.0], [0.0, 3.0, 5.0]
            if why == 'decreasing-edges':
                which = rng.choice([1, 2, 3])
                e1 = e1[::-1] if which & 1 else e1
                e2 = e2[::-1] if which & 2 else e2
                if rng.random() < 0.3:
                    e1 = sorted(e1 + [rng.choice(e1)], reverse=e1[0] > e1[-1])      # a repeated edge
            yield {'F1': mk(s1), 'F2': mk(s2), 'A2': mk(s3), 'e1': e1, 'e2': e2,
                   'mode': rng.choice(_spec.MODES), 'why': why, 'seq': rng.randrange(6)}

    def _arrays(self, case):
        xs = [_spec.arr(case[k]) for k in ('F1', 'F2', 'A2')]
        if 'shapes' in case:      # JSON lists cannot carry the shape of an empty array
            xs = [x.reshape(s) for x, s in zip(xs, case['shapes'])]
        return xs

    def impl(self, case):
        F1, F2, A2 = self._arrays(case)
        return _spec.run_holo(F1, F2, A2, case['e1'], case['e2'], case['mode'], seq=case.get('seq', 0))

    def ops(self, case, out):
        F1, F2, A2 = self._arrays(case)
        return _spec.holo_ops(F1, F2, A2, case['e1'], case['e2'], case['mode'])

    MISMATCH = ('T-differs', 'M-differs', 'K-differs', 'inam2-2d', 'infr2-2d', 'inam2-2d-K1')

    def compare(self, case, out, results):
        if isinstance(out, ImplError):
            return 'implementation raised %s' % out['error']
        if case['why'] in self.MISMATCH or case['why'] in ('vector-vs-2d', 'edges-not-monotone', 'no-edges', 'single-edge', 'no-samples'):
            # input no part of C11 quantifies over: WHICH exception rejects it is not compared (for K-differs it is raised inside
            # scipy.sparse), only that model and implementation both reject / both answer
            out = dict(out)
            for (nm, _), r in zip(_spec.SQUASH, results):
                if r.status == 'err' and 'error' in out[nm]:
                    out[nm] = dict(out[nm], error=r.words[0])
                elif r.status == 'err' and case['why'] == 'no-samples' and nm == 'mean':
                    # the mean over a recording without samples is not defined by anything C11 says: an implementation may
                    # refuse it (the current one divides by zero) or return some value (NaN, zeros) - not compared
                    out[nm] = {'error': r.words[0]}
            a = out.get('again')
            if a is not None and 'error' in a:
                r = dict(zip([nm for nm, _ in _spec.SQUASH], results)).get(a.get('squash') or out['order'][0].split('/')[-1])
                if r is not None and r.status == 'err':
                    out['again'] = dict(a, error=r.words[0])
        return _spec.holo_compare(out, results, len(case['F1']), 64.0)

    @guarded
    def holds(self, case, out):
        if isinstance(out, ImplError):
            return impl_error(out)
        why = case['why']
        fs = [] if why == 'ok' else soften(_spec.modified_failures(out))     # (holo_holds reports them for 'ok')
        if why in ('T-differs', 'M-differs', 'K-differs'):
            # arrays that do not fit each other are outside the quantifier ("[T x M] and [T x M x K]") and the statement names no
            # error: any exception counts as a rejection, and an answer is a mechanism-level finding only
            for nm, _ in _spec.SQUASH:
                if 'error' not in out[nm]:
                    fs.append(Failure('mismatched-shapes-not-rejected:' + nm,
                                      'shapes %s %s %s: returned a value' % (np.shape(case['F1']), np.shape(case['F2']), np.shape(case['A2'])),
                                      literal=False))
        elif why == 'ok':
            fs += soften(_spec.holo_holds(case['F1'], case['F2'], case['A2'], case['e1'], case['e2'], case['mode'], out),
                         case['F1'], case['F2'])
        elif why == 'no-samples':
            # an empty recording (T = 0) is a degenerate member of "all [T x M] arrays": mechanism-level
            if out['none'].get('shape') != [0, len(case['e2']) - 1, len(case['e1']) - 1] or out['sum'].get('v') != [0.0] * 6:
                fs.append(Failure('no-samples-not-empty', str(out)[:300], literal=False))
        return fs

    def tags(self, case, out):
        t = ['why=' + case['why']]
        if case['why'] == 'decreasing-edges':
            t.append('outside-domain:decreasing-edges')
        if not isinstance(out, ImplError):
            t += ['%s->%s' % (nm, out[nm].get('error', 'value')) for nm, _ in _spec.SQUASH]
        return t

    def nontrivial(self, case, out):
        return case['why'] != 'ok'


class SquashOther(Stream):
    """`squash_time` values that are none of False / 'sum' / 'mean': the code falls through every branch and subscripts the
    still-sparse matrix (TypeError) — after the shape checks, np.digitize and coo_matrix, whose errors come first."""
    name = 'holo_squash_other'
    VALUES = {'True': True, '0': 0, 'None': None, 'Sum': 'Sum', 'np.False_': np.False_, '1': 1, 'empty-string': ''}

    def corpus(self):
        base = {'F1': DEC_DATA['F1'], 'F2': DEC_DATA['F2'], 'A2': DEC_DATA['A2'], 'mode': 'energy'}
        o = np.ones
        return [dict(base, e1=[1.0, 2.0, 3.0], e2=[0.0, 1.0, 2.0], why='ok'),
                dict(base, e1=[3.0, 2.0, 1.0], e2=[0.0, 1.0, 2.0], why='decreasing-edges'),
                dict(base, e1=[1.0, 3.0, 2.0], e2=[0.0, 1.0, 2.0], why='edges-not-monotone'),
                dict(base, e1=[], e2=[0.0, 1.0, 2.0], why='no-edges'),
                {'F1': o((2, 2)).tolist(), 'F2': o((3, 2, 2)).tolist(), 'A2': o((3, 2, 2)).tolist(), 'mode': 'energy',
                 'e1': [1.0, 2.0, 3.0], 'e2': [0.0, 1.0, 2.0], 'why': 'T-differs'},
                {'F1': o((2, 2)).tolist(), 'F2': o((2, 2, 2)).tolist(), 'A2': o((2, 2, 3)).tolist(), 'mode': 'energy',
                 'e1': [1.0, 2.0, 3.0], 'e2': [0.0, 1.0, 2.0], 'why': 'K-differs'}]

    def generate(self, rng, tier):
        for _ in range(40 if tier == 'thorough' else 8):
            T, M, K = rng.randint(1, 3), rng.randint(1, 3), rng.randint(1, 3)
            s1, s2, s3 = [T, M], [T, M, K], [T, M, K]
            why = rng.choice(['ok', 'ok', 'T-differs', 'K-differs', 'edges-not-monotone'])
            if why == 'T-differs':
                rng.choice([s1, s2, s3])[0] += 1
            elif why == 'K-differs':
                rng.choice([s2, s3])[2] += 1
            mk = lambda s: np.array([float(rng.randint(-1, 6)) for _ in range(int(np.prod(s)))]).reshape(s).tolist()  # noqa: E731
            yield {'F1': mk(s1), 'F2': mk(s2), 'A2': mk(s3), 'e1': [1.0, 4.0, 2.0] if why == 'edges-not-monotone' else [1.0, 2.0, 4.0],
                   'e2': [0.0, 3.0, 5.0], 'mode': rng.choice(_spec.MODES), 'why': why}

    def impl(self, case):
        from emd import spectra
        out = {}
        for lab, v in self.VALUES.items():
            try:
                spectra.holospectrum(_spec.arr(case['F1']), _spec.arr(case['F2']), _spec.arr(case['A2']),
                                     np.asarray(case['e1'], dtype=float), np.asarray(case['e2'], dtype=float),
                                     mode=case['mode'], squash_time=v)
                out[lab] = 'value'
            except Exception as e:  # noqa
                from common.framework import err_kind
                out[lab] = err_kind(e)
        return out

    def ops(self, case, out):
        from common import proto
        vecs = _spec._holo_vecs(_spec.arr(case['F1']), _spec.arr(case['F2']), _spec.arr(case['A2']), case['e1'], case['e2'])
        return [proto.op('HOLO', {'mode': case['mode'], 'squash': 'other'}, vecs)]

    def compare(self, case, out, results):
        if isinstance(out, ImplError):
            return 'implementation raised %s' % out['error']
        r = results[0]
        if r.status != 'err':
            return 'model answered %s for an unrecognised squash_time' % r.raw[:80]
        for lab, got in out.items():
            # outside the documented values: that the call is refused is compared, not the class of the exception (in the pinned
            # code a TypeError from subscripting a sparse matrix - an accident no caller may rely on)
            if got == 'value':
                return 'squash_time=%s: implementation returned a value, model err %s' % (lab, r.words[0])
        return None

    def holds(self, case, out):
        return []          # outside the documented values of squash_time: compared with the model, not judged

    def tags(self, case, out):
        t = ['why=' + case['why'], 'outside-domain:squash_time-not-False/sum/mean']
        if not isinstance(out, ImplError):
            t += sorted({'raises=' + v for v in out.values()})
        return t


STREAMS = [Exhaustive(), Single(), Large(), Typed(), LongT(), Malformed(), SquashOther()]
