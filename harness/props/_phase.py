"""Shared pieces of the C09 check: signal synthesis, oracle tables from the real library,
exact-arithmetic helpers, and the calibrated sinusoid-recovery tolerance table."""
import math

import numpy as np

from common import proto

TWO_PI = 2 * np.pi          # the double the implementation uses (1 * 2 * np.pi)
HALF_PI = np.pi / 2
METHODS = ('hilbert', 'nht', 'quad')
EPS = float(np.finfo(float).eps)


# ----------------------------------------------------------------------------- signals

def synth(spec):
    """Deterministic signal [n x ncol] from a JSON spec.

    {'n': n, 'sr': sr, 'cols': [col, ...], ['dtype': 'int']}  with col one of
      {'kind': 'sine',  'f':, 'a':, 'ph':}
      {'kind': 'chirp', 'f0':, 'f1':, 'a':, 'ph':}
      {'kind': 'amfm',  'f':, 'a':, 'ph':, 'fm':, 'depth':, 'beta':}
      {'kind': 'two',   'f':, 'a':, 'ph':, 'f2':, 'a2':}
      {'kind': 'noise', 'seed':, 'a':, 'smooth': k}       (moving-average filtered white noise)
      {'kind': 'data',  'x': [...]}                       (explicit samples; shrinking / corpus)
    """
    n, sr = int(spec['n']), float(spec['sr'])
    t = np.arange(n) / sr
    out = np.zeros((n, len(spec['cols'])))
    for j, c in enumerate(spec['cols']):
        k = c['kind']
        if k == 'sine':
            x = c['a'] * np.sin(2 * np.pi * c['f'] * t + c['ph'])
        elif k == 'chirp':
            dur = max(n / sr, 1e-12)
            inst = 2 * np.pi * (c['f0'] * t + 0.5 * (c['f1'] - c['f0']) * t * t / dur)
            x = c['a'] * np.sin(inst + c['ph'])
        elif k == 'amfm':
            env = 1 + c['depth'] * np.sin(2 * np.pi * c['fm'] * t)
            x = c['a'] * env * np.sin(2 * np.pi * c['f'] * t + c['ph'] + c['beta'] * np.sin(2 * np.pi * c['fm'] * t))
        elif k == 'two':
            x = c['a'] * np.sin(2 * np.pi * c['f'] * t + c['ph']) + c['a2'] * np.sin(2 * np.pi * c['f2'] * t)
        elif k == 'noise':
            g = np.random.default_rng(int(c['seed'])).standard_normal(n + 64)
            w = int(c.get('smooth', 1))
            if w > 1:
                g = np.convolve(g, np.ones(w) / w, mode='same')
            x = c['a'] * g[32:32 + n]
        elif k == 'data':
            x = np.array(c['x'], dtype=float)
        else:
            raise ValueError(k)
        out[:, j] = x
    if spec.get('dtype') == 'int':
        out = np.round(out)          # integer-valued samples (still float64 here: the values the model sees)
    return out


def typed(spec):
    """The array handed to the implementation: int64 when the spec asks for integer-typed IMFs."""
    x = synth(spec)
    return x.astype(np.int64) if spec.get('dtype') == 'int' else x


def is_smooth(spec):
    """Families whose analytic phase certainly moves by much less than pi per sample."""
    sr = float(spec['sr'])
    for c in spec['cols']:
        k = c['kind']
        if k == 'sine':
            fmax = c['f']
        elif k == 'chirp':
            fmax = max(c['f0'], c['f1'])
        elif k == 'amfm':
            if c['depth'] > 0.6:
                return False
            fmax = c['f'] + c['beta'] * c['fm'] + c['fm']
        else:
            return False
        if not (0 < fmax <= sr / 8):
            return False
    return True


def tolist(a):
    """ndarray -> nested lists with NaN/inf -> None (JSON-able)."""
    a = np.asarray(a)
    if a.ndim == 0:
        v = float(a)
        return v if math.isfinite(v) else None
    if a.ndim == 1:
        return [(float(v) if math.isfinite(v) else None) for v in a]
    return [tolist(r) for r in a]


def cols(a):
    """[n x c] nested list / array -> list of float columns."""
    a = np.asarray(a, dtype=float)
    if a.ndim == 1:
        a = a[:, None]
    return [a[:, j] for j in range(a.shape[1])]


# ----------------------------------------------------------------------------- oracle tables

def oracle_tables(x2d, method, smoothing=5):
    """(U, A) per column from the next-lower *public* functions of the real library.

    U: unwrapped, median-smoothed analytic angle BEFORE the quarter-cycle offset
       (phase_from_complex_signal(..., ret_phase='unwrapped', phase_jump='peak'));
    A: the instantaneous amplitude of the branch.
    """
    import emd
    from scipy import signal
    x2d = np.asarray(x2d, dtype=float)
    if method == 'hilbert':
        an = signal.hilbert(x2d, axis=0)
        A = np.abs(an)
    elif method == 'nht':
        an = signal.hilbert(emd.utils.amplitude_normalise(x2d), axis=0)
        A = upper_env(x2d)
    elif method == 'quad':
        an = emd.spectra.quadrature_transform(x2d)
        A = upper_env(x2d)
    else:
        raise ValueError(method)
    U = emd.spectra.phase_from_complex_signal(an, smoothing=smoothing, ret_phase='unwrapped', phase_jump='peak')
    return U, A


def upper_env(x2d):
    import emd
    A = np.zeros_like(x2d)
    for j in range(x2d.shape[1]):
        e = emd.sift.interp_envelope(x2d[:, j], mode='upper')
        A[:, j] = np.nan if e is None else e
    return A


# ----------------------------------------------------------------------------- exact helpers

def F(v):
    return proto.fr(v)


def fl(q):
    """Fraction -> nearest double."""
    return float(q)


def exact_wrap(x, m):
    """x - m*floor(x/m) in exact arithmetic (independent oracle for the range/congruence checks)."""
    x, m = F(x), F(m)
    return x - m * math.floor(x / m)


def circ(d, m=TWO_PI):
    """distance of d from the nearest multiple of m"""
    d = np.asarray(d, dtype=float)
    return np.abs((d + m / 2) % m - m / 2)


def model_vec(v):
    return np.array([float(q) for q in (v or [])], dtype=float)


# ----------------------------------------------------------------------------- sinusoid recovery tolerances

CYC_BANDS = (8, 16, 32, 64)       # cycles per record: [4,8) [8,16) [16,32) [32,64) [64,inf)
SPC_BANDS = (16, 24, 48, 96)      # samples per cycle: [12,16) [16,24) [24,48) [48,96) [96,inf)
STATS = ('meanF', 'medF', 'maxF', 'medA', 'maxA', 'meanP', 'medP', 'maxP')


def band(v, bs):
    for i, b in enumerate(bs):
        if v < b:
            return i
    return len(bs)


def recovery_stats(ip, iff, ia, f, a, ph, sr):
    """Errors on the interior 80 % of the record: relative frequency error (of the mean, median, max),
    relative amplitude error (median, max), circular phase error in rad (|circular mean|, median, max)."""
    n = len(ip)
    lo, hi = int(0.1 * n), int(0.9 * n)
    t = np.arange(n) / sr
    th = 2 * np.pi * f * t + ph
    iff = np.asarray(iff, dtype=float)[lo:hi]
    rf = np.abs(iff - f) / f
    ra = np.abs(np.asarray(ia, dtype=float)[lo:hi] - a) / a
    d = (np.asarray(ip, dtype=float)[lo:hi] - th[lo:hi] + np.pi) % (2 * np.pi) - np.pi      # signed, in [-pi, pi)
    dp = np.abs(d)
    meanp = abs(float(np.angle(np.mean(np.exp(1j * d)))))
    return {'meanF': float(abs(np.mean(iff) - f) / f), 'medF': float(np.median(rf)), 'maxF': float(rf.max()),
            'medA': float(np.median(ra)), 'maxA': float(ra.max()),
            'meanP': meanp, 'medP': float(np.median(dp)), 'maxP': float(dp.max())}


# Worst errors measured on the clean tree (props/_phase_table.py, written by scratch calibration from
# c09.calibrate: 40,000 random sinusoid records (seeds 1-8) plus phase sweeps at resonant samples-per-cycle
# values j/2, j/3, j/4 - where the quadrature method has systematic errors), per method x
# cycles-per-record band x samples-per-cycle band.  The check allows MARGIN x these values.
# None / missing cell = not reachable with the generator (n >= 512): falls back to the worst of the method.
# The quadrature method has systematic, phase-dependent pointwise errors when the samples-per-cycle value is (close to)
# a small rational: the instantaneous frequency then takes a few distinct values per cycle and its *median* jumps between
# clusters (measured 0.24 at 12, 14, 16 samples per cycle for particular start phases, 0.03 otherwise).  For quad the
# median statistics are therefore not checked separately (they are bounded by the max statistics); mean frequency, mean
# phase and amplitude are stable and tight for all three methods.
CHECKED = {'hilbert': STATS, 'nht': STATS, 'quad': tuple(s for s in STATS if s not in ('medF', 'medP'))}
MARGIN = 3.0
FLOOR = {'meanF': 1e-3, 'medF': 1e-3, 'maxF': 3e-3, 'medA': 1e-3, 'maxA': 3e-3, 'meanP': 1e-3, 'medP': 1e-3, 'maxP': 3e-3}
WORST = {}   # filled in below by _load_table()


def tolerance(method, cycles, spc, stat):
    cb, sb = band(cycles, CYC_BANDS), band(spc, SPC_BANDS)
    cell = WORST.get(method, {}).get((cb, sb))
    if cell is None or cell.get(stat) is None:
        vals = [c[stat] for c in WORST.get(method, {}).values() if c.get(stat) is not None]
        w = max(vals) if vals else 0.3
    else:
        w = cell[stat]
    return max(MARGIN * w, FLOOR[stat])


def _load_table():
    import os
    if os.environ.get('C09_CALIBRATE'):
        return
    from props import _phase_table
    WORST.update(_phase_table.WORST)


_load_table()
