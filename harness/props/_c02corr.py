"""C02 phase 2 — correspondence of the sift-layer model on transformed inputs.

The GNI / SIFT / MASKSIFT ops of the C04 / C01 / C07 checks are run on x, on c*x (sift_thresh scaled by |c|, as in the
theorems sift_smul / maskSift_ratio_smul_*) and on reversed x.  Two things are compared:
  (a) model vs. implementation on each transformed input (the C04 / C01 comparison itself, reused);
  (b) the model's answer for the transformed input vs. the transformed answer for x (exact rational equality for
      c = +-2^k, where the oracle tables recorded from the real code scale exactly; 1e-9 otherwise)."""
from fractions import Fraction

import numpy as np

from common import proto
from common.framework import ImplError
from props import _c02 as K
from props import _msk
from props import _sift as S
from props import c01, c04

_GNI = c04.Gni()
_SIFT = c01.SiftRun()
MAX_ITERS_FOR_CORR = 24       # the iterate table has (iterations + 4) * 3 rows of n values per transform


def to_sift_opts(o):
    so = {'stop_method': o['stop'], 'env_step_size': o['step'], 'max_iters': int(o['max_iters']),
          'interp_method': o['method'], 'pad_width': int(o['pad']), 'energy_thresh': o.get('energy')}
    if o['stop'] == 'sd':
        so['sd_thresh'] = o['sd_thresh']
    if o['stop'] == 'rilling':
        so['rilling_thresh'] = list(o['rilling'])
    return so


def transforms(case, rng_c):
    """[(tag, c or None)]: identity, one negative power of two, the negative real factor, reversal"""
    return [('id', 1.0), ('pow2', float(rng_c)), ('real', float(case['creal'][1])), ('rev', None)]


def apply(x, tf):
    tag, c = tf
    X = np.array(x, dtype=float)
    return [float(v) for v in (X[::-1] if tag == 'rev' else c * X)]


# ---------------------------------------------------------------------------------------------
# get_next_imf


def gni_impl(x, o, tfs):
    so = to_sift_opts(o)
    out = []
    for tf in tfs:
        sub = {'x': apply(x, tf), 'opts': so}
        out.append({'tf': list(tf), 'sub': sub, 'out': _GNI.impl(sub)})
    return out


def gni_ops(corr):
    ops, spans = [], []
    for e in corr:
        o = _GNI.ops(e['sub'], e['out'])
        spans.append((len(ops), len(ops) + len(o)))
        ops += o
    return ops, spans


def _vec(r, i=0):
    return [Fraction(v) for v in (r.vecs[i] or [])] if len(r.vecs) > i else []


def _same_vec(a, b, c, exact, tol, rev=False):
    """a (model answer for the transformed input) against c * b (reversed when rev)"""
    if len(a) != len(b):
        return False
    b = list(reversed(b)) if rev else b
    if exact:
        cf = Fraction(c)
        return all(u == cf * v for u, v in zip(a, b))
    return all(abs(float(u) - c * float(v)) <= tol * max(1.0, abs(c)) for u, v in zip(a, b))


def gni_compare(corr, results, scale, tie=False):
    """None | 'skip:..' | description"""
    _, spans = gni_ops(corr)
    base_r, skipped = None, None
    for e, (a, b) in zip(corr, spans):
        res = results[a:b]
        tag, c = e['tf']
        d = _GNI.compare(e['sub'], e['out'], res)
        if isinstance(d, str) and d.startswith('skip:'):
            skipped = d
            if tag == 'id':
                return d
            continue
        if d:
            return 'model vs implementation on %s: %s' % ('reversed x' if tag == 'rev' else 'c*x, c=%r' % c, d)
        if not res:
            if tag == 'id':
                return skipped
            continue
        r = res[0]
        if tag == 'id':
            base_r = r
            continue
        if base_r is None or (tie and tag != 'pow2'):
            continue        # a decision of the base run at rounding distance: only the exact (+-2^k) law is demanded of the float tables
        what = 'reversed x' if tag == 'rev' else 'c*x, c=%r' % c
        if r.status != base_r.status:
            return 'model on %s: %s, on x: %s' % (what, r.raw[:80], base_r.raw[:80])
        for key in ('exit', 'iters', 'flag'):
            if r.args.get(key) != base_r.args.get(key):
                return 'model on %s: %s=%s, on x: %s' % (what, key, r.args.get(key), base_r.args.get(key))
        if r.ok:
            cc = 1.0 if tag == 'rev' else c
            exact = tag == 'pow2'
            if not _same_vec(_vec(r), _vec(base_r), cc, exact, K.TOL * scale, rev=(tag == 'rev')):
                return 'model: get_next_imf(%s) is not %s get_next_imf(x)%s' % (
                    what, 'the reversed' if tag == 'rev' else '%r times' % c, ' exactly (rational arithmetic)' if exact else '')
    return skipped


# ---------------------------------------------------------------------------------------------
# sift


def sift_impl(x, o, tfs):
    so = to_sift_opts(o)
    thr = o.get('sift_thresh', 1e-8)
    out = []
    for tf in tfs:
        tag, c = tf
        sub = {'x': apply(x, tf), 'opts': so, 'thr': thr if tag == 'rev' else abs(c) * thr, 'cap': o.get('max_imfs')}
        out.append({'tf': list(tf), 'sub': sub, 'out': _SIFT.impl(sub)})
    return out


def sift_ops(corr):
    ops, spans = [], []
    for e in corr:
        o = _SIFT.ops(e['sub'], e['out'])
        spans.append((len(ops), len(ops) + len(o)))
        ops += o
    return ops, spans


def sift_compare(corr, results, scale, tie=False):
    _, spans = sift_ops(corr)
    base_r, skipped = None, None
    for e, (a, b) in zip(corr, spans):
        res = results[a:b]
        tag, c = e['tf']
        if not res:
            if tag == 'id':
                return 'skip:no-extractor-table'
            continue
        d = _SIFT.compare(e['sub'], e['out'], res)
        if isinstance(d, str) and d.startswith('skip:'):
            skipped = d
            if tag == 'id':
                return d
            continue
        if d:
            return 'model vs implementation on %s: %s' % ('reversed x' if tag == 'rev' else 'c*x (sift_thresh*|c|), c=%r' % c, d)
        r = res[0]
        if tag == 'id':
            base_r = r
            continue
        if base_r is None or (tie and tag != 'pow2'):
            continue
        what = 'reversed x' if tag == 'rev' else 'c*x (sift_thresh*|c|), c=%r' % c
        if r.status != base_r.status:
            return 'model on %s: %s, on x: %s' % (what, r.raw[:80], base_r.raw[:80])
        for key in ('ncols', 'exit', 'flag', 'cap', 'thr'):
            if r.args.get(key) != base_r.args.get(key):
                return 'model on %s: %s=%s, on x: %s' % (what, key, r.args.get(key), base_r.args.get(key))
        if r.ok:
            cc = 1.0 if tag == 'rev' else c
            if not _same_vec(_vec(r), _vec(base_r), cc, tag == 'pow2', K.TOL * scale, rev=(tag == 'rev')):
                return 'model: sum(cols) - x of sift(%s) is not the transformed one of sift(x)' % what
    return skipped


# ---------------------------------------------------------------------------------------------
# mask_sift (ratio amplitudes): MASKSIFT op built from the documented rule, on x and on c*x with the threshold scaled


def _mask_imf_opts(o):
    kw = K.imf_kwargs(o)
    kw['envelope_opts'] = K.env_kwargs(o)
    kw['extrema_opts'] = K.ext_kwargs(o)
    return kw


def mask_impl(x, o, base, tfs):
    """tables for the MASKSIFT op, per transform (needs the mask frequencies the base run reported)"""
    mk = o['mask']
    thr = o.get('sift_thresh', 1e-8)
    out = []
    for tag, c in tfs:
        X = c * np.array(x, dtype=float)
        try:
            sp = _msk.spec_mask_sift(X, mk['amp'], mk['mode'], list(base['freqs']), int(mk['max_imfs']) if not isinstance(mk['freqs'], list)
                                     else min(int(mk['max_imfs']), len(mk['freqs'])), abs(c) * thr, int(mk['nphases']), _mask_imf_opts(o))
        except Exception as e:  # noqa
            out.append({'tf': [tag, c], 'error': type(e).__name__})
            continue
        if sp['error']:
            out.append({'tf': [tag, c], 'error': sp['error']})
            continue
        units, stds, xs = [], [[_msk.vlist(X), float(np.std(X))]], []
        amax = 0.0
        for k, L in enumerate(sp['layers']):
            amax = max(amax, abs(L['amp']))
            for i, u in enumerate(L['units']):
                units.append([[float(L['f']), i], _msk.vlist(u)])
            for (m, arg, r, fl) in L['rows']:
                xs.append([_msk.vlist(arg), _msk.vlist(r), bool(fl)])
            if mk['mode'] == 'ratio_imf':
                stds.append([_msk.vlist(sp['cols'][k]), float(np.std(sp['cols'][k]))])
        out.append({'tf': [tag, c], 'x': _msk.vlist(X), 'units': units, 'stds': stds, 'xs': xs, 'amax': amax,
                    'thr': abs(c) * thr, 'cols': [_msk.vlist(v) for v in sp['cols']]})
    return out


def mask_ops(o, base_freqs, corr):
    mk = o['mask']
    ops = []
    for e in corr:
        if 'error' in e:
            continue
        x = e['x']
        src = 'list'
        vecs = [x, [float(v) for v in base_freqs], [float(a) for a in mk['amp']] if isinstance(mk['amp'], list) else [float(mk['amp'])]]
        for key, u in e['units']:
            vecs += [key, u]
        for a, s in e['stds']:
            vecs += [a, [s]]
        for a, r, fl in e['xs']:
            vecs += [a, r, [1 if fl else 0]]
        tol = _msk.TOL * max(1.0, _msk.max_abs(x) + e['amax'])
        args = {'cap': int(mk['max_imfs']), 'src': src, 'p': int(mk['nphases']), 'thresh': e['thr'], 'tol': tol, 'ftol': 1e-12,
                'rot': 0, 'mode': mk['mode'], 'amp': 'array' if isinstance(mk['amp'], list) else 'scalar',
                'nu': len(e['units']), 'ns': len(e['stds']), 'nx': len(e['xs'])}
        ops.append(proto.op('MASKSIFT', args, vecs))
    return ops


def mask_compare(o, corr, results, scale, tie=False):
    live = [e for e in corr if 'error' not in e]
    base_cols = None
    for e, r in zip(live, results):
        tag, c = e['tf']
        what = 'x' if tag == 'id' else 'c*x (sift_thresh*|c|), c=%r' % c
        if r.status == 'oracle-desync':
            return 'skip:mask-table-lookup'      # a masked argument of the model is not in the table within tolerance
        if not r.ok:
            return 'model on %s: %s' % (what, r.raw[:120])
        if float(r.args['margin']) < 1e-7 * max(1.0, e['thr']):
            return 'skip:near-tie on the sift threshold'
        k = int(r.args['k'])
        cols = [[Fraction(v) for v in (r.vecs[1 + j] or [])] for j in range(k)]
        tol = _msk.TOL * max(1.0, _msk.max_abs(e['x']) + e['amax'])
        if k != len(e['cols']):
            return 'model on %s: %d columns, documented rule on the real get_next_imf %d' % (what, k, len(e['cols']))
        for j in range(k):
            if not _msk.frac_close(cols[j], e['cols'][j], tol):
                return 'model on %s: column %d differs from the documented rule applied to the real get_next_imf' % (what, j)
        if tag == 'id':
            base_cols = cols
            continue
        if base_cols is None or (tie and not (tag == 'pow2' and c > 0)):
            continue
        if len(cols) != len(base_cols):
            return 'model: mask_sift(%s) has %d columns, mask_sift(x) %d' % (what, len(cols), len(base_cols))
        exact = tag == 'pow2' and c > 0
        for j in range(k):
            if not _same_vec(cols[j], base_cols[j], c, exact, K.TOL * scale):
                return 'model: column %d of mask_sift(%s) is not %r times that of mask_sift(x)%s' % (
                    j, what, c, ' exactly' if exact else '')
    return None


def is_impl_error(o):
    return isinstance(o, ImplError)
