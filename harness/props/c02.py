"""C02 — sifting commutes with rescaling, sign flip and time reversal: extrema / envelope layer (EmdModel.Extrema),
single-IMF extraction and classic sift (EmdModel.Sift), masked sift with ratio amplitudes (EmdModel.Mask)."""
import math
import time

import numpy as np

from common.framework import Failure, ImplError, Stream
from props import _c02 as K
from props import _c02corr as C
from props import _ext
from props import c05

ID = 'C02'
LEAN_MODULES = ['Proofs.C02']
REQUIRED = ['C02.findPeaks_smul_pos', 'C02.findPeaks_smul_neg', 'C02.findPeaks_reverse', 'C02.parabolic_smul',
            'C02.paddedExtrema_smul_pos', 'C02.paddedExtrema_smul_neg', 'C02.paddedExtrema_smul',
            'C02.loopTest_mirror_symmetric', 'C02.loopTest_fractional_asymmetric_witness', 'C02.padOdd_mirror_symmetric',
            'C02.paddedExtrema_reverse', 'C02.paddedExtrema_reverse_parabolic_witness',
            'C02.interpEnvelope_smul_pos', 'C02.interpEnvelope_smul_neg', 'C02.interpEnvelope_smul',
            'C02.interpEnvelope_reverse', 'C02.envelope_mean_smul',
            'C02.sdMetric_smul', 'C02.rillingStop_smul', 'C02.fixedStop_indep',
            'C02.getNextImf_smul', 'C02.getNextImf_smul_envelope', 'C02.getNextImf_reverse', 'C02.getNextImf_reverse_envelope',
            'C02.sift_smul', 'C02.sift_smul_thr_silent', 'C02.sift_smul_envelope', 'C02.sift_reverse', 'C02.sift_reverse_envelope',
            'C02.maskSift_ratio_smul_pos', 'C02.maskSift_ratio_smul_neg', 'C02.maskSift_ratio_smul_neg_cos', 'C02.maskSift_pipeline_smul']
TRUSTED = ['the theorems are about the models EmdModel.Extrema (tied to the code by the C05 ops PADEXT / ENV, here run on c*x and on reversed x), '
           'EmdModel.Sift (C04 / C01 ops GNI / SIFT) and EmdModel.Mask (C07 op MASKSIFT), the latter three run on x, on c*x with sift_thresh '
           'scaled by |c| and on reversed x; the model answers for the transformed inputs are compared with the implementation AND with the '
           'transformed model answer for x (exact rational equality for +-2^k). Oracle tables (envelopes of the real interp_envelope on each '
           'reference iterate, real get_next_imf on each residual / masked signal, np.std, energy dB) are recorded on the same run',
           'the model of get_next_imf takes envelopes as an oracle; the instance Sift.extEnv (Extrema-model envelopes) used by the *_envelope theorems '
           'is tied to the code through the ENV op only (values), the None-condition through C01.env_none / C05',
           'bit-for-bit equality for c = +-2^k is a statement about IEEE arithmetic: the theorems give exact equality in Q for every c != 0; '
           'bit-exactness is decided by the instance check only (np.array_equal, no tolerance, no skipping except the absolute sift_thresh band)',
           'near-tie guard: decision margins of the base run are measured by replaying the iterations in the harness with the public '
           'interp_envelope / sd_stop / rilling_stop / fixed_stop / energy_stop; a replay that does not reproduce the returned IMF is reported '
           '(replay-desync), not trusted',
           'mask_sift, c < 0: demanded for even nphases only (the phase set must be closed under +pi); even then it is not bit-exact '
           '(cos(t+pi) is not -cos(t) in floating point and the phase order is permuted), so it is checked within tolerance']
ASSUMPTIONS = ['padding settings: the theorems and the model ops cover pad_width 1..5 with the default np.pad rules; the instance checks of '
               'get_next_imf / sift additionally run non-default magnitude rules that are linear, odd and mirror-symmetric (mean / median over '
               '2-3 extrema, edge, reflect, symmetric) and the explicitly given odd reflection of the locations, with ONE options dictionary '
               'shared by all runs of a case (no model ops for these cases). Rules such as maximum / minimum / non-zero constant are not '
               'equivariant themselves and are outside the claim',
               'Homogeneous: scipy splrep/splev, pchip, PchipInterpolator through knots (locs, c*mags) evaluate to c times the interpolant '
               'through (locs, mags), c of either sign (validator interp_homogeneous: bit-exact for +-2^k, 1e-9 for real c)',
               'Reversible: mirroring the knots about (n-1)/2 mirrors the interpolant (validator interp_reversible, 1e-9)',
               'np.std(c*x) = |c|*np.std(x) (validator std_abs_homogeneous; used by the mask-sift law)',
               'EnergySmul / EnergyRev: the energy difference in dB is a ratio of energies (scale-free, direction-free); in floats the flag decision '
               'is guarded by its margin (energy_stop)',
               'ShiftClosed: the mask of phase i + p/2 is the negated mask of phase i — needed for c < 0, which therefore requires an even '
               'number of phases. For the documented waveform (Mask.unitOf, which the MASKSIFT op runs on) it is a theorem '
               '(C02.maskSift_ratio_smul_neg_cos / C07.mask_shift_closed) from the single oracle fact cos(2 pi (x + 1/2)) = -cos(2 pi x), '
               'validated on the cosine tables by C07 stream cos_oracle (exact in Q, rounding in floats)',
               'default loc_pad_opts / mag_pad_opts; pad_width >= 1 for the envelope laws; time reversal is claimed for unrefined (integer) '
               'extrema only: with parabolic_extrema=True the loop test max < n or min >= 0 is not mirror-symmetric '
               '(C02.paddedExtrema_reverse_parabolic_witness, reproduced on the code by corpus case x=[0,2,1,3,2])']
RULE = ('signals of order-one amplitude from 7 families (noise, random walk, multi-tone + trend, AM/FM tone, integer, quantised/plateau, '
        'short few-extrema n=5..16) x {sd, rilling, fixed} x step in {1, 1/2, 1/3, 1/4} x {splrep, pchip, mono_pchip} x pad 1..5 '
        '(parabolic refinement in 20% of the scaling cases). Every case is run at all 34 factors +-2^k, |k| <= 8 (bit-for-bit), at two '
        'random non-zero reals (one per sign, |c| log-uniform in [2^-8, 2^8]; 1e-9*max(1,|x|) after dividing by c) and time-reversed. '
        'Skipped and counted: a stop decision of the base run within 1e-7 relative of its threshold; a mismatch when two neighbouring samples '
        'of an iterate differ by < 1e-7*|x| (extrema detection at rounding distance); scale checks of sift / mask_sift when a column abs-sum '
        'lies within 2^9 of the absolute sift_thresh (columns up to that one are still compared; in addition sift / mask_sift are run with '
        'sift_thresh*|c| — the form of the theorems — and compared bit-for-bit without any band). A near tie confines the tolerance checks to the '
        'columns of the layers before it. Every signal that reaches extrema detection in the base run is inspected by the replay: inputs, '
        'masked inputs of every phase and layer, every iterate, every residual (exact ties of the raw input are preserved by rescaling and '
        'reversal and do not count; ties created by arithmetic do, e.g. the exactly flat stretches of pchip envelopes between equal knots). '
        'A case is non-trivial when the base run performs at least one envelope iteration; distinct by content hash. '
        'Verdict classes: bit-for-bit (+-2^k) verdicts of get_next_imf / sift / mask_sift are always literal; tolerance-class verdicts (real c, reversal, '
        'negative c with masks) are literal only when the replay that measures the guard band reproduces the run (otherwise mechanism-level); '
        'the extrema / envelope / oracle streams observe the mechanism below the IMFs and are mechanism-level throughout; the continue flag is not an IMF '
        '(mechanism-level). Run time is not judged: a run over 60 s, a case over 100 s (no further transformed runs) or over its 300 s budget is skipped and tagged; '
        'slow option sets (rilling / sd with step < 1; pchip without a cap) get an IMF cap in the generator.')


def _scale(x):
    return max([1.0] + [abs(float(v)) for v in x])


def _n_bucket(n):
    return 'n<=16' if n <= 16 else 'n<=64' if n <= 64 else 'n>64'


def _pow2_for(case):
    p = case.get('pow2', 'all')
    return K.POW2 if p == 'all' else [float(c) for c in p]


def _choose_pow2(rng, n, tier):
    """all 34 factors on short signals; on long ones -1 plus 7 others (keeps the thorough tier inside its budget)"""
    if n <= 64:
        return 'all'
    return [-1.0] + rng.sample([c for c in K.POW2 if c not in (1.0, -1.0)], 7)


def _shrink_signal(case):
    x = case['x']
    n = len(x)
    for cut in (n // 2, n // 4, 2, 1):
        if 0 < cut < n - 4:
            yield dict(case, x=x[cut:])
            yield dict(case, x=x[:n - cut])
    if any(v != round(v, 2) for v in x):
        yield dict(case, x=[round(v, 2) for v in x])


class _Equiv(Stream):
    """common reporting of the metamorphic streams: out = {'fails': [[kind, detail, literal]], 'skips': [kind], ...}"""
    timeout_s = 300
    LITERAL = True      # False: the stream observes a layer below the extracted IMFs (mechanism of the anchors): no verdict is literal

    def compare(self, case, out, results):
        if isinstance(out, ImplError):
            return 'skip:timeout' if out['error'] == 'Timeout' else None
        if out.get('skips') and not out.get('fails'):
            return 'skip:' + ','.join(out['skips'])
        return None

    def holds(self, case, out):
        if isinstance(out, ImplError):
            if out['error'] == 'Timeout':
                return []       # run time is not C02's subject: the case is skipped and tagged (compare -> skip:timeout)
            return [Failure('raises:' + out['error'], out['msg'], literal=self.LITERAL)]
        fs, seen = [], set()
        for entry in out.get('fails', []):
            kind, detail = entry[0], entry[1]
            lit = (entry[2] if len(entry) > 2 else True) and self.LITERAL
            if kind not in seen:
                seen.add(kind)
                fs.append(Failure(kind, detail, literal=bool(lit)))
        if out.get('desync'):
            fs.append(Failure(self.name + ':replay-desync', out['desync'], literal=False))
        return fs

    def nontrivial(self, case, out):
        return not isinstance(out, ImplError) and bool(out.get('nontrivial'))


# ---------------------------------------------------------------------------------------------
# extrema: implementation vs model on transformed inputs (C05 op PADEXT) + metamorphic instance check


def _as_impl_error(r):
    return ImplError(error=r['error'], msg=r.get('msg', '')) if isinstance(r, dict) and 'error' in r else r


def _is_timeout(r):
    return isinstance(r, dict) and r.get('error') == 'Timeout'


def _loop_tie(parab, n, *outs):
    """with parabolic refinement the re-padding loop tests fractional locations against 0 and n: a returned location at
    rounding distance from either bound makes the number of padding rounds (hence every knot and the whole envelope) a matter
    of rounding, which a real rescaling may decide differently"""
    if not parab:
        return False
    bound = 1e-9 * max(1.0, n)
    for o in outs:
        if isinstance(o, dict) and o.get('locs'):
            if any(min(abs(v), abs(v - n)) <= bound for v in o['locs']):
                return True
    return False


class ExtremaEquiv(_Equiv):
    """get_padded_extrema under the three transformations: the MECHANISM behind C02 (the statement speaks about extracted IMFs
    only; modes abs_peaks / pad 0 are not even used by a sift), so every verdict of this stream is mechanism-level"""
    name = 'extrema'
    timeout_s = 120
    LITERAL = False

    def corpus(self):
        return [
            {'x': [0, 2, 1, 3, 2], 'pad': 1, 'parab': 1, 'creal': [3.7, -0.31], 'corr': [-1.0, 2.0]},   # reversal asymmetric with refinement
            {'x': [0, 2, 1, 3, 2], 'pad': 1, 'parab': 0, 'creal': [3.7, -0.31], 'corr': [-1.0, 2.0]},
            {'x': [0, 1, 0, 2, 0, 1, 1, 0], 'pad': 1, 'parab': 0, 'creal': [1.5, -2.5], 'corr': [-2.0, 0.5]},   # plateau, 3 re-pad rounds
            {'x': [0, 1, -1, 2, 0, 1, 1, 0], 'pad': 2, 'parab': 0, 'creal': [1.5, -2.5], 'corr': [-2.0, -1.0]},
            {'x': [0, 1, 0, 1, 0], 'pad': 5, 'parab': 0, 'creal': [0.7, -0.7], 'corr': [-1.0, 256.0]},        # width clipped
            {'x': [0, 1, 0], 'pad': 2, 'parab': 0, 'creal': [0.7, -0.7], 'corr': [-1.0]},                     # None <-> None
            {'x': [0, 3, 1, 2, 0.5, 4, 1], 'pad': 3, 'parab': 1, 'creal': [0.7, -0.7], 'corr': [-1.0, 0.00390625]},
            {'x': [], 'pad': 2, 'parab': 0, 'creal': [2.5, -2.5], 'corr': [-1.0]},
            # clean-tree false alarm of a thorough sweep (seed 23): a refined location at rounding distance from 0 decides the
            # number of padding rounds differently after a real rescaling -> must be skipped as near-tie-padding-loop
            {'x': [-0.0, 0.0, -1.5, -0.5, -0.5, -1.5, -0.5, -1.0, -1.5, 0.0, -0.5], 'pad': 1, 'parab': 1,
             'creal': [0.08459926187133097, -48.601005974329475], 'corr': [-16.0, 0.0625, 128.0], 'family': 'plateau'},
        ]

    def generate(self, rng, tier):
        for _ in range(1500 if tier == 'thorough' else 160):
            fam = rng.choice(K.FAMILIES)
            n = K.few_n(rng) if fam == 'few' else rng.choice([5, 8, 16, 33, 64, 128 if tier == 'thorough' else 48])
            yield {'x': K.make_signal(rng, n, fam), 'pad': rng.choice([0, 1, 2, 3, 4, 5]), 'parab': int(rng.random() < 0.3),
                   'creal': K.real_factors(rng), 'corr': rng.sample(K.POW2, 3), 'family': fam}

    @staticmethod
    def _gpe(sig, pad, mode, parab):
        try:
            return _ext.call_gpe(sig, pad, mode, parab)
        except Exception as e:  # noqa
            return {'error': type(e).__name__}

    def impl(self, case):
        x = [float(v) for v in case['x']]
        n = len(x)
        pad, parab = case['pad'], case['parab']
        X = np.array(x, dtype=float)
        scale = _scale(x)
        # neighbouring samples at rounding distance in x or in |x| (abs_peaks / combined); exact ties survive rescaling and reversal
        gap = min(K._gap(x, scale, True), K._gap([abs(v) for v in x], scale, True)) if n > 1 else math.inf
        base = {m: self._gpe(x, pad, m, parab) for m in K.MODES}
        verdicts, corr = [], []
        ltol = K.TOL * max(1.0, n)
        for c in K.POW2 + list(case['creal']):
            exact = K.is_pow2(c)
            cx = [float(v) for v in c * X]
            label = 'extrema:scale-%s' % ('pow2' if exact else 'real')
            for m in K.MODES:
                r = self._gpe(cx, pad, m, parab)
                if c in case['corr'] or not exact:
                    corr.append({'x': cx, 'mode': m, 'out': r, 'tf': 'c=%r' % c})
                src = base[K.source_mode(m, c)]
                f = K.factor_for(m, c)
                if _is_timeout(r) or _is_timeout(src):
                    verdicts.append(('skip', label + ':timeout', ''))
                    continue
                if (r is None) != (src is None) or (isinstance(r, dict) and 'error' in r) or (isinstance(src, dict) and 'error' in src):
                    if r == src or (isinstance(r, dict) and 'error' in r and isinstance(src, dict) and 'error' in src):
                        continue
                    if not exact and gap < K.GUARD:
                        verdicts.append(('skip', label + ':near-tie-extrema', ''))
                    else:
                        verdicts.append(('fail', label + ':outcome-differs', 'c=%r mode=%s: %s vs %s of x' % (c, m, r, src)))
                    continue
                if r is None:
                    continue
                if exact or not parab:
                    lok = r['locs'] == src['locs']
                else:
                    lok = len(r['locs']) == len(src['locs']) and all(abs(a - b) <= ltol for a, b in zip(r['locs'], src['locs']))
                if not lok:
                    # with parabolic refinement the re-padding loop tests fractional locations against 0 and n: a location
                    # at rounding distance from either bound makes the number of padding rounds a matter of rounding
                    loop_tie = (not exact) and _loop_tie(parab, n, r, src)
                    if not exact and (gap < K.GUARD or loop_tie):
                        verdicts.append(('skip', label + (':near-tie-padding-loop' if loop_tie else ':near-tie-extrema'), ''))
                    else:
                        verdicts.append(('fail', label + ':locations-differ', 'c=%r mode=%s: %s, %s of x: %s'
                                         % (c, m, r['locs'][:10], K.source_mode(m, c), src['locs'][:10])))
                    continue
                if exact:
                    mok = r['mags'] == [f * v for v in src['mags']]
                else:
                    mok = all(abs(a / f - b) <= K.TOL * scale for a, b in zip(r['mags'], src['mags']))
                if not mok:
                    verdicts.append(('fail', label + (':magnitudes-not-bit-exact' if exact else ':magnitudes-differ'),
                                     'c=%r mode=%s: %s, expected %r * %s' % (c, m, r['mags'][:8], f, src['mags'][:8])))
        rev = x[::-1]
        sym = None
        for m in K.MODES:
            r = self._gpe(rev, pad, m, parab)
            corr.append({'x': rev, 'mode': m, 'out': r, 'tf': 'reverse'})
            src = base[m]
            if _is_timeout(r) or _is_timeout(src):
                verdicts.append(('skip', 'extrema:reverse:timeout', ''))
                continue
            if isinstance(r, dict) and 'error' in r or isinstance(src, dict) and 'error' in src:
                if not (isinstance(r, dict) and 'error' in r and isinstance(src, dict) and 'error' in src):
                    verdicts.append(('fail', 'extrema:reverse:outcome-differs', 'mode=%s: %s vs %s' % (m, r, src)))
                continue
            if parab:
                # not demanded (and false: C02.paddedExtrema_reverse_parabolic_witness); observed for the evidence
                if r is not None and src is not None:
                    sym = (sym is not False) and len(r['locs']) == len(src['locs'])
                continue
            if (r is None) != (src is None):
                verdicts.append(('fail', 'extrema:reverse:outcome-differs', 'mode=%s: %s vs %s' % (m, r, src)))
                continue
            if r is None:
                continue
            if r['locs'] != [n - 1 - v for v in reversed(src['locs'])]:
                verdicts.append(('fail', 'extrema:reverse:locations-not-mirrored', 'mode=%s: %s, x: %s (n=%d)' % (m, r['locs'][:10], src['locs'][:10], n)))
            elif r['mags'] != list(reversed(src['mags'])):
                verdicts.append(('fail', 'extrema:reverse:magnitudes-not-reversed', 'mode=%s: %s, x: %s' % (m, r['mags'][:10], src['mags'][:10])))
        fails, skips = K.summarise(verdicts)
        return {'fails': fails, 'skips': skips, 'corr': corr, 'nontrivial': any(base[m] is not None and 'error' not in base[m] for m in K.MODES),
                'parab_reverse_symmetric': sym, 'base': {m: base[m] for m in K.MODES} if n <= 16 else None}

    def ops(self, case, out):
        if isinstance(out, ImplError):
            return []
        return [_ext.padext_op(e['x'], case['pad'], e['mode'], case['parab']) for e in out['corr']]

    def compare(self, case, out, results):
        if isinstance(out, ImplError):
            return 'skip:timeout' if out['error'] == 'Timeout' else 'implementation raised %s' % out['error']
        single = c05.ExtremaSingle()
        skipped = None
        for e, r in zip(out['corr'], results):
            if _is_timeout(e['out']):
                skipped = 'skip:timeout'
                continue
            sub = {'x': e['x'], 'pad': case['pad'], 'mode': e['mode'], 'parab': case['parab']}
            d = single.compare(sub, _as_impl_error(e['out']), [r])
            if isinstance(d, str) and d.startswith('skip:'):
                skipped = d
            elif d:
                return '%s mode=%s: %s' % (e['tf'], e['mode'], d)
        return skipped or _Equiv.compare(self, case, out, results)

    def tags(self, case, out):
        t = ['family=' + case.get('family', 'corpus'), 'pad=%d' % case['pad'], 'parabolic=%d' % case['parab'], _n_bucket(len(case['x']))]
        if not isinstance(out, ImplError):
            t += ['skip:' + s for s in out['skips']]
            if out.get('parab_reverse_symmetric') is not None:
                t.append('observed:parabolic-reversal-%s' % ('symmetric' if out['parab_reverse_symmetric'] else 'ASYMMETRIC(not demanded)'))
        return t

    def shrink(self, case):
        return _shrink_signal(case)


# ---------------------------------------------------------------------------------------------
# envelope: implementation vs model on transformed inputs (C05 op ENV) + metamorphic instance check


class EnvelopeEquiv(_Equiv):
    """interp_envelope under the three transformations: mechanism-level like the extrema stream (the 'combined' envelope is not
    used by any sift)"""
    name = 'envelope'
    timeout_s = 120
    LITERAL = False

    def corpus(self):
        d = [0, 1, 0, 2, 0, 1, 0, 3, 1, 2, 0.5]
        return [
            {'x': d, 'method': 'splrep', 'pad': 2, 'parab': 0, 'creal': [3.7, -0.31], 'corr': [-1.0, 2.0]},
            {'x': d, 'method': 'pchip', 'pad': 1, 'parab': 0, 'creal': [3.7, -0.31], 'corr': [-4.0]},
            {'x': d, 'method': 'mono_pchip', 'pad': 3, 'parab': 1, 'creal': [3.7, -0.31], 'corr': [-1.0]},
            {'x': [0, 1, -1, 2, 0, 1, 1, 0, -2, 0], 'method': 'splrep', 'pad': 5, 'parab': 0, 'creal': [1.5, -2.5], 'corr': [-0.5]},
            {'x': [0, 1, 0], 'method': 'splrep', 'pad': 2, 'parab': 0, 'creal': [1.5, -2.5], 'corr': [-1.0]},
            # clean-tree false alarms (review C, thorough seeds 3 / 8 and the extrema-corpus signal): a refined location reflected
            # onto 0 up to rounding (-1.8e-15 for x, +8.9e-16 for c*x) gives c*x one more padding round: near-tie-padding-loop
            {'x': [-0.0, 0.0, -1.5, -0.5, -0.5, -1.5, -0.5, -1.0, -1.5, 0.0, -0.5], 'method': 'splrep', 'pad': 1, 'parab': 1,
             'creal': [0.08459926187133097, -48.601005974329475], 'corr': [-16.0], 'family': 'plateau'},
        ]

    def generate(self, rng, tier):
        for _ in range(1200 if tier == 'thorough' else 120):
            fam = rng.choice(K.FAMILIES)
            n = K.few_n(rng) if fam == 'few' else rng.choice([6, 8, 16, 33, 64, 128 if tier == 'thorough' else 48])
            yield {'x': K.make_signal(rng, n, fam), 'method': rng.choice(K.METHODS), 'pad': rng.choice([1, 2, 3, 4, 5]),
                   'parab': int(rng.random() < 0.25), 'creal': K.real_factors(rng), 'corr': rng.sample(K.POW2, 2), 'family': fam}

    @staticmethod
    def _env(sig, emode, case):
        try:
            return _ext.call_env(sig, emode, case['method'], case['pad'], case['parab'])
        except Exception as e:  # noqa
            return {'error': type(e).__name__, 'msg': str(e)[:100]}

    def impl(self, case):
        x = [float(v) for v in case['x']]
        n = len(x)
        X = np.array(x, dtype=float)
        scale = _scale(x)
        # neighbouring samples at rounding distance in x or in |x| (abs_peaks / combined); exact ties survive rescaling and reversal
        gap = min(K._gap(x, scale, True), K._gap([abs(v) for v in x], scale, True)) if n > 1 else math.inf
        base = {m: self._env(x, m, case) for m in K.EMODES}
        verdicts, corr = [], []

        def kind_of(r):
            return 'error:' + r['error'] if 'error' in r else 'none' if r.get('none') else 'env'
        for c in K.POW2 + list(case['creal']):
            exact = K.is_pow2(c)
            cx = [float(v) for v in c * X]
            label = 'envelope:scale-%s' % ('pow2' if exact else 'real')
            for m in K.EMODES:
                r = self._env(cx, m, case)
                if c in case['corr'] or not exact:
                    corr.append({'x': cx, 'emode': m, 'out': r, 'tf': 'c=%r' % c})
                src = base[K.source_mode(m, c)]
                f = K.factor_for(m, c)
                if _is_timeout(r) or _is_timeout(src):
                    verdicts.append(('skip', label + ':timeout', ''))
                    continue
                loop_tie = (not exact) and _loop_tie(case['parab'], n, r, src)
                if kind_of(r) != kind_of(src):
                    if kind_of(r).startswith('error') and kind_of(src).startswith('error'):
                        continue
                    if not exact and (gap < K.GUARD or loop_tie):
                        verdicts.append(('skip', label + (':near-tie-padding-loop' if loop_tie else ':near-tie-extrema'), ''))
                    else:
                        verdicts.append(('fail', label + ':outcome-differs', 'c=%r mode=%s: %s vs %s of x' % (c, m, kind_of(r), kind_of(src))))
                    continue
                if kind_of(r) != 'env':
                    continue
                a, b = np.array(r['env']), np.array(src['env'])
                if exact:
                    if not np.array_equal(a, f * b, equal_nan=True):
                        verdicts.append(('fail', label + ':not-bit-exact', 'c=%r mode=%s method=%s: max |env(cx)/c - env_%s(x)| = %.3g'
                                         % (c, m, case['method'], K.source_mode(m, c), float(np.nanmax(np.abs(a / f - b))))))
                elif not K.near(a / f, b, K.TOL * scale):
                    if gap < K.GUARD or loop_tie:
                        verdicts.append(('skip', label + (':near-tie-padding-loop' if loop_tie else ':near-tie-extrema'), ''))
                    else:
                        verdicts.append(('fail', label + ':differs', 'c=%r mode=%s: max dev %.3g' % (c, m, float(np.nanmax(np.abs(a / f - b))))))
        rev = x[::-1]
        for m in K.EMODES:
            r = self._env(rev, m, case)
            corr.append({'x': rev, 'emode': m, 'out': r, 'tf': 'reverse'})
            if case['parab']:
                continue       # reversal with refined locations is not demanded (see ASSUMPTIONS)
            src = base[m]
            if _is_timeout(r) or _is_timeout(src):
                verdicts.append(('skip', 'envelope:reverse:timeout', ''))
            elif kind_of(r).startswith('error') and kind_of(src).startswith('error'):
                pass
            elif kind_of(r) != kind_of(src):
                verdicts.append(('fail', 'envelope:reverse:outcome-differs', 'mode=%s: %s vs %s' % (m, kind_of(r), kind_of(src))))
            elif kind_of(r) == 'env' and not K.near(np.array(r['env'])[::-1], np.array(src['env']), K.TOL * scale):
                verdicts.append(('fail', 'envelope:reverse:differs', 'mode=%s method=%s: max |env(rev x)[::-1] - env(x)| = %.3g'
                                 % (m, case['method'], float(np.nanmax(np.abs(np.array(r['env'])[::-1] - np.array(src['env'])))))))
        fails, skips = K.summarise(verdicts)
        return {'fails': fails, 'skips': skips, 'corr': corr,
                'nontrivial': any(kind_of(base[m]) == 'env' for m in K.EMODES), 'kinds': {m: kind_of(base[m]) for m in K.EMODES}}

    def ops(self, case, out):
        if isinstance(out, ImplError):
            return []
        res = []
        for e in out['corr']:
            o = e['out']
            tab = None if ('error' in o or o.get('none')) else o['tab']
            res.append(_ext.env_op(e['x'], e['emode'], case['pad'], case['parab'], tab))
        return res

    def compare(self, case, out, results):
        if isinstance(out, ImplError):
            return 'skip:timeout' if out['error'] == 'Timeout' else 'implementation raised %s' % out['error']
        env = c05.Envelope()
        skipped = None
        for e, r in zip(out['corr'], results):
            if _is_timeout(e['out']):
                skipped = 'skip:timeout'
                continue
            sub = {'x': e['x'], 'emode': e['emode'], 'method': case['method'], 'pad': case['pad'], 'parab': case['parab']}
            d = env.compare(sub, _as_impl_error(e['out']), [r])
            if isinstance(d, str) and d.startswith('skip:'):
                skipped = d
            elif d:
                return '%s mode=%s: %s' % (e['tf'], e['emode'], d)
        return skipped or _Equiv.compare(self, case, out, results)

    def tags(self, case, out):
        t = ['family=' + case.get('family', 'corpus'), 'method=' + case['method'], 'pad=%d' % case['pad'],
             'parabolic=%d' % case['parab'], _n_bucket(len(case['x']))]
        if not isinstance(out, ImplError):
            t += ['skip:' + s for s in out['skips']]
            t += ['base-%s=%s' % (m, k) for m, k in out['kinds'].items()]
        return t

    def shrink(self, case):
        return _shrink_signal(case)


# ---------------------------------------------------------------------------------------------
# validators of the oracle hypotheses on the real scipy interpolants (and np.std)


class Oracles(_Equiv):
    """interp_homogeneous, interp_reversible, std_abs_homogeneous"""
    name = 'oracle_assumptions'
    timeout_s = 120
    LITERAL = False     # a failed validator (or an exception inside scipy) means the theorems no longer apply to the deployed
    #                     libraries: handled like a broken correspondence, never as a replayable C02 violation

    def corpus(self):
        return [{'locs': [-3, -1, 1, 3, 5, 7, 9], 'mags': [1, 1, 1, 2, 1, 1, 1], 'n': 7, 'method': m, 'creal': [3.7, -0.31]} for m in K.METHODS] + \
               [{'locs': [-2.5, -0.7, 1.1, 2.9, 4.7, 6.5], 'mags': [3.025, 3.025, 3.025, 2.0125, 2.0125, 2.0125], 'n': 5, 'method': m,
                 'creal': [3.7, -0.31]} for m in K.METHODS]

    def generate(self, rng, tier):
        for _ in range(600 if tier == 'thorough' else 90):
            k = rng.randint(4, 30)
            frac = rng.random() < 0.3
            locs, v = [], float(-rng.randint(1, 9))
            for _i in range(k):
                locs.append(v + (rng.uniform(-0.4, 0.4) if frac else 0.0))
                v += rng.randint(2, 9)
            n = max(1, int(math.floor(locs[-1])) - rng.randint(0, 2))
            fam = rng.choice(['gauss', 'levels', 'edge-replicated'])
            if fam == 'gauss':
                mags = [rng.gauss(0, 1) for _ in range(k)]
            elif fam == 'levels':
                mags = [float(rng.randint(-2, 2)) for _ in range(k)]
            else:
                core = [rng.gauss(0, 1) for _ in range(max(2, k - 4))]
                pad = (k - len(core)) // 2
                mags = [core[0]] * pad + core + [core[-1]] * (k - len(core) - pad)
            yield {'locs': locs, 'mags': mags, 'n': n, 'method': rng.choice(K.METHODS), 'creal': K.real_factors(rng), 'family': fam,
                   'fractional': int(frac)}

    def impl(self, case):
        locs = np.array(case['locs'], dtype=float)
        mags = np.array(case['mags'], dtype=float)
        n, method = case['n'], case['method']
        t = np.arange(n, dtype=float)
        scale = _scale(case['mags'])
        f0 = np.asarray(_ext.build_interp(method, locs, mags)(t), dtype=float)
        verdicts = []
        for c in K.POW2 + list(case['creal']):
            fc = np.asarray(_ext.build_interp(method, locs, c * mags)(t), dtype=float)
            if K.is_pow2(c):
                if not np.array_equal(fc, c * f0, equal_nan=True):
                    verdicts.append(('fail', 'oracle:interp-not-homogeneous-bit-exact:' + method,
                                     'c=%r: max |I(c*m)/c - I(m)| = %.3g' % (c, float(np.nanmax(np.abs(fc / c - f0))))))
            elif not K.near(fc / c, f0, K.TOL * scale):
                verdicts.append(('fail', 'oracle:interp-not-homogeneous:' + method, 'c=%r: max dev %.3g' % (c, float(np.nanmax(np.abs(fc / c - f0))))))
            s0, sc = float(np.std(mags)), float(np.std(c * mags))
            if (K.is_pow2(c) and sc != abs(c) * s0) or abs(sc / abs(c) - s0) > K.TOL * scale:
                verdicts.append(('fail', 'oracle:std-not-abs-homogeneous', 'c=%r: std(c*x)=%r, |c|*std(x)=%r' % (c, sc, abs(c) * s0)))
        mlocs = (n - 1 - locs)[::-1]
        fr = np.asarray(_ext.build_interp(method, mlocs, mags[::-1])(n - 1 - t), dtype=float)
        if not K.near(fr, f0, K.TOL * scale):
            verdicts.append(('fail', 'oracle:interp-not-reversible:' + method, 'max |I(mirror)(n-1-t) - I(t)| = %.3g' % float(np.nanmax(np.abs(fr - f0)))))
        fails, skips = K.summarise(verdicts)
        return {'fails': fails, 'skips': skips, 'nontrivial': True}

    def tags(self, case, out):
        return ['method=' + case['method'], 'mags=' + case.get('family', 'corpus'), 'fractional-knots=%d' % case.get('fractional', 0)]


# ---------------------------------------------------------------------------------------------
# get_next_imf, sift, mask_sift: metamorphic instance checks through the public API


def _opts_tags(o):
    t = ['stop=' + o['stop'], 'method=' + o['method'], 'pad=%d' % o['pad'], 'step=%.3g' % o['step'], 'parabolic=%d' % o.get('parab', 0)]
    if o.get('energy') is not None:
        t.append('energy_thresh')
    t.append('mag_pad=' + (o['mag_pad']['mode'] if o.get('mag_pad') else 'default'))
    if o.get('loc_pad'):
        t.append('loc_pad=explicit-odd-reflect')
    return t


CASE_BUDGET_S = 100.0       # wall clock per case: when exceeded no further transformed runs are started (skipped and tagged)


def _bound_work(o, n):
    """keep one case (base run + replay + ~40 transformed runs) far below its budget: slow sifts (rilling / sd with a small step
    on quantised signals: ~100 iterations x ~25 layers) get a cap on the number of IMFs (run time is not C02's subject)"""
    if o['stop'] != 'fixed' and o['step'] < 1.0:
        cap = 4 if n <= 64 else 3
        if o.get('max_imfs') is None or o['max_imfs'] > cap:
            o['max_imfs'] = cap
        if o['max_iters'] > 200:
            o['max_iters'] = 200
    if o['method'] != 'splrep' and o.get('max_imfs') is None:
        o['max_imfs'] = 8       # pchip residuals keep rounding-level extrema: such sifts end by the threshold only, after dozens of layers
    return o


def _simplify_opts(case):
    o = case['opts']
    if o.get('parab'):
        yield dict(case, opts=dict(o, parab=0))
    if o.get('energy') is not None:
        yield dict(case, opts=dict(o, energy=None))
    if o['method'] != 'splrep':
        yield dict(case, opts=dict(o, method='splrep'))
    if o['step'] != 1.0:
        yield dict(case, opts=dict(o, step=1.0))
    if o.get('loc_pad'):
        yield dict(case, opts={k: v for k, v in o.items() if k != 'loc_pad'})


class GniEquiv(_Equiv):
    name = 'get_next_imf'

    def corpus(self):
        few = [0.0, 1.0, -0.5, 0.75, -1.0, 0.5, 0.0]
        sd = {'stop': 'sd', 'step': 1.0, 'method': 'splrep', 'pad': 2, 'parab': 0, 'sd_thresh': 0.1, 'max_iters': 1000}
        return [
            {'x': few, 'opts': sd, 'creal': [3.7, -0.31]},
            {'x': few, 'opts': dict(sd, stop='fixed', max_iters=3, method='pchip', pad=1), 'creal': [3.7, -0.31]},
            {'x': few, 'opts': dict(sd, stop='rilling', rilling=[0.05, 0.5, 0.05], method='mono_pchip', step=0.5), 'creal': [3.7, -0.31]},
            {'x': [0.0, 1.0, 0.0], 'opts': sd, 'creal': [3.7, -0.31]},                                      # no extrema: returns its input
            {'x': [math.sin(0.9 * i) + 0.02 * i for i in range(24)], 'opts': dict(sd, max_iters=2, sd_thresh=0.001), 'creal': [3.7, -0.31]},  # EMDSiftCovergeError
            {'x': [math.sin(0.9 * i) + 0.5 * math.sin(0.21 * i) for i in range(40)], 'opts': dict(sd, parab=1, energy=50.0), 'creal': [3.7, -0.31]},
            # "every padding setting" (round-3 seeded change: the caller's pad-option dictionary lost its 'mode' after the first envelope,
            # so peaks and troughs / first and later calls were padded by different rules): non-default magnitude padding, one shared dict
            {'x': [math.sin(0.9 * i) + 0.5 * math.sin(0.21 * i) + 0.3 * math.sin(0.05 * i * i / 40) for i in range(40)],
             'opts': dict(sd, mag_pad={'mode': 'mean', 'stat_length': 3}), 'creal': [3.7, -0.31], 'family': 'corpus-padmode'},
            {'x': [math.sin(0.9 * i) + 0.5 * math.sin(0.21 * i) + 0.3 * math.sin(0.05 * i * i / 40) for i in range(40)],
             'opts': dict(sd, stop='fixed', max_iters=3, pad=3, mag_pad={'mode': 'reflect'}, loc_pad={'mode': 'reflect', 'reflect_type': 'odd'}),
             'creal': [3.7, -0.31], 'family': 'corpus-padmode'},
        ]

    def generate(self, rng, tier):
        from props import _sift as S
        for _ in range(80 if tier == 'thorough' else 10):
            xo = S.gen_vanishing(rng)       # extrema vanish after >= 1 mean removals (the rare exit path)
            if xo is not None:
                so = xo[1]
                o = {'stop': so['stop_method'], 'step': float(so['env_step_size']), 'method': so['interp_method'], 'pad': so['pad_width'],
                     'parab': 0, 'max_iters': so['max_iters']}
                if o['stop'] == 'sd':
                    o['sd_thresh'] = so['sd_thresh']
                if o['stop'] == 'rilling':
                    o['rilling'] = list(so['rilling_thresh'])
                if so.get('energy_thresh') is not None:
                    o['energy'] = float(so['energy_thresh'])
                yield {'x': [float(v) for v in xo[0]], 'opts': o, 'creal': K.real_factors(rng), 'pow2': 'all',
                       'corr_c': -2.0 ** rng.randint(-8, 8), 'family': 'vanishing'}
        for _ in range(1500 if tier == 'thorough' else 150):
            fam = rng.choice(K.FAMILIES)
            n = K.few_n(rng) if fam == 'few' else rng.choice([8, 16, 32, 64, 64, 200 if tier == 'thorough' else 48])
            o = K.random_opts(rng)
            if rng.random() < 0.15:
                K.random_pad_opts(rng, o)
            yield {'x': K.make_signal(rng, n, fam), 'opts': o, 'creal': K.real_factors(rng),
                   'pow2': _choose_pow2(rng, n, tier), 'corr_c': -2.0 ** rng.randint(-8, 8), 'family': fam}

    RUN = staticmethod(K.run_gni)
    WHAT = 'get_next_imf'
    REVERSE = True

    def _replay(self, x, o, base, scale):
        mg = K.Margins()
        out, iters, ex = K.replay_gni(x, o, scale, mg)
        desync = None
        if out['kind'] != base['kind'] or (out['kind'] == 'error' and out['error'] != base['error']):
            desync = 'replay %s, implementation %s' % (out.get('error', 'returns'), base.get('error', 'returns'))
        elif out['kind'] == 'ok' and (not K.near(out['imf'], base['imf'], K.TOL * scale) or out['flag'] != base['flag']):
            desync = 'replay of the iterations (public interp_envelope + stop functions) differs from the returned IMF/flag'
        return desync, {'iters': [iters], 'exits': [ex]}, mg

    def _thr(self, o):
        return None

    def _scale_verdict(self, c, base, res, scale, mg, o):
        return K.verdict_scale(self.WHAT, c, base, res, scale, mg, K.is_pow2(c), thr=self._thr(o))

    def impl(self, case):
        t0 = time.time()
        K.begin_case()
        x = [float(v) for v in case['x']]
        o = case['opts']
        X = np.array(x, dtype=float)
        scale = _scale(x)
        base = self.RUN(x, o)
        if base['kind'] == 'error' and base['error'] == 'Timeout':
            return {'fails': [], 'skips': [self.WHAT + ':timeout'], 'desync': None, 'margins': K.Margins().to_json(),
                    'info': {'iters': [], 'exits': ['timeout']}, 'base': 'error:Timeout', 'nontrivial': False, 'corr': None}
        desync, info, mg = self._replay(x, o, base, scale)
        # the replay does not reproduce the run: the decision margins (the statement's own guard band) are those of another
        # trajectory, so the tolerance-class verdicts are not trusted as literal (review C, finding 11)
        margins_unknown = bool(desync)
        if desync and (mg.stop < K.GUARD or mg.ext < K.GUARD):
            desync = None       # the replay itself sits on a near tie: not reported as a desync
        verdicts = []
        late = False
        for c in _pow2_for(case) + list(case['creal']):
            if time.time() - t0 > CASE_BUDGET_S:
                late = True
                break
            res = self.RUN([float(v) for v in c * X], o)
            verdicts.append(self._scale_verdict(c, base, res, scale, mg, o))
        if self.REVERSE and not o.get('parab') and not late:
            res = self.RUN(x[::-1], o)
            verdicts.append(K.verdict_reverse(self.WHAT, base, res, scale, mg))
        if not late and time.time() - t0 <= CASE_BUDGET_S:
            verdicts += self._extra_verdicts(case, x, X, o, base, scale, mg)
        else:
            verdicts.append(('skip', self.WHAT + ':time-budget', 'transformed runs not started after %.0f s' % CASE_BUDGET_S))
        fails, skips = K.summarise(verdicts, margins_unknown)
        out = {'fails': fails, 'skips': skips, 'desync': desync, 'margins': mg.to_json(), 'info': info,
               'base': base['kind'] if base['kind'] == 'ok' else 'error:' + base['error'],
               'nontrivial': base['kind'] == 'ok' and any(e not in ('no-extrema',) for e in info['exits'][:1])}
        try:
            out['corr'] = self._corr_impl(case, x, o, base, info)
        except Exception as e:  # noqa  (a harness problem while building oracle tables is a broken correspondence, with detail)
            out['corr'] = None
            out['corr_error'] = '%s: %s' % (type(e).__name__, str(e)[:160])
        if base['kind'] == 'ok':
            out['columns'] = int(base['imf'].shape[1])
            out['flag'] = base.get('flag')
            if len(x) <= 16:
                out['imf'] = [[float(v) for v in col] for col in base['imf'].T]
        return out

    # -- model correspondence on transformed inputs (phase 2) ---------------------------------------------------
    @staticmethod
    def _corr_c(case):
        return float(case.get('corr_c', -0.5))

    def _corr_wanted(self, case, o, info):
        its = [i for i in info.get('iters', []) if i]
        return not o.get('parab') and len(case['x']) >= 3 and (max(its) if its else 0) <= C.MAX_ITERS_FOR_CORR \
            and len(its) <= 8 and not K.has_custom_pad(o)      # the models pad by the default rules only

    def _corr_impl(self, case, x, o, base, info):
        if not self._corr_wanted(case, o, info):
            return None
        return C.gni_impl(x, o, C.transforms(case, self._corr_c(case)))

    def _extra_verdicts(self, case, x, X, o, base, scale, mg):
        return []

    def _corr_ops(self, case, out):
        return C.gni_ops(out['corr'])[0]

    def _corr_compare(self, case, out, results):
        return C.gni_compare(out['corr'], results, _scale(case['x']), tie=out['margins']['first_tie'] is not None)

    def ops(self, case, out):
        if isinstance(out, ImplError) or not out.get('corr'):
            return []
        return self._corr_ops(case, out)

    def compare(self, case, out, results):
        if isinstance(out, ImplError):
            return 'skip:timeout' if out['error'] == 'Timeout' else None
        if out.get('corr_error'):
            return 'harness could not build the oracle tables for the model: ' + out['corr_error']
        d = self._corr_compare(case, out, results) if out.get('corr') else None
        if d and not d.startswith('skip:'):
            return d
        return _Equiv.compare(self, case, out, results) or d

    def tags(self, case, out):
        t = ['family=' + case.get('family', 'corpus'), _n_bucket(len(case['x']))] + _opts_tags(case['opts'])
        if isinstance(out, ImplError):
            return t + ['raises']
        t.append('model-ops=' + ('yes' if out.get('corr') else 'no'))
        t.append('base=' + out['base'])
        t += ['skip:' + s for s in out['skips']]
        for e in out['info']['exits'][:1]:
            t.append('first-extraction-exit=' + str(e))
        it = out['info']['iters'][0] if out['info']['iters'] else 0
        t.append('first-extraction-iterations=' + ('1' if it <= 1 else '2-5' if it <= 5 else '6-20' if it <= 20 else '>20'))
        if 'columns' in out and self.WHAT != 'get_next_imf':
            k = out['columns']
            t.append('imfs=' + (str(k) if k <= 6 else '7+'))
        return t

    def shrink(self, case):
        for c in _shrink_signal(case):
            yield c
        for c in _simplify_opts(case):
            yield c


class SiftEquiv(GniEquiv):
    name = 'sift'
    RUN = staticmethod(K.run_sift)
    WHAT = 'sift'

    def corpus(self):
        sd = {'stop': 'sd', 'step': 1.0, 'method': 'splrep', 'pad': 2, 'parab': 0, 'sd_thresh': 0.1, 'max_iters': 1000}
        x = [math.sin(0.9 * i) + 0.5 * math.sin(0.21 * i + 1) + 0.01 * i for i in range(48)]
        return [
            {'x': x, 'opts': sd, 'creal': [3.7, -0.31]},
            {'x': x, 'opts': dict(sd, max_imfs=2, stop='rilling', rilling=[0.05, 0.5, 0.05], method='pchip'), 'creal': [3.7, -0.31]},
            {'x': x, 'opts': dict(sd, stop='fixed', max_iters=4, method='mono_pchip', pad=1, step=0.5, max_imfs=3), 'creal': [3.7, -0.31]},
            {'x': [0.0, 1.0, -0.5, 0.75, -1.0, 0.5, 0.0], 'opts': sd, 'creal': [3.7, -0.31]},
            # the absolute threshold fires: a signal of amplitude 1e-9 ends after one column, 256 times it does not
            {'x': [1e-9 * math.sin(0.9 * i) for i in range(32)], 'opts': sd, 'creal': [3.7, -0.31]},
            # non-default magnitude padding (see the get_next_imf corpus)
            {'x': x, 'opts': dict(sd, max_imfs=3, mag_pad={'mode': 'mean', 'stat_length': 3}), 'creal': [3.7, -0.31],
             'pow2': [-1.0, 2.0, -0.125, 0.5, 256.0], 'family': 'corpus-padmode'},
        ]

    def generate(self, rng, tier):
        for _ in range(900 if tier == 'thorough' else 130):
            fam = rng.choice(K.FAMILIES)
            n = K.few_n(rng) if fam == 'few' else rng.choice([16, 32, 64, 64, 160 if tier == 'thorough' else 48])
            o = K.random_opts(rng)
            if rng.random() < 0.4:
                o['method'] = 'splrep'      # pchip envelopes are flat towards the edges: from the second layer on their residuals carry
                #                             rounding-level ties there, which confines the tolerance checks (real c, reversal) to the first layer
            o['max_imfs'] = rng.choice([None, None, 2, 3, 4, 6])
            if o['stop'] != 'fixed' and o['max_iters'] < 100:
                o['max_iters'] = 1000
            if o['max_imfs'] is None and o['method'] != 'splrep' and rng.random() < 0.7:
                o['max_imfs'] = rng.choice([3, 5, 8])      # pchip residuals keep rounding-level extrema: only the threshold ends those sifts
            if rng.random() < 0.15:
                # a vanishing threshold only together with a cap: without one a pchip sift keeps peeling rounding noise (C03's business)
                o['sift_thresh'] = rng.choice([1e-6, 1e-3] if o['max_imfs'] is None else [1e-12, 1e-6, 1e-3, 0.0])
            if rng.random() < 0.15:
                K.random_pad_opts(rng, o)
            _bound_work(o, n)
            yield {'x': K.make_signal(rng, n, fam), 'opts': o, 'creal': K.real_factors(rng), 'pow2': _choose_pow2(rng, n, tier),
                   'corr_c': -2.0 ** rng.randint(-8, 8), 'family': fam}

    def _replay(self, x, o, base, scale):
        mg = K.Margins()
        desync, (iters, exits) = K.replay_sift(x, base, o, scale, mg, K.TOL * scale)
        return desync, {'iters': iters, 'exits': exits}, mg

    def _thr(self, o):
        return o.get('sift_thresh', 1e-8)

    def _extra_verdicts(self, case, x, X, o, base, scale, mg):
        """the theorem's own form: sift(c*x, sift_thresh=|c|*thr) == c*sift(x, sift_thresh=thr), bit-for-bit, no band"""
        thr = self._thr(o)
        p2 = _pow2_for(case)
        cs = {self._corr_c(case), p2[len(case['x']) % len(p2)], p2[(7 * len(case['x']) + 3) % len(p2)]}
        if base['kind'] == 'ok' and K.band_column(base['imf'], thr) is not None:
            cs |= set(p2)
        out = []
        for c in sorted(cs):
            res = self.RUN([float(v) for v in c * X], dict(o, sift_thresh=abs(c) * thr))
            out.append(K.verdict_scale(self.WHAT, c, base, res, scale, mg, True, thr=None, cls='pow2-threshold-scaled'))
        return out

    def _corr_impl(self, case, x, o, base, info):
        if not self._corr_wanted(case, o, info) or base['kind'] != 'ok' or base['imf'].shape[1] > 6:
            return None
        tfs = [('id', 1.0), ('pow2', self._corr_c(case)), ('rev', None)]
        return C.sift_impl(x, o, tfs)

    def _corr_ops(self, case, out):
        return C.sift_ops(out['corr'])[0]

    def _corr_compare(self, case, out, results):
        return C.sift_compare(out['corr'], results, _scale(case['x']), tie=out['margins']['first_tie'] is not None)

    def tags(self, case, out):
        t = GniEquiv.tags(self, case, out)
        o = case['opts']
        t.append('max_imfs=' + str(o.get('max_imfs')))
        if 'sift_thresh' in o:
            t.append('sift_thresh=%g' % o['sift_thresh'])
        return t


class MaskEquiv(GniEquiv):
    name = 'mask_sift'
    RUN = staticmethod(K.run_mask)
    WHAT = 'mask_sift'

    def corpus(self):
        sd = {'stop': 'sd', 'step': 1.0, 'method': 'splrep', 'pad': 2, 'parab': 0, 'sd_thresh': 0.1, 'max_iters': 1000}
        x = [math.sin(0.9 * i) + 0.5 * math.sin(0.21 * i + 1) + 0.01 * i for i in range(48)]
        mk = {'amp': 1, 'mode': 'ratio_imf', 'freqs': 'zc', 'step_factor': 2, 'max_imfs': 3, 'nphases': 4}
        return [
            {'x': x, 'opts': dict(sd, mask=mk), 'creal': [3.7, -0.31], 'pow2': [-1.0, 2.0, -0.125, 256.0]},
            {'x': x, 'opts': dict(sd, mask=dict(mk, mode='ratio_sig', nphases=3, freqs=0.2)), 'creal': [3.7, -0.31], 'pow2': [-1.0, 2.0, -0.125]},
            {'x': x, 'opts': dict(sd, mask=dict(mk, amp=[2, 1.5, 1], freqs=[0.3, 0.12, 0.05], nphases=2)), 'creal': [3.7, -0.31], 'pow2': [-1.0, 0.5]},
            # past false alarm of this check: the unmasked first IMF of this quantised signal has a sample that is exactly 0 (0.25 - 0.25),
            # which sign() counts as two crossings; after rescaling by a real factor it is +-1e-19 and the 'zc' mask frequency changes
            {'x': [0.75, 0.25, 0.0, -0.25, -1.0, -0.5, 1.25, 1.5, -0.25, -1.25, -0.5, 0.25, 0.25, 0.75, 1.0, -0.5],
             'opts': {'stop': 'sd', 'step': 1.0, 'method': 'mono_pchip', 'pad': 2, 'parab': 0, 'sd_thresh': 0.2, 'max_iters': 1000,
                      'mask': {'amp': [1.0, 0.5], 'mode': 'ratio_sig', 'freqs': 'zc', 'step_factor': 2, 'max_imfs': 2, 'nphases': 1}},
             'creal': [0.010531875087092675, -2.5178259588538365], 'pow2': 'all', 'family': 'plateau'},
        ]

    def generate(self, rng, tier):
        for _ in range(160 if tier == 'thorough' else 28):
            fam = rng.choice(['noise', 'walk', 'tones', 'amfm', 'integer', 'plateau'])
            n = rng.choice([24, 32, 48, 64, 128 if tier == 'thorough' else 40])
            o = K.random_opts(rng)
            if o['stop'] != 'fixed' and o['max_iters'] < 100:
                o['max_iters'] = 1000
            o.pop('energy', None)
            k = rng.choice([2, 3, 4])
            fr = rng.choice(['zc', 'zc', 'float', 'list'])
            o['mask'] = {'amp': rng.choice([1, 2, 0.5, 1.5]) if rng.random() < 0.7 else [rng.choice([0.5, 1.0, 2.0]) for _ in range(k)],
                         'mode': rng.choice(['ratio_sig', 'ratio_imf']),
                         'freqs': 'zc' if fr == 'zc' else rng.uniform(0.1, 0.45) if fr == 'float' else [0.4 / 2 ** i for i in range(k)],
                         'step_factor': rng.choice([2, 3]), 'max_imfs': k, 'nphases': rng.choice([1, 2, 3, 4, 4, 6, 8])}
            p2 = 'all' if tier == 'thorough' and n <= 64 else [-1.0] + rng.sample([c for c in K.POW2 if abs(c) != 1.0], 9)
            yield {'x': K.make_signal(rng, n, fam), 'opts': o, 'creal': K.real_factors(rng), 'pow2': p2,
                   'corr_c': 2.0 ** rng.randint(-8, 8), 'family': fam}

    def _replay(self, x, o, base, scale):
        mg = K.Margins()
        if base['kind'] != 'ok':
            return None, {'iters': [], 'exits': ['error']}, mg
        d = K.replay_mask(x, base, o, scale, mg, K.TOL * scale)
        how = 'masked'
        if d is not None:
            # the pinned get_next_imf_mask / get_mask_freqs pass imf_opts only (a C06 matter): replay with the default
            # envelope / extrema options; whichever replay reproduces the output supplies the margins
            mg2 = K.Margins()
            if K.replay_mask(x, base, dict(o, **K.DEFAULT_ENV), scale, mg2, K.TOL * scale) is None:
                d, mg, how = None, mg2, 'masked(envelope/extrema options not forwarded)'
        return d, {'iters': [], 'exits': [how]}, mg

    def _thr(self, o):
        return o.get('sift_thresh', 1e-8)

    def _scale_verdict(self, c, base, res, scale, mg, o):
        if c > 0:
            return K.verdict_scale(self.WHAT, c, base, res, scale, mg, K.is_pow2(c), thr=self._thr(o))
        if o['mask']['nphases'] % 2:
            return ('ok', 'mask_sift:scale-negative-odd-nphases:not-demanded', '')
        # c < 0, even nphases: the law holds in exact arithmetic; in floats the masks -m_i and m_{i+p/2} differ by rounding
        return K.verdict_scale(self.WHAT, c, base, res, scale, mg, False, thr=self._thr(o), cls='negative-even-nphases')

    REVERSE = False        # the masks cos(2 pi z t + phase) are not mirror-symmetric: no reversal law is claimed for mask_sift

    def _extra_verdicts(self, case, x, X, o, base, scale, mg):
        """mask_sift(c*x, sift_thresh=|c|*thr) against c*mask_sift(x, sift_thresh=thr): the theorems' own form"""
        thr = self._thr(o)
        p2 = [c for c in _pow2_for(case)]
        cs = {abs(self._corr_c(case)), p2[len(case['x']) % len(p2)]}
        if base['kind'] == 'ok' and K.band_column(base['imf'], thr) is not None:
            cs |= set(p2)
        out = []
        for c in sorted(cs):
            res = self.RUN([float(v) for v in c * X], dict(o, sift_thresh=abs(c) * thr))
            if c > 0:
                out.append(K.verdict_scale(self.WHAT, c, base, res, scale, mg, True, thr=None, cls='pow2-threshold-scaled'))
            elif o['mask']['nphases'] % 2 == 0:
                out.append(K.verdict_scale(self.WHAT, c, base, res, scale, mg, False, thr=None,
                                           cls='negative-even-nphases-threshold-scaled'))
        return out

    def _corr_impl(self, case, x, o, base, info):
        if o.get('parab') or base['kind'] != 'ok' or len(x) > 64 or K.has_custom_pad(o):
            return None
        tfs = [('id', 1.0), ('pow2', abs(self._corr_c(case)))]
        if o['mask']['nphases'] % 2 == 0:
            tfs.append(('neg', -1.0))
        return {'freqs': base['freqs'], 'tables': C.mask_impl(x, o, base, tfs)}

    def _corr_ops(self, case, out):
        return C.mask_ops(case['opts'], out['corr']['freqs'], out['corr']['tables'])

    def _corr_compare(self, case, out, results):
        return C.mask_compare(case['opts'], out['corr']['tables'], results, _scale(case['x']), tie=out['margins']['first_tie'] is not None)

    def tags(self, case, out):
        t = GniEquiv.tags(self, case, out)
        mk = case['opts']['mask']
        t += ['amp_mode=' + mk['mode'], 'nphases=%d%s' % (mk['nphases'], '(even)' if mk['nphases'] % 2 == 0 else '(odd: c<0 not demanded)'),
              'mask_freqs=' + ('zc' if mk['freqs'] == 'zc' else 'float' if isinstance(mk['freqs'], float) else 'list'),
              'mask_amp=' + ('list' if isinstance(mk['amp'], list) else 'scalar')]
        if not isinstance(out, ImplError) and out['info']['exits']:
            t.append('replay=' + out['info']['exits'][0])
        return [x for x in t if not x.startswith('first-extraction')]

    def nontrivial(self, case, out):
        return not isinstance(out, ImplError) and out.get('base') == 'ok'


STREAMS = [ExtremaEquiv(), EnvelopeEquiv(), Oracles(), GniEquiv(), SiftEquiv(), MaskEquiv()]
