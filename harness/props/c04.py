"""C04 — single-IMF extraction obeys its stopping rule and always terminates."""
import math

import numpy as np

from common import proto
from common.framework import Failure, ImplError, Stream, err_kind
from props import _sift as S

ID = 'C04'
LEAN_MODULES = ['Proofs.C04']
REQUIRED = ['C04.run_spec', 'C04.spec_unique', 'C04.iter_succ', 'C04.exit_within_limit', 'C04.stopped_full_mean', 'C04.fixed_count',
            'C04.fixed_never_convergeError', 'C04.convergeError_iff', 'C04.flag_false_iff', 'C04.energy_flag',
            'C04.result_length', 'C04.budget_pos_iff', 'C04.fixed_zero_iters_model_convergeError', 'C04.iter_eq_iterate',
            'C04.stopped_indep_of_rule', 'C04.sdStop_iff', 'C04.rillingExceeds_iff_ratio', 'C04.rillingStop_iff',
            'C04.rillingStop_iff_fraction', 'C04.fixedStop_iff', 'C04.stopTest_dispatch', 'C04.energyFlag_false_iff',
            'C04.flag_iff_energy']
TRUSTED = ['envelope values are an oracle: the table handed to the model holds the upper/lower envelopes returned by the real '
           'public emd.sift.interp_envelope on the float64 iterates h_{k+1} = h_k - step*mean (computed by the harness); the model '
           'recomputes every iterate exactly and rejects the table (oracle-desync) when it drifts by more than 1e-9*max(1,|x|)',
           'the dB value of the energy test is an oracle (log10): taken from the real public emd.sift.energy_stop; +-inf/nan are '
           'sent as +-1e300',
           'float comparisons of the stop rules are compared with exact rational comparisons; cases whose smallest relative '
           'decision margin is below 1e-7 are skipped and counted']
ASSUMPTIONS = ['an envelope is None iff the iterate has fewer than two strict interior maxima / minima (checked per visited '
               'iterate against the model\'s own count: field envdis of the GNI answer)',
               'fixed stopping rule is used with max_iters >= 1 (max_iters = 0 does not terminate in the code; outside the documented range)',
               '"bounded by the configured iteration limit" is read as: the convergence error is due after max_iters or after max_iters + 1 '
               'iterations (the code performs max_iters + 1 for the sd / rilling rules; model and reference table follow the code): an exit the '
               'reference reaches in iteration max_iters + 1 exactly may equally be the convergence error (tag '
               'exit-in-iteration-max_iters+1(error-equally-accepted)); an error at an exit in iteration <= max_iters, or a returned '
               'component when no rule fired within max_iters + 1 iterations, is a failure',
               'NOT JUDGED (outside statement / quantifier; recorded as tags or mechanism-level, literal=False): the stand-alone stop '
               'functions sd_stop / rilling_stop / fixed_stop / energy_stop (stream stop_rules; fixed_stop only with 1 <= niters <= max_iters), '
               'the energy-threshold flag, invalid option values / 3-D input (stream malformed: any error, acceptance or a time-out), the '
               'layout (n,) vs (n,1) of the returned vector',
               'TOO LOOSE, noted: the reference table stops at 160 rows; for limits above that only an EARLY return (a candidate of one of '
               'the first 160 iterates although no rule fired) is detected, a late stop or a limit that is never enforced only by the '
               '10 s wall-clock budget (does-not-terminate; literal, termination being this property\'s subject)']
RULE = ('random signals of 9 families (noise, random walk, tones+trend, AM/FM, integer plateaus, constants, ramps, engineered '
        'few-extrema n=5..16, perfect IMFs) x stop rule {sd, rilling, fixed} x thresholds over their documented ranges x step in (0,1] '
        'x max_iters {1,2,3,5,10,50,1000} x interpolation {splrep,pchip,mono_pchip} x pad_width {1,2,3,5} x energy threshold '
        '{none,1,5,20,50}; plus intermittent signals (isolated spikes on low noise, amplitude bursts) under the Rilling rule, part of them '
        'rejection-sampled so that samples where the cubic-spline envelopes cross (upper < lower) decide the rule at some iterate (tag '
        'rilling-envelopes-cross); plus direct calls of the public stop functions, incl. envelope pairs crossing at a few or all samples. Non-trivial: the extraction leaves the loop after at '
        'least one completed mean removal (exit index >= 1), by the convergence error, or through the energy flag; distinct by content hash.')

IMPL_TIMEOUT = 10


def _jsonable_ref(ref):
    return {'rows': [[S.fr_list(h), None if U is None else S.fr_list(U), None if L is None else S.fr_list(L)]
                     for h, U, L in ref['rows']],
            'exit': [ref['exit'][0], ref['exit'][1], None if ref['exit'][2] is None else S.fr_list(ref['exit'][2])]
            if ref['exit'] else None,
            'margin': ref['margin'], 'truncated': ref['truncated']}


def _rows(out):
    return [(np.array(h), None if U is None else np.array(U), None if L is None else np.array(L))
            for h, U, L in out['ref']['rows']]


# ---------------------------------------------------------------------------------------------
# crossing envelopes (upper < lower somewhere): cubic-spline overshoot between sparse extrema of intermittent signals.
# The mode amplitude of the Rilling rule is |upper-lower|/2, so exactly those samples have a small amplitude, a large
# |mean|/amplitude and keep the sift going (round-2 seeded change C04-3 dropped the absolute value).

def intermittent(rng, fam, n):
    """'spikes': low-level noise with a few large isolated excursions; 'burst': noise under a strongly varying
    amplitude profile.  About 10 % of Rilling extractions on these (splrep) pass an iterate whose crossing samples
    decide the rule (measured; white noise / random walks: < 1 %)."""
    nrng = np.random.default_rng(rng.getrandbits(63))
    if fam == 'spikes':
        x = 0.05 * nrng.standard_normal(n)
        for _ in range(max(2, n // rng.choice([6, 10]))):
            x[rng.randrange(n)] += rng.choice([-1, 1]) * rng.uniform(1, 5)
        return np.round(x, 2) if rng.random() < 0.5 else x
    prof = np.exp(2 * np.sin(2 * np.pi * np.arange(n) / n * rng.uniform(1, 3) + rng.uniform(0, 6.28)))
    return nrng.standard_normal(n) * prof


def crossing(o, rows, upto):
    """'none' | 'present' | 'decisive' over the iterates rows[0..upto]: do the envelopes cross (upper < lower at some
    sample), and is there an iterate at which the Rilling rule evaluated on the non-crossing samples alone would fire
    while the rule on all samples does not."""
    sd1, sd2, tol = o['rilling_thresh']
    seen = 'none'
    for h, U, L in rows[:upto + 1]:
        if U is None or L is None:
            break
        cr = U < L
        if not cr.any():
            continue
        seen = 'present'
        a, amp = np.abs((U + L) / 2), np.abs(U - L) / 2
        every = not (np.mean(a > sd1 * amp) > tol or np.any(a > sd2 * amp))
        rest = not (np.mean((a > sd1 * amp) & ~cr) > tol or np.any((a > sd2 * amp) & ~cr))
        if rest and not every:
            return 'decisive'
    return seen


def gen_crossing(rng, nmax, tries=40):
    """Rejection-sample an intermittent signal + Rilling options whose documented iterate sequence passes an iterate
    at which the crossing samples decide (see `crossing`). None if not found."""
    for _ in range(tries):
        fam = rng.choice(['spikes', 'burst'])
        x = intermittent(rng, fam, rng.choice([n for n in (10, 12, 16, 24, 32, 48, 64, 128) if n <= nmax]))
        sd1 = rng.choice([0.05, 0.05, 0.1])
        o = {'stop_method': 'rilling', 'rilling_thresh': [sd1, rng.choice([0.5, 0.5, 1.0]), rng.choice([0.05, 0.05, 0.1])],
             'env_step_size': rng.choice([1, 1, 0.5]), 'max_iters': rng.choice([50, 50, 1000]), 'interp_method': 'splrep',
             'pad_width': rng.choice([1, 2, 2, 3]), 'energy_thresh': None}
        try:
            ref = S.reference(x, o, extra=0)
        except Exception:  # noqa
            continue
        if ref['exit'] and not ref['truncated'] and ref['margin'] >= 1e-4 and \
                crossing(o, ref['rows'], ref['exit'][1]) == 'decisive':
            return fam, x, o
    return None


class Gni(Stream):
    name = 'gni'

    def corpus(self):
        base = {'stop_method': 'sd', 'sd_thresh': 0.1, 'env_step_size': 1, 'max_iters': 1000, 'interp_method': 'splrep',
                'pad_width': 2, 'energy_thresh': None}
        c = []
        # D2 witnesses: extrema vanish after >= 1 mean removals (pinned tree cleared the continue flag)
        c.append({'x': [-0.61, -0.54, -0.88, 2.33, 1.75, 1.47, 1.42, 2.76],
                  'opts': dict(base, stop_method='rilling', rilling_thresh=[0.05, 1.0, 0.1], max_iters=50), 'family': 'corpus-d2'})
        # input without extrema: returned unmodified, flag cleared
        c.append({'x': [0.0, 1.0, 2.0, 3.0, 4.0, 5.0], 'opts': dict(base), 'family': 'corpus-ramp'})
        c.append({'x': [1.0, 1.0, 1.0, 1.0], 'opts': dict(base), 'family': 'corpus-const'})
        # D4: non-fixed rules perform max_iters+1 iterations before the convergence error
        c.append({'x': [0.3, -1.2, 0.8, -0.1, 1.7, -2.0, 0.4, 0.9, -0.6, 1.1, -1.4, 0.2], 'opts': dict(base, stop_method='rilling',
                  rilling_thresh=[0.05, 0.5, 0.05], max_iters=2), 'family': 'corpus-d4'})
        # fixed count n: exactly n iterations
        for n in (1, 2, 3):
            c.append({'x': [0.3, -1.2, 0.8, -0.1, 1.7, -2.0, 0.4, 0.9, -0.6, 1.1, -1.4, 0.2, 0.7, -0.9, 0.1, 0.5],
                      'opts': dict(base, stop_method='fixed', max_iters=n, env_step_size=0.5), 'family': 'corpus-fixed'})
        # D20: perfect IMF, zero residual energy, energy threshold given
        c.append({'x': [1.0, -1.0] * 6, 'opts': dict(base, energy_thresh=50), 'family': 'corpus-d20'})
        # crossing envelopes decide the Rilling rule at an iterate before the exit (round-2 seeded change: with the mode
        # amplitude taken without its absolute value the extraction stops early on each of these)
        ril = dict(base, stop_method='rilling', rilling_thresh=[0.05, 0.5, 0.05], max_iters=50)
        c.append({'x': [0.93, -1.0, 0.02, 0.0, 0.01, -0.02, 0.01, -0.08, -0.17, 0.02], 'opts': dict(ril, pad_width=1),
                  'family': 'corpus-crossing'})
        c.append({'x': [3.27, -0.02, 2.33, 0.13, 0.12, -0.11, -0.0, 0.04, -0.05, -0.02],
                  'opts': dict(ril, pad_width=1, env_step_size=0.5), 'family': 'corpus-crossing'})
        c.append({'x': [-0.04, 3.59, -0.02, 0.04, -0.04, -0.12, 0.04, 0.01, -0.02, 0.04, -0.14, 1.4], 'opts': dict(ril),
                  'family': 'corpus-crossing'})
        c.append({'x': [0.01, 3.74, 0.03, 0.05, 0.04, 0.04, 0.02, -0.0, -0.01, 0.01, 0.0, 0.03, -0.07, -1.56], 'opts': dict(ril),
                  'family': 'corpus-crossing'})
        # D-C04-int: the SD metric of the first iterate was evaluated in wrapping int16 arithmetic (repaired)
        c.append({'x': [88.0, -169.0, 126.0, 55.0, -71.0, 176.0, 9.0, -15.0, -78.0, 276.0, 39.0, -338.0, 205.0, -28.0, 132.0, -71.0,
                        457.0, -122.0, 13.0, 195.0], 'opts': {'stop_method': 'sd', 'sd_thresh': 0.5, 'max_iters': 50},
                  'family': 'corpus-int16', 'dtype': 'int16'})
        return c

    def generate(self, rng, tier):
        ncase = 6000 if tier == 'thorough' else 700
        for i in range(250 if tier == 'thorough' else 25):
            xo = S.gen_vanishing(rng)
            if xo is not None:
                yield {'x': S.fr_list(xo[0]), 'opts': xo[1], 'family': 'vanishing'}
        for i in range(ncase):
            fam = rng.choice(['noise', 'noise', 'walk', 'tones', 'tones', 'amfm', 'plateau', 'const', 'ramp',
                              'fewext', 'fewext', 'fewext', 'perfect'])
            nmax = 256 if tier == 'thorough' else 64
            n = rng.choice([5, 6, 8, 12, 16, 24, 32, 48, nmax]) if rng.random() < 0.8 else rng.randint(3, nmax)
            x = S.gen_signal(rng, fam, n)
            o = S.gen_opts(rng, tier, family=fam)
            if len(x) > 96 and o['max_iters'] > 50:
                o['max_iters'] = 50
            yield {'x': S.fr_list(x), 'opts': o, 'family': fam}
        # signals in very small / very large physical units (e.g. Tesla: 1e-13): the rules are ratios, no absolute scale enters
        for i in range(300 if tier == 'thorough' else 30):
            fam = rng.choice(['noise', 'walk', 'tones', 'amfm'])
            n = rng.choice([12, 16, 24, 32, 48])
            x = np.asarray(S.gen_signal(rng, fam, n), dtype=float) * rng.choice([1e-13, 1e-13, 1e-9, 1e9])
            o = S.gen_opts(rng, tier, family=fam)
            o['max_iters'] = min(o['max_iters'], 50)
            yield {'x': S.fr_list(x), 'opts': o, 'family': fam + '-units'}
        # signals stored as integers (counts, ADC units): the iteration and the stop rules are float arithmetic on their values
        for i in range(400 if tier == 'thorough' else 40):
            fam = rng.choice(['noise', 'walk', 'tones', 'amfm'])
            n = rng.choice([12, 16, 24, 32, 48])
            amp = rng.choice([30, 150, 400, 2000])
            x0 = np.asarray(S.gen_signal(rng, fam, n), dtype=float)
            x = np.clip(np.round(x0 / (np.max(np.abs(x0)) or 1.0) * amp), -32000, 32000)
            o = S.gen_opts(rng, tier, family=fam)
            o['max_iters'] = min(o['max_iters'], 50)
            yield {'x': S.fr_list(x), 'opts': o, 'family': fam + '-int', 'dtype': rng.choice(['int64', 'int32', 'int16'])}
        # intermittent signals under the Rilling rule: cubic-spline envelopes overshoot and cross (upper < lower)
        nmax = 128 if tier == 'thorough' else 48
        for i in range(80 if tier == 'thorough' else 6):
            fxo = gen_crossing(rng, nmax)
            if fxo is not None:
                yield {'x': S.fr_list(fxo[1]), 'opts': fxo[2], 'family': fxo[0]}
        for i in range(600 if tier == 'thorough' else 36):
            fam = rng.choice(['spikes', 'burst'])
            x = intermittent(rng, fam, rng.choice([12, 16, 24, 32, 48, nmax]))
            o = S.gen_opts(rng, tier, family=fam)
            if rng.random() < 0.8:
                o.pop('sd_thresh', None)
                sd1 = rng.choice([0.05, 0.05, 0.1, round(rng.uniform(0.01, 0.3), 3)])
                o.update(stop_method='rilling', interp_method=rng.choice(['splrep', 'splrep', 'splrep', 'pchip']),
                         max_iters=rng.choice([10, 50, 50]),
                         rilling_thresh=[sd1, rng.choice([0.5, 1.0, round(sd1 + rng.uniform(0.05, 1), 3)]),
                                         rng.choice([0.05, 0.1, 0.3])])
            yield {'x': S.fr_list(x), 'opts': o, 'family': fam}

    def impl(self, case):
        x, o = np.array(case['x'], dtype=float), case['opts']
        out = {}
        # "all finite signals": the same values stored as integers (int64 / int32 / int16) are handed over in that type;
        # the reference iteration below always runs on the float64 values
        xs = x
        if case.get('dtype'):
            xs = x.astype(case['dtype'])
            if not np.array_equal(xs.astype(float), x):
                raise RuntimeError('harness: case values are not representable as %s' % case['dtype'])
        try:
            with S.time_limit(IMPL_TIMEOUT):
                imf, flag = S.call_gni(xs, o)
            out['res'] = {'imf': S.fr_list(np.asarray(imf).ravel()), 'shape': list(np.asarray(imf).shape), 'flag': bool(flag)}
        except Exception as e:  # noqa
            out['res'] = {'error': err_kind(e), 'msg': str(e)[:200]}
        try:
            ref = S.reference(x, o)
            out['ref'] = _jsonable_ref(ref)
            out['edb'] = S.energy_table(x, o, ref['rows'])
        except Exception as e:  # noqa  (an envelope raised: nothing to compare against)
            out['ref_error'] = err_kind(e) + ': ' + str(e)[:200]
        return out

    def ops(self, case, out):
        if isinstance(out, ImplError) or 'ref_error' in out or out['ref']['truncated']:
            return []
        rows = _rows(out)
        return [S.gni_op(case['x'], case['opts'], {'rows': rows}, out['edb'])]

    def _zero_resid_energy(self, case, out):
        """energy threshold given and the returned component equals the input (residual energy 0)"""
        res = out['res']
        return (case['opts'].get('energy_thresh') is not None and 'imf' in res
                and np.array_equal(np.array(res['imf']), np.array(case['x'], dtype=float)))

    def compare(self, case, out, results):
        d = self._compare(case, out, results)
        if isinstance(d, str) and d.startswith('skip:') and isinstance(out, dict):
            out['_skip'] = d
        return d

    def _compare(self, case, out, results):
        if isinstance(out, ImplError):
            return 'harness impl wrapper raised %s' % out['error']
        res = out['res']
        if 'ref_error' in out:
            return None if 'error' in res else 'reference envelopes raised (%s) but get_next_imf returned' % out['ref_error']
        if out['ref']['truncated']:
            return 'skip:reference-table-too-large'
        r = results[0]
        scale = S.scale_of(case['x'])
        if r.status == 'bad-op':
            return 'model rejected the op (bad-op)'
        if r.status == 'oracle-desync':
            if 'table-too-short' in r.raw:
                return 'model continues sifting past the reference exit + 3 iterations: %s' % r.raw[:120]
            return 'oracle-desync (harness reference table inconsistent with the model iterates): %s' % r.raw[:200]
        if float(r.args['margin']) < S.TIE:
            return 'skip:near-tie'
        if int(r.args['envdis']) >= 0:
            if float(r.args['extm']) / scale < 1e-9:
                return 'skip:extrema-near-tie'
            return 'envelope None-condition differs from the model at iterate %s: %s' % (r.args['envdis'], r.raw[:160])
        if r.status == 'err':
            if res.get('error') != r.words[0]:
                return 'model: %s after %s iterations; impl: %s' % (r.words[0], r.args['iters'], _short(res))
            return None
        if 'error' in res:
            ex = out['ref']['exit']
            if res['error'] == 'EMDSiftCovergeError' and ex and ex[0] != 'err' and case['opts']['stop_method'] != 'fixed' \
                    and ex[1] == case['opts']['max_iters']:
                # the model follows the code (max_iters + 1 iterations before the error); the property leaves open whether
                # the error is due one iteration earlier
                return 'skip:exit-in-iteration-max_iters+1-raised-as-convergence-error'
            return 'model: exit=%s iters=%s; impl raised %s' % (r.args['exit'], r.args['iters'], res['error'])
        if not S.close(res['imf'], [float(v) for v in r.vecs[0]], scale):
            return 'returned component differs: model exit=%s iters=%s' % (r.args['exit'], r.args['iters'])
        if int(r.args['flag']) != int(res['flag']):
            return 'continue flag: model %s (exit=%s iters=%s), impl %s' % (r.args['flag'], r.args['exit'], r.args['iters'], res['flag'])
        return None

    def holds(self, case, out):
        if isinstance(out, ImplError):
            return [Failure('harness-crashed:' + out['error'], out.get('msg', ''))]
        res, o = out['res'], case['opts']
        x = np.array(case['x'], dtype=float)
        n = len(x)
        scale = S.scale_of(x)
        fs = []
        if res.get('error') == 'Timeout':
            return [Failure('does-not-terminate', 'no result within %ds: %s' % (IMPL_TIMEOUT, o))]
        if 'ref_error' in out:
            return []
        ref = out['ref']
        if ref['truncated'] and ref['exit'] is None and ref['margin'] >= S.TIE and 'imf' in res:
            # the reference table stops at 160 rows (limits up to 1000): within it no rule fired and envelopes existed,
            # so a returned component that is the candidate of one of these rows is an early, unconverged iterate.
            # What happens after row 160 (a late stop, a limit that is not enforced) is NOT judged here - only the
            # wall-clock budget above bounds it.
            got = np.array(res['imf'])
            if len(got) == n and np.all(np.isfinite(got)):
                why = self._diagnose(got, _rows(out), o, 'err', len(ref['rows']), scale)
                if why != 'returned-iterate-mismatch':
                    return [Failure(why, 'no documented exit within the first %d iterations, limit %d' % (len(ref['rows']), o['max_iters']))]
            return []
        if ref['truncated'] or ref['exit'] is None or ref['margin'] < S.TIE:
            return []
        kind, k, cand = ref['exit']
        rows = _rows(out)
        # "bounded by the configured iteration limit": the property does not say whether the error is due after
        # max_iters or after max_iters + 1 iterations (the code performs max_iters + 1 for the sd / rilling rules, which
        # is what the reference table follows). An exit that the reference reaches in iteration max_iters + 1 exactly
        # may therefore equally be the convergence error.
        at_limit = o['stop_method'] != 'fixed' and kind != 'err' and k + 1 == o['max_iters'] + 1
        if 'error' in res:
            if res['error'] == 'EMDSiftCovergeError':
                if kind != 'err' and not at_limit:
                    fs.append(Failure('converge-error-although-rule-satisfied-within-limit',
                                      'documented rule %s in iteration %d <= max_iters=%d' % (kind, k + 1, o['max_iters'])))
                elif o['stop_method'] == 'fixed':
                    fs.append(Failure('converge-error-with-fixed-rule', ''))
            else:
                fs.append(Failure('raises:' + res['error'], res.get('msg', '')))
            return fs
        imf = np.array(res['imf'])
        if res['shape'] not in ([n, 1], [n]):       # the layout of the returned vector is not the property's subject
            fs.append(Failure('wrong-shape', 'returned %s for %d samples' % (res['shape'], n)))
            return fs
        if not np.all(np.isfinite(imf)):
            fs.append(Failure('non-finite-output', ''))
            return fs
        if kind == 'err':
            fs.append(Failure('returns-unconverged-iterate', 'no rule fired and envelopes existed for %d iterations, '
                              'limit %d, but a component was returned' % (k + 1, o['max_iters'])))
            return fs
        if not S.close(imf, cand, scale):
            fs.append(Failure(self._diagnose(imf, rows, o, kind, k, scale), 'expected exit %s at iterate %d' % (kind, k)))
            return fs
        # flag
        exp_flag = True if kind == 'stop' else (k != 0)
        if o.get('energy_thresh') is not None and exp_flag:
            db = S.energy_oracle(x, imf)
            thr = o['energy_thresh']
            if math.isnan(db):
                pass
            elif math.isinf(db) or abs(db - thr) > 1e-6 * max(1, abs(thr)):
                if db > thr:
                    exp_flag = False
                if exp_flag != res['flag']:
                    # the energy threshold is in neither the statement nor the quantifier (anchors only): mechanism-level
                    fs.append(Failure('energy-flag-wrong' + (':zero-residual-energy' if math.isinf(db) else ''),
                                      'energy difference %.6g dB, threshold %s, flag %s' % (db, thr, res['flag']), literal=False))
                return fs
            else:
                return fs
        if res['flag'] != exp_flag:
            if kind == 'noext' and k >= 1:
                fs.append(Failure('flag-cleared-on-modified-iterate',
                                  'envelopes vanished after %d mean removals; returned iterate differs from the input but '
                                  'is flagged as the final residual' % k))
            elif kind == 'noext':
                fs.append(Failure('flag-kept-on-input-without-extrema', ''))
            else:
                fs.append(Failure('flag-cleared-on-regular-stop', 'rule fired at iterate %d' % k))
        return fs

    def _diagnose(self, imf, rows, o, kind, k, scale):
        step = o['env_step_size']
        for j, (h, U, L) in enumerate(rows):
            if U is None or L is None:
                if S.close(imf, h, scale):
                    return 'returned-iterate-mismatch:no-extrema-iterate-%s' % ('early' if j < k else 'late')
                continue
            avg = np.mean([U, L], axis=0)
            if S.close(imf, h - avg, scale):
                return 'stops-at-wrong-iterate:%s' % ('early' if j < k else 'late' if j > k else 'same')
            if step != 1 and S.close(imf, h - step * avg, scale):
                return 'step-applied-to-returned-iterate'
            if S.close(imf, h, scale):
                return 'mean-not-removed-from-returned-iterate'
        return 'returned-iterate-mismatch'

    def tags(self, case, out):
        o = case['opts']
        t = ['family=' + case['family'], 'stop=' + o['stop_method'], 'interp=' + o['interp_method'], 'pad=%d' % o['pad_width'],
             'maxit=%d' % o['max_iters'], 'step=%s' % ('1' if o['env_step_size'] == 1 else '<1'),
             'energy=%s' % o['energy_thresh'], 'n=%s' % ('<=8' if len(case['x']) <= 8 else '<=16' if len(case['x']) <= 16 else '>16'),
             'stored-as=%s' % (case.get('dtype') or 'float64')]
        if isinstance(out, ImplError):
            return t
        if '_skip' in out:
            t.append(out['_skip'])
        if 'ref_error' in out:
            t.append('exit=reference-envelope-raises')
        elif out['ref']['exit']:
            kind, k, _ = out['ref']['exit']
            t.append('exit=%s@%s' % (kind, '0' if k == 0 else '1' if k == 1 else '2-5' if k <= 5 else '>5'))
            if o['stop_method'] != 'fixed' and kind != 'err' and k == o['max_iters']:
                t.append('exit-in-iteration-max_iters+1(error-equally-accepted)')
            if o['stop_method'] == 'rilling':
                t.append('rilling-envelopes-cross=' + crossing(o, _rows(out), k))
        if not ('ref_error' in out) and out['ref']['truncated']:
            t.append('reference-table-truncated(not-judged)')
        res = out['res']
        t.append('impl=' + (res['error'] if 'error' in res else 'flag%d' % res['flag']))
        return t

    def nontrivial(self, case, out):
        if isinstance(out, ImplError) or 'ref_error' in out or not out['ref']['exit']:
            return False
        kind, k, _ = out['ref']['exit']
        return k >= 1 or kind == 'err' or (case['opts'].get('energy_thresh') is not None and out['res'].get('flag') is False)

    def shrink(self, case):
        x, o = case['x'], case['opts']
        n = len(x)
        for cut in (n // 2, n // 4, 1):
            if 0 < cut and n - cut >= 3:
                yield dict(case, x=x[cut:])
                yield dict(case, x=x[:n - cut])
        if o.get('energy_thresh') is not None:
            yield dict(case, opts=dict(o, energy_thresh=None))
        if o['interp_method'] != 'splrep':
            yield dict(case, opts=dict(o, interp_method='splrep'))
        if o['pad_width'] != 2:
            yield dict(case, opts=dict(o, pad_width=2))
        if o['env_step_size'] != 1:
            yield dict(case, opts=dict(o, env_step_size=1))
        r = [round(v, 2) for v in x]
        if r != x:
            yield dict(case, x=r)


def _short(res):
    return res.get('error') or ('returned flag=%s' % res.get('flag'))


class StopRules(Stream):
    """Direct calls of the public stop functions sd_stop / rilling_stop / fixed_stop / energy_stop."""
    name = 'stop_rules'

    def corpus(self):
        return [
            {'rule': 'energy', 'imf': [1.0, -1.0, 1.0, -1.0], 'res': [0.0, 0.0, 0.0, 0.0], 'thresh': 50},      # D20
            {'rule': 'energy', 'imf': [0.0, 0.0, 0.0], 'res': [1.0, 2.0, 0.0], 'thresh': 50},
            {'rule': 'energy', 'imf': [3.0, -1.0, 2.0], 'res': [0.001, 0.002, 0.0], 'thresh': 50},
            {'rule': 'fixed', 'niters': 3, 'maxit': 3}, {'rule': 'fixed', 'niters': 2, 'maxit': 3},
            {'rule': 'fixed', 'niters': 1, 'maxit': 1},
            {'rule': 'rilling', 'U': [1.0, 1.0, 1.0, 1.0], 'L': [1.0, -1.0, -1.0, -1.0], 'th': [0.05, 0.5, 0.3]},  # amp = 0
            {'rule': 'rilling', 'U': [0.0, 1.0, 1.0, 1.0], 'L': [0.0, -1.0, -1.0, -1.0], 'th': [0.05, 0.5, 0.3]},  # 0/0
            {'rule': 'sd', 'h': [1.0, -1.0, 1.0], 'x1': [1.0, -1.0, 1.0], 'thr': 0.1},
            {'rule': 'sd', 'h': [0.0, 0.0, 0.0], 'x1': [0.0, 0.0, 0.0], 'thr': 0.1},
            # crossing envelopes (upper < lower at sample 2): amplitude |U-L|/2 = 0.1, |mean| = 0.1, ratio 1 > sd2: no stop
            {'rule': 'rilling', 'U': [1.0, 1.0, 0.0, 1.0], 'L': [-1.0, -1.0, 0.2, -1.0], 'th': [0.05, 0.5, 0.3]},
            # crossing at 2 of 20 samples with ratio 0.2 in (sd1, sd2): fraction 0.1 > tol 0.05: no stop
            {'rule': 'rilling', 'U': [1.0] * 9 + [-0.04, -0.04] + [1.0] * 9, 'L': [-1.0] * 9 + [0.06, 0.06] + [-1.0] * 9,
             'th': [0.05, 0.5, 0.05]},
            # crossing but symmetric about zero there (mean 0): stop
            {'rule': 'rilling', 'U': [1.0, 1.0, -0.1, 1.0], 'L': [-1.0, -1.0, 0.1, -1.0], 'th': [0.05, 0.5, 0.3]},
            # upper below lower everywhere (swapped arguments): the rule depends on |U-L| only
            {'rule': 'rilling', 'U': [-1.0, -1.1, -0.9, -1.0], 'L': [1.0, 1.0, 1.0, 1.2], 'th': [0.05, 0.5, 0.3]},
            {'rule': 'rilling', 'U': [-1.0, -1.1, -0.9, -0.2], 'L': [1.0, 1.0, 1.0, 1.2], 'th': [0.05, 0.5, 0.3]},
        ]

    def generate(self, rng, tier):
        ncase = 3000 if tier == 'thorough' else 400
        for i in range(ncase):
            rule = rng.choice(['sd', 'rilling', 'fixed', 'energy'])
            n = rng.randint(3, 40)
            nrng = np.random.default_rng(rng.getrandbits(63))
            if rule == 'sd':
                h = nrng.standard_normal(n)
                x1 = h - nrng.standard_normal(n) * rng.choice([0.01, 0.1, 0.3, 1])
                yield {'rule': 'sd', 'h': S.fr_list(h), 'x1': S.fr_list(x1), 'thr': rng.choice([0.1, 0.2, 0.05, 0.01, 0.5])}
            elif rule == 'rilling':
                base = nrng.standard_normal(n) * rng.choice([0.01, 0.05, 0.2])
                amp = np.abs(nrng.standard_normal(n)) + rng.choice([0, 0.5])
                if rng.random() < 0.2:
                    amp[rng.randrange(n)] = 0.0
                yield {'rule': 'rilling', 'U': S.fr_list(base + amp), 'L': S.fr_list(base - amp),
                       'th': [rng.choice([0.05, 0.1, 0.02]), rng.choice([0.5, 0.3, 1.0]), rng.choice([0.05, 0.1, 0.25, 0.5])]}
            elif rule == 'fixed':
                # the documented use: iteration counter 1..max_iters of an extraction with a limit >= 1 (a counter past
                # the limit or a limit of 0 is never produced by get_next_imf and not in the quantifier)
                mx = rng.randint(1, 12)
                yield {'rule': 'fixed', 'niters': mx if rng.random() < 0.4 else rng.randint(1, mx), 'maxit': mx}
            else:
                imf = nrng.standard_normal(n) * rng.choice([1, 10, 1e-3])
                res = nrng.standard_normal(n) * rng.choice([1, 1e-2, 1e-4, 0])
                yield {'rule': 'energy', 'imf': S.fr_list(imf), 'res': S.fr_list(res), 'thresh': rng.choice([50, 20, 5, 80])}
        # Rilling rule on envelope pairs that cross (upper < lower) at a few samples: the mode amplitude there is
        # |upper-lower|/2; the mean at those samples is placed below sd1, between sd1 and sd2, or above sd2 times it
        for i in range(1500 if tier == 'thorough' else 200):
            n = rng.randint(4, 40)
            nrng = np.random.default_rng(rng.getrandbits(63))
            th = [rng.choice([0.05, 0.1, 0.02]), rng.choice([0.5, 0.3, 1.0]), rng.choice([0.05, 0.1, 0.25, 0.5])]
            amp = np.abs(nrng.standard_normal(n)) + 0.5
            base = nrng.standard_normal(n) * amp * rng.choice([0.0, 0.01, 0.03])      # elsewhere: ratio mostly below sd1
            ncr = n if rng.random() < 0.1 else rng.randint(1, max(1, n // 4))
            for j in rng.sample(range(n), ncr):
                amp[j] = -abs(float(nrng.standard_normal())) * rng.choice([0.01, 0.1, 1]) - 1e-3
                ratio = rng.choice([0.0, 0.5 * th[0], 0.5 * (th[0] + th[1]), 2 * th[1], 10 * th[1]])
                base[j] = rng.choice([-1, 1]) * ratio * abs(amp[j])
            yield {'rule': 'rilling', 'U': S.fr_list(base + amp), 'L': S.fr_list(base - amp), 'th': th}

    def impl(self, case):
        import emd
        r = case['rule']
        if r == 'sd':
            stop, metric = emd.sift.sd_stop(np.array(case['h'])[:, None], np.array(case['x1'])[:, None], sd=case['thr'])
            return {'stop': bool(stop)}
        if r == 'rilling':
            stop, metric = emd.sift.rilling_stop(np.array(case['U']), np.array(case['L']), sd1=case['th'][0],
                                                 sd2=case['th'][1], tol=case['th'][2])
            return {'stop': bool(stop)}
        if r == 'fixed':
            return {'stop': bool(emd.sift.fixed_stop(case['niters'], case['maxit']))}
        outs = [emd.sift.energy_stop(np.array(case['imf'])[:, None], np.array(case['res'])[:, None], thresh=case['thresh'])
                for _ in range(3)]
        return {'stop': bool(outs[0][0]), 'db': [float(o[1]) if np.isfinite(o[1]) else repr(float(o[1])) for o in outs],
                'stops': [bool(o[0]) for o in outs]}

    def ops(self, case, out):
        r = case['rule']
        if r == 'sd':
            return [proto.op('STOP', {'stop': 'sd', 'thr': case['thr'], 'niters': 1, 'maxit': 1},
                             [case['h'], case['x1'], [], []])]
        if r == 'rilling':
            return [proto.op('STOP', {'stop': 'rilling', 'sd1': case['th'][0], 'sd2': case['th'][1], 'rtol': case['th'][2],
                                      'niters': 1, 'maxit': 1}, [[], [], case['U'], case['L']])]
        if r == 'fixed':
            return [proto.op('STOP', {'stop': 'fixed', 'niters': case['niters'], 'maxit': case['maxit']}, [[], [], [], []])]
        return []

    def compare(self, case, out, results):
        if case['rule'] == 'energy':
            return None
        if isinstance(out, ImplError):
            return 'implementation raised %s; model: %s' % (out['error'], results[0].raw[:80])
        r = results[0]
        if not r.ok:
            return 'model: %s' % r.raw[:80]
        if float(r.args['margin']) < S.TIE:
            return 'skip:near-tie'
        if int(r.args['stop']) != int(out['stop']):
            return '%s: model stop=%s impl stop=%s' % (case['rule'], r.args['stop'], out['stop'])
        return None

    def holds(self, case, out):
        # The property's words are about get_next_imf (stream gni). The stand-alone stop functions are its anchored
        # mechanism: their call signatures, the dB convention of the energy test and their behaviour on inputs an
        # extraction never produces (zero amplitude, upper below lower everywhere) are checked here as mechanism-level
        # facts (literal=False: a broken correspondence, never a violation with this input as replay).
        fs = self._holds(case, out)
        for f in fs:
            f.literal = False
        return fs

    def _holds(self, case, out):
        if isinstance(out, ImplError):
            return [Failure('raises:' + out['error'], out['msg'])]
        r = case['rule']
        if r == 'energy':
            db = S.energy_oracle(np.array(case['imf']) + np.array(case['res']), np.array(case['imf']))
            # energy_stop(imf, residue): energy of `imf` against energy of `residue`
            ei, er = float(np.sum(np.array(case['imf']) ** 2)), float(np.sum(np.array(case['res']) ** 2))
            if ei > 0 and er > 0:
                db = 20 * (math.log10(ei) - math.log10(er))
            elif ei > 0:
                db = math.inf
            elif er > 0:
                db = -math.inf
            else:
                db = math.nan
            fs = []
            if len(set(out['stops'])) > 1 or len(set(map(str, out['db']))) > 1:
                fs.append(Failure('energy-stop-not-repeatable', 'three identical calls returned %s / %s' % (out['stops'], out['db'])))
            if math.isnan(db):
                exp = False
            elif math.isinf(db):
                exp = db > 0
            elif abs(db - case['thresh']) < 1e-6:
                return fs
            else:
                exp = db > case['thresh']
                got = out['db'][0]
                if not isinstance(got, float) or abs(got - db) > 1e-6 * max(1, abs(db)):
                    fs.append(Failure('energy-difference-wrong', 'expected %.9g dB, got %s' % (db, got)))
            if out['stop'] != exp:
                kind = 'energy-stop-wrong' + (':zero-energy' if (math.isinf(db) or math.isnan(db)) else '')
                fs.append(Failure(kind, 'energy difference %s dB, thresh %s, stop=%s (dB reported: %s)' % (db, case['thresh'], out['stop'], out['db'][0])))
            return fs
        if r == 'fixed':
            exp = case['niters'] == case['maxit']
            return [] if exp == out['stop'] else [Failure('fixed-stop-wrong', 'niters=%d max_iters=%d stop=%s' % (case['niters'], case['maxit'], out['stop']))]
        if r == 'sd':
            h, x1 = np.array(case['h']), np.array(case['x1'])
            o = {'stop_method': 'sd', 'sd_thresh': case['thr']}
            exp, m = S.stop_oracle(o, 1, h, h - x1, None, None)
        else:
            o = {'stop_method': 'rilling', 'rilling_thresh': case['th']}
            exp, m = S.stop_oracle(o, 1, None, None, np.array(case['U']), np.array(case['L']))
        if m < S.TIE or exp == out['stop']:
            return []
        return [Failure('%s-stop-wrong' % r, 'documented rule says stop=%s, function returned %s' % (exp, out['stop']))]

    def tags(self, case, out):
        t = ['rule=' + case['rule']]
        if not isinstance(out, ImplError):
            t.append('%s-stop=%d' % (case['rule'], out['stop']))
        if case['rule'] == 'rilling':
            U, L = np.array(case['U']), np.array(case['L'])
            cr = U < L
            if cr.any():
                sd1, sd2, tol = case['th']
                a, amp = np.abs((U + L) / 2), np.abs(U - L) / 2
                every = not (np.mean(a > sd1 * amp) > tol or np.any(a > sd2 * amp))
                rest = not (np.mean((a > sd1 * amp) & ~cr) > tol or np.any((a > sd2 * amp) & ~cr))
                t.append('rilling-envelopes-cross=' + ('decisive' if rest and not every else 'present'))
            else:
                t.append('rilling-envelopes-cross=none')
        return t

    def nontrivial(self, case, out):
        return not isinstance(out, ImplError) and bool(out['stop'])


class Malformed(Stream):
    """Inputs outside the documented domain (model: bad-op). Outside the property's quantifier: recorded, not judged."""
    name = 'malformed'
    parallel = False

    def corpus(self):
        x = [0.3, -1.2, 0.8, -0.1, 1.7, -2.0, 0.4, 0.9, -0.6, 1.1]
        return [{'x': x, 'kw': {'stop_method': 'foo'}}, {'x': x, 'kw': {'stop_method': 'SD'}},
                {'x': x, 'kw': {'envelope_opts': {'interp_method': 'cubic'}}},
                {'x': [[v, v] for v in x], 'kw': {}, 'threed': True}]

    def impl(self, case):
        import emd
        x = np.array(case['x'], dtype=float)
        if case.get('threed'):
            x = x[:, :, None] * np.ones((1, 1, 2))
        with S.time_limit(IMPL_TIMEOUT):
            imf, flag = emd.sift.get_next_imf(x, **case['kw'])
        return {'flag': bool(flag)}

    def ops(self, case, out):
        if 'stop_method' in case['kw']:
            return [proto.op('GNI', {'stop': case['kw']['stop_method'], 'thr': 0.1, 'step': 1, 'maxit': 10, 'ethr': 'none',
                                     'tol': 1e-9}, [case['x'], []])]
        return []

    def compare(self, case, out, results):
        if results and results[0].status != 'bad-op':
            return 'model accepted a malformed op: %s' % results[0].raw[:80]
        if not isinstance(out, ImplError):
            # the property quantifies over the documented rules / options only and is silent on what happens outside:
            # a library that, say, reads stop_method case-insensitively or adds an interpolator is not judged
            return 'skip:malformed-input-accepted(outside-the-quantifier)'
        if out['error'] == 'Timeout':
            return 'skip:malformed-input-timeout(outside-the-quantifier)'
        return None

    def holds(self, case, out):
        return []     # any error class, acceptance or a time-out: nothing is claimed outside the quantifier (tags record it)

    def tags(self, case, out):
        return ['error=' + (out['error'] if isinstance(out, ImplError) else 'none(accepted: outside the quantifier, not judged)')]

    def nontrivial(self, case, out):
        return isinstance(out, ImplError)


STREAMS = [Gni(), StopRules(), Malformed()]


def _guard(fn):
    """An exception inside an instance check is a harness fault (an oracle tripping over an unexpected but legal
    output container), not the property's words failing: reported as mechanism-level, never as a violation."""
    def holds(self, case, out):
        try:
            return fn(self, case, out)
        except Exception as e:  # noqa
            return [Failure('instance-check-crashed', repr(e), literal=False)]
    return holds


for _cls in {_b for _s in STREAMS for _b in type(_s).__mro__ if _b.__module__ == __name__ and 'holds' in _b.__dict__}:
    _cls.holds = _guard(_cls.holds)
