"""C13 — good cycles are exactly those meeting the documented phase criteria."""
import itertools

import numpy as np

from common import proto
from common.framework import Failure, ImplError, Stream
from props import _cyc

ID = 'C13'
LEAN_MODULES = ['Proofs.C13']
REQUIRED = ['C13.isGood_spec', 'C13.cv_good_iff', 'C13.good_same_partition', 'C13.cv_good_renumbers',
            'C13.container_flag_agrees', 'C13.getCycleVector_good_eq', 'C13.container_flag_agrees_getCycleVector',
            'C13.container_flag_independent_of_options', 'C13.container_flag_is_criteria',
            'C13.isGood_mono_edge', 'C13.isGood_nil', 'C13.isGood_singleton', 'C13.isGood_head_lt_last']
TRUSTED = ['the float constant 2*pi - phase_edge is computed by the harness with the documented expression and handed to the model exactly',
           'wrap_phase (x % 2pi) is an oracle for phases above 2pi']
ASSUMPTIONS = ['masks are boolean arrays (the documented type)']
# no alphabet value lies exactly at a tolerance bound (review C finding 7: 1.0 used to tie with the alphabet's 1.0; 1.05 keeps
# "start 1.0 is inside the tolerance", 0.95 (thorough) "start 1.0 is outside")
EDGES = [None, 0.05, 1.05, np.pi / 2, 0.95]
RULE = ('exhaustive: every phase sequence of length <= L (5 quick / 6 thorough) over the alphabet %s x phase_edge in %s (the last one '
        'thorough only) x masks {none, all valid, one invalid sample at each position}, the mask handed over by keyword, as the documented '
        'third positional argument, with every argument positional, or through the get_cycle_inds alias; random: synthetic phases x random '
        'edge in (0, pi/2] x masks {none, random, block} x the same four calling conventions; container: '
        'Cycles(phase, phase_edge=e, phase_step=s, use_cache=c, mode in {default, cycle, augmented}, compute_timings=t).metrics[is_good]; '
        'direct is_good calls (mechanism-level). A segment whose verdict hinges on a value lying exactly AT a tolerance bound (start == '
        'phase_edge or 0, end == 2pi - phase_edge) is neither judged nor compared (tag not-judged:value-at-tolerance-bound): "within the '
        'edge tolerance" does not say whether the bound itself counts. Non-trivial: the series contains a wrap and at least one segment '
        'passes and one fails the criteria.' % (_cyc.ALPHABET, EDGES))


def expected_labels(col, step, edge, mask, good=True):
    """The property's own words: segment labelled iff criteria hold and nothing masked; ranks in order (segments whose verdict
    hinges on a value exactly at a tolerance bound count as good here; good_failures does not judge them)."""
    n = len(col)
    labels = [-1] * n
    k = 0
    for a, b in _cyc.segments_of(col, step):
        ok = all(mask[a:b]) if mask is not None else True
        if ok and good:
            ok = _cyc.good_oracle(col[a:b], edge) is not False
        if ok:
            for i in range(a, b):
                labels[i] = k
            k += 1
    return labels


def good_failures(col, labels, step, edge, mask, prefix=''):
    """C13's words, segment by segment: a wrap-delimited segment is labelled iff it meets the criteria and holds no masked sample;
    the labelled segments are numbered 0, 1, 2, ... in temporal order. A segment whose verdict hinges on a value lying exactly at a
    tolerance bound (good_oracle -> None) may go either way."""
    labels = [int(v) for v in labels]
    if len(labels) != len(col):
        return [Failure(prefix + 'wrong-length', '%d labels for %d samples' % (len(labels), len(col)))]
    fs = []
    segs = _cyc.segments_of(col, step)
    rank = 0
    order_ok = True
    for a, b in segs:
        lab = set(labels[a:b])
        masked = mask is not None and not all(mask[a:b])
        should = False if masked else _cyc.good_oracle(col[a:b], edge)
        if lab == {-1}:
            if should is True and not fs:
                fs.append(Failure(prefix + 'good-cycle-dropped', 'segment [%d,%d) meets all criteria but is unlabelled' % (a, b)))
            continue
        if should is False and not fs:
            why = 'masked' if masked else 'fails criteria'
            fs.append(Failure(prefix + 'bad-cycle-labelled:' + why, 'segment [%d,%d) %s but is labelled %s' % (a, b, why, sorted(lab))))
        if lab != {rank}:
            order_ok = False
        rank += 1
    if not segs and any(l != -1 for l in labels):
        order_ok = False
    if not fs and not order_ok:
        fs.append(Failure(prefix + 'good-labels-not-rank-order', 'labelled segments are not numbered 0,1,2,... in order: %s' % (labels[:40],)))
    return fs


def guarded(holds):
    """an exception inside the instance check itself is a harness fault, not a property failure"""
    def wrapper(self, case, out):
        try:
            return holds(self, case, out)
        except Exception as e:  # noqa
            return [Failure('instance-check-crashed', repr(e), literal=False)]
    return wrapper


class GoodExhaustive(Stream):
    name = 'good_exhaustive'
    exhaustive = True

    def generate(self, rng, tier):
        L = 6 if tier == 'thorough' else 5
        for length in range(1, L + 1):
            for p in range(5):
                for ei in range(len(EDGES) if tier == 'thorough' else 4):
                    # the mask is the documented THIRD argument: half of the blocks hand it over positionally / through the alias
                    yield {'len': length, 'prefix': [p], 'edge': ei, 'call': ('kw', 'pos', 'kw', 'alias', 'kw', 'posall')[(length + p + ei) % 6]}

    def _variants(self, case):
        for seq in _cyc.enum_block(case['len'], case['prefix']):
            n = len(seq)
            yield seq, None
            yield seq, [1] * n
            for i in range(n):
                m = [1] * n
                m[i] = 0
                yield seq, m

    def impl(self, case):
        outs = []
        edge = EDGES[case['edge']]
        for seq, mask in self._variants(case):
            try:
                cv = _cyc.call_cv(seq, 1, mask, None, edge, call=case.get('call', 'kw'))
                outs.append([int(v) for v in cv[:, 0]])
            except Exception as e:  # noqa
                outs.append({'error': type(e).__name__})
        return outs

    def ops(self, case, out):
        edge = EDGES[case['edge']] or _cyc.DEFAULT_EDGE
        return [_cyc.cv_op(seq, _cyc.DEFAULT_STEP, 1, edge, mask) for seq, mask in self._variants(case)]

    def compare(self, case, out, results):
        if isinstance(out, ImplError):
            return 'implementation raised %s' % out['error']
        for (seq, mask), o, r in zip(self._variants(case), out, results):
            if isinstance(o, dict):
                return 'implementation raised %s on phase=%s mask=%s' % (o['error'], seq, mask)
            if _cyc.has_boundary_tie(seq, _cyc.DEFAULT_STEP, EDGES[case['edge']] or _cyc.DEFAULT_EDGE):
                continue            # a value exactly at a tolerance bound: the property leaves the verdict open
            if not r.ok or [int(v) for v in (r.vecs[0] or [])] != o:
                return 'phase=%s mask=%s edge=%s impl=%s model=%s' % (seq, mask, EDGES[case['edge']], o, r.raw)
        return None

    @guarded
    def holds(self, case, out):
        if isinstance(out, ImplError):
            # the whole block failed (time-out / harness fault): reported by compare, not a C13 verdict
            return [Failure('raises:' + out['error'], out['msg'], literal=False)]
        edge = EDGES[case['edge']] or _cyc.DEFAULT_EDGE
        fs = {}
        for (seq, mask), o in zip(self._variants(case), out):
            if isinstance(o, dict):
                k = 'raises:' + o['error']
                fs.setdefault(k, Failure(k, 'phase=%s mask=%s' % (seq, mask)))
                continue
            for f in good_failures(seq, o, _cyc.DEFAULT_STEP, edge, mask):
                f.detail = 'phase=%s mask=%s edge=%s call=%s labels=%s: %s' % (seq, mask, edge, case.get('call', 'kw'), o, f.detail)
                fs.setdefault(f.kind, f)
        return list(fs.values())

    def tags(self, case, out):
        return ['len=%d' % case['len'], 'edge=%s' % EDGES[case['edge']], 'call=' + case.get('call', 'kw')]

    def nontrivial(self, case, out):
        if isinstance(out, ImplError):
            return False
        flat = [v for o in out if not isinstance(o, dict) for v in o]
        return (-1 in flat) and any(v >= 0 for v in flat)


class GoodRandom(Stream):
    name = 'good_random'

    def corpus(self):
        return [
            {'phase': [[0.1, 3.1, 6.2, 0.1, 3.1, 6.2, 0.1, 3.1, 6.2]], 'edge': None, 'step': None, 'mask': [[1, 1, 1, 1, 0, 1, 1, 1, 1]]},
            {'phase': [[0.1, 3.1, 6.2, 0.1, 3.1, 6.2, 0.1, 3.1, 6.2]], 'edge': 0.05, 'step': None, 'mask': None},
            {'phase': [[0.1, 3.1, 6.2, 0.1, 3.1, 3.0, 6.2, 0.1, 6.2]], 'edge': 1.0, 'step': None, 'mask': None},
            # round-2 seed C13-4: steps inside a cycle between pi and phase_step
            {'phase': [[0.1, 3.5, 6.2, 0.1, 3.5, 6.2, 0.2, 3.0, 6.1]], 'edge': None, 'step': None, 'mask': None},
            # round 3, C13 patch 2 (signature reordered: a mask given as the documented third positional argument was bound to `imf`)
            {'phase': [[0.1, 3.1, 6.2, 0.1, 3.1, 6.2, 0.1, 3.1, 6.2]], 'edge': None, 'step': None, 'mask': [[1, 1, 1, 1, 0, 1, 1, 1, 1]], 'call': 'pos'},
            {'phase': [[0.1, 3.1, 6.2, 0.1, 3.1, 6.2, 0.1, 3.1, 6.2]], 'edge': None, 'step': None, 'mask': [[1, 1, 1, 1, 1, 1, 1, 1, 0]], 'call': 'alias'},
            {'phase': [[0.1, 3.1, 6.2, 0.1, 3.1, 6.2, 0.1, 3.1, 6.2]], 'edge': 0.3, 'step': 4.0, 'mask': [[0, 1, 1, 1, 1, 1, 1, 1, 1]], 'call': 'posall'},
        ]

    def generate(self, rng, tier):
        n_cases = 1500 if tier == 'thorough' else 150
        for i in range(n_cases):
            n = rng.choice([5, 17, 64, 200, 500]) if rng.random() < 0.7 else rng.randint(2, 900)
            col = _cyc.synth_phase(rng, n, reversing=rng.random() < 0.5)
            if rng.random() < 0.15:
                col = _cyc.fast_phase(rng, rng.randint(2, 12))
                n = len(col)
            mk = rng.choice(['none', 'random', 'block'])
            if mk == 'none':
                mask = None
            elif mk == 'random':
                mask = [[0 if rng.random() < 0.02 else 1 for _ in range(n)]]
            else:
                a = rng.randrange(n)
                b = min(n, a + rng.randint(1, max(1, n // 4)))
                mask = [[0 if a <= j < b else 1 for j in range(n)]]
            edge = rng.choice([None, rng.uniform(0.01, np.pi / 2), np.pi / 2, 0.3])
            yield {'phase': [col], 'edge': edge, 'step': rng.choice([None, None, np.pi, 4.0]), 'mask': mask,
                   'call': rng.choice(['kw', 'kw', 'pos', 'pos', 'posall', 'alias'])}

    def impl(self, case):
        arr = np.array(case['phase'], dtype=float).T[:, 0]
        mask = None if case['mask'] is None else np.array(case['mask'], dtype=bool).T[:, 0]
        cv = _cyc.call_cv(arr, 1, mask, case.get('step'), case.get('edge'), call=case.get('call', 'kw'))
        out = {'good': [int(v) for v in cv[:, 0]]}
        try:     # the all-cycles partition of the same phase (C12's subject; here only the reference of "subset renumbering")
            out['all'] = [int(v) for v in _cyc.call_cv(arr, 0, None, case.get('step'), case.get('edge'))[:, 0]]
        except Exception as e:  # noqa
            out['all'] = {'error': type(e).__name__}
        return out

    def ops(self, case, out):
        mask = None if case['mask'] is None else case['mask'][0]
        return [_cyc.cv_op(case['phase'][0], _cyc.step_of(case), 1, _cyc.edge_of(case), mask)]

    def _tie(self, case):
        col, step = case['phase'][0], _cyc.step_of(case)
        if step != 0 and _cyc.tie_margin(col, step) < 1e-9:
            return 'near-tie'
        if _cyc.has_boundary_tie(col, step, _cyc.edge_of(case)):
            return 'value-at-tolerance-bound'
        return None

    def compare(self, case, out, results):
        if self._tie(case):
            return 'skip:' + self._tie(case)
        if isinstance(out, ImplError):
            return 'implementation raised %s' % out['error']
        r = results[0]
        if not r.ok or [int(v) for v in (r.vecs[0] or [])] != out['good']:
            return 'impl=%s model=%s' % (out['good'][:40], r.raw[:200])
        return None

    @guarded
    def holds(self, case, out):
        if isinstance(out, ImplError):
            return [Failure('raises:' + out['error'], out['msg'], literal=out['error'] != 'Timeout')]
        step, edge = _cyc.step_of(case), _cyc.edge_of(case)
        if step != 0 and _cyc.tie_margin(case['phase'][0], step) < 1e-9:
            return []
        mask = None if case['mask'] is None else case['mask'][0]
        fs = good_failures(case['phase'][0], out['good'], step, edge, mask)
        for f in fs:
            f.detail = 'call=%s: %s' % (case.get('call', 'kw'), f.detail)
        # order-preserving renumbering of a subset of the all-cycles partition
        if isinstance(out['all'], dict):
            return fs      # the all-cycles call failed: C12's subject, nothing to relate the good labels to
        pairs = sorted(set((int(g), int(a)) for g, a in zip(out['good'], out['all']) if g >= 0))
        if any(a < 0 for _, a in pairs) or [g for g, _ in pairs] != list(range(len(pairs))) \
                or [a for _, a in pairs] != sorted(set(a for _, a in pairs)) or len(set(a for _, a in pairs)) != len(pairs):
            fs.append(Failure('good-not-subset-renumbering', 'good->all label pairs %s' % pairs[:20]))
        return fs

    def tags(self, case, out):
        t = ['mask=%s' % ('none' if case['mask'] is None else 'some-invalid' if 0 in case['mask'][0] else 'all-valid'),
             'edge=%s' % ('default' if case['edge'] is None else 'custom'), 'call=' + case.get('call', 'kw')]
        if self._tie(case):
            t.append('not-judged:' + self._tie(case))
        if not isinstance(out, ImplError):
            k = max(out['good']) + 1 if out['good'] else 0
            t.append('good=0' if k == 0 else 'good=1-3' if k <= 3 else 'good>3')
        return t

    def nontrivial(self, case, out):
        return not isinstance(out, ImplError) and (-1 in out['good']) and max(out['good']) >= 0

    def shrink(self, case):
        n = len(case['phase'][0])
        for cut in (n // 2, n // 4, 1):
            if 0 < cut < n:
                for sl in (slice(cut, None), slice(0, n - cut)):
                    yield dict(case, phase=[case['phase'][0][sl]],
                               mask=None if case['mask'] is None else [case['mask'][0][sl]])


class IsGoodDirect(Stream):
    """emd.cycles.is_good(ret_all_checks=True) on single segments."""
    name = 'is_good'

    def generate(self, rng, tier):
        vals = [0.0, 0.1, _cyc.DEFAULT_EDGE, 1.0, 3.1, 6.0, 2 * np.pi - _cyc.DEFAULT_EDGE, 6.2, 2 * np.pi]
        L = 4 if tier == 'thorough' else 3
        for length in range(1, L + 1):
            for seq in itertools.product(range(len(vals)), repeat=length):
                yield {'seg': [vals[i] for i in seq], 'edge': None}
        for i in range(300 if tier == 'thorough' else 60):
            n = rng.randint(1, 30)
            seg = sorted(rng.uniform(0, 2 * np.pi) for _ in range(n))
            if rng.random() < 0.3 and n > 2:
                j = rng.randrange(n - 1)
                seg[j], seg[j + 1] = seg[j + 1], seg[j]
            yield {'seg': seg, 'edge': rng.choice([None, rng.uniform(0.01, np.pi / 2)])}

    def impl(self, case):
        import emd
        kw = {} if case['edge'] is None else {'phase_edge': case['edge']}
        seg = np.array(case['seg'], dtype=float)
        checks = emd.cycles.is_good(seg, ret_all_checks=True, **kw)
        allok = emd.cycles.is_good(seg, **kw)
        return {'checks': [int(bool(c)) for c in checks], 'all': int(bool(allok))}

    def ops(self, case, out):
        edge = case['edge'] or _cyc.DEFAULT_EDGE
        return [proto.op('ISGOOD', {'edge': edge, 'twopi': _cyc.TWO_PI, 'endlo': _cyc.TWO_PI - edge}, [case['seg']])]

    def compare(self, case, out, results):
        if isinstance(out, ImplError):
            return 'implementation raised %s' % out['error']
        edge = case['edge'] or _cyc.DEFAULT_EDGE
        r = results[0]
        if not r.ok:
            return 'seg=%s model=%s' % (case['seg'], r.raw)
        model = [int(v) for v in r.vecs[0]]
        if _cyc.good_oracle(case['seg'], edge) is None:
            # a value exactly at a tolerance bound: only the verdict-independent part (monotonicity) is compared
            return None if model[:1] == out['checks'][:1] else 'seg=%s impl=%s model=%s' % (case['seg'], out, r.raw)
        if model != out['checks']:
            return 'seg=%s impl=%s model=%s' % (case['seg'], out, r.raw)
        return None

    @guarded
    def holds(self, case, out):
        # C13 speaks about the wrap-delimited segments get_cycle_vector labels and the container's flag; direct calls of the helper
        # is_good - on arbitrary sequences, including the value 2pi and sequences with an internal wrap - are the anchored MECHANISM:
        # every verdict of this stream is mechanism-level (a broken correspondence, never a replay of the property)
        if isinstance(out, ImplError):
            return [Failure('is_good-raises:' + out['error'], out['msg'], literal=False)]
        edge = case['edge'] or _cyc.DEFAULT_EDGE
        exp = _cyc.good_oracle(case['seg'], edge)
        fs = []
        if exp is not None and bool(out['all']) != exp:
            fs.append(Failure('is_good-wrong-verdict', 'seg=%s edge=%s verdict=%s expected=%s' % (case['seg'], edge, out['all'], exp),
                              literal=False))
        if bool(out['all']) != all(out['checks']):
            fs.append(Failure('is_good-verdict-not-conjunction', str(out), literal=False))
        return fs

    def tags(self, case, out):
        if isinstance(out, ImplError):
            return []
        tie = _cyc.good_oracle(case['seg'], case['edge'] or _cyc.DEFAULT_EDGE) is None
        return ['verdict=%d' % out['all'], 'checks=%s' % ''.join(map(str, out['checks']))] + (['not-judged:value-at-tolerance-bound'] if tie else [])

    def nontrivial(self, case, out):
        return len(case['seg']) > 1


class ContainerFlag(Stream):
    """Cycles(...).metrics['is_good'] must apply the same criteria with the container's own phase_edge."""
    name = 'container_flag'

    def corpus(self):
        return [{'phase': [0.1, 3.1, 6.2, 0.1, 3.1, 6.2, 0.1, 3.1, 6.2], 'edge': 0.05, 'step': None, 'cache': 1},
                {'phase': [1.0, 3.1, 6.0, 1.0, 3.1, 6.0, 1.0, 3.1, 6.0], 'edge': 1.2, 'step': None, 'cache': 0},
                # round 3, C13 patch 1: a container built with mode='augmented' judged its cycles by the augmented criteria
                # (first cycle / a cycle after an irregular tail flagged bad although the wrap-delimited cycle meets all criteria)
                {'phase': [0.1, 3.1, 6.2, 0.1, 3.1, 6.2, 0.1, 3.1, 6.2], 'edge': None, 'step': None, 'cache': 1, 'mode': 'augmented'},
                {'phase': [0.1, 3.1, 6.2, 0.1, 3.1, 6.2, 0.1, 3.1, 6.2], 'edge': 0.3, 'step': None, 'cache': 0, 'mode': 'augmented'},
                {'phase': [0.1, 3.1, 4.0, 3.9, 0.1, 3.1, 6.2, 0.1, 2.0, 6.2, 0.1], 'edge': None, 'step': None, 'cache': 1, 'mode': 'augmented',
                 'timings': 1}]

    def generate(self, rng, tier):
        def opts():
            return {'cache': rng.choice([0, 1]), 'mode': rng.choice([None, None, 'cycle', 'augmented', 'augmented']),
                    'timings': int(rng.random() < 0.15)}
        for i in range(600 if tier == 'thorough' else 80):
            n = rng.choice([9, 30, 120, 400])
            col = _cyc.synth_phase(rng, n, reversing=rng.random() < 0.5)
            if rng.random() < 0.15:
                col = _cyc.fast_phase(rng, rng.randint(2, 12))
            yield dict({'phase': col, 'edge': rng.choice([None, 0.05, 1.0, rng.uniform(0.01, np.pi / 2)]),
                        'step': rng.choice([None, None, np.pi])}, **opts())
        L = 6 if tier == 'thorough' else 5
        for seq in itertools.product(_cyc.ALPHABET, repeat=L):
            if rng.random() < (0.2 if tier == 'thorough' else 0.03):
                yield dict({'phase': list(seq), 'edge': rng.choice(EDGES + [1.0]), 'step': None}, **opts())

    def impl(self, case):
        import emd
        kw = {}
        if case['edge'] is not None:
            kw['phase_edge'] = case['edge']
        if case['step'] is not None:
            kw['phase_step'] = case['step']
        if not case['cache']:
            kw['use_cache'] = False
        if case.get('mode') is not None:
            kw['mode'] = case['mode']
        if case.get('timings'):
            kw['compute_timings'] = True
        C = emd.cycles.Cycles(np.array(case['phase'], dtype=float), **kw)
        return {'flags': [int(v) for v in C.metrics['is_good']]}

    def ops(self, case, out):
        step, edge = _cyc.step_of(case), _cyc.edge_of(case)
        # CYGOOD: the flag model (Cycles.containerIsGood); CYGOODC: the flag THROUGH the constructor model with all its options
        # (Container.initOpts: mode / compute_timings / use_cache; theorem C13.container_flag_independent_of_options)
        return [proto.op('CYGOOD', {'step': step, 'edge': edge, 'twopi': _cyc.TWO_PI, 'endlo': _cyc.TWO_PI - edge}, [case['phase']]),
                proto.op('CYGOODC', {'step': step, 'edge': edge, 'twopi': _cyc.TWO_PI, 'endlo': _cyc.TWO_PI - edge,
                                     'thr': 1.5 * np.pi, 'cache': int(bool(case['cache'])),
                                     'mode': 1 if case.get('mode') == 'augmented' else 0,
                                     'timings': int(bool(case.get('timings')))}, [case['phase']])]

    def _no_wrap(self, case):
        return not _cyc.wraps_of(case['phase'], _cyc.step_of(case))

    def _tie(self, case):
        step = _cyc.step_of(case)
        if step != 0 and _cyc.tie_margin(case['phase'], step) < 1e-9:
            return 'near-tie'
        if _cyc.has_boundary_tie(case['phase'], step, _cyc.edge_of(case)):
            return 'value-at-tolerance-bound'
        return None

    def compare(self, case, out, results):
        if self._no_wrap(case):
            return 'skip:no-cycles (container undefined without a wrap)'
        if self._tie(case):
            return 'skip:' + self._tie(case)
        if isinstance(out, ImplError):
            return 'implementation raised %s (%s)' % (out['error'], out['msg'][-100:])
        for r in results[:2]:
            if not r.ok or [int(v) for v in (r.vecs[0] if r.vecs else [])] != out['flags']:
                return 'impl=%s model=%s' % (out['flags'][:40], r.raw[:200])
        return None

    @guarded
    def holds(self, case, out):
        if self._no_wrap(case) or self._tie(case) == 'near-tie':
            return []
        if isinstance(out, ImplError):
            return [Failure('container-raises:' + out['error'], out['msg'], literal=out['error'] != 'Timeout')]
        step, edge = _cyc.step_of(case), _cyc.edge_of(case)
        exp = [_cyc.good_oracle(case['phase'][a:b], edge) for a, b in _cyc.segments_of(case['phase'], step)]
        got = out['flags']
        # one flag per wrap-delimited cycle; a cycle whose verdict hinges on a value exactly at a tolerance bound is not judged
        if len(got) != len(exp) or any(e is not None and int(e) != g for e, g in zip(exp, got)):
            custom = case.get('edge') is not None
            opts = 'use_cache=%s mode=%s compute_timings=%s' % (bool(case['cache']), case.get('mode'), bool(case.get('timings')))
            return [Failure('container-flag-disagrees' + (':custom-edge' if custom else ''),
                            'Cycles(phase, phase_edge=%s, %s): criteria say %s, container flags %s' % (
                                edge, opts, [None if e is None else int(e) for e in exp][:20], got[:20]))]
        return []

    def tags(self, case, out):
        t = ['edge=%s' % ('default' if case['edge'] is None else 'custom'), 'cache=%d' % case['cache'],
             'mode=%s' % case.get('mode'), 'timings=%d' % int(bool(case.get('timings')))]
        if self._tie(case):
            t.append('not-judged:' + self._tie(case))
        return t

    def nontrivial(self, case, out):
        return not isinstance(out, ImplError) and len(set(out['flags'])) > 1

    def shrink(self, case):
        n = len(case['phase'])
        for cut in (n // 2, n // 4, 1):
            if 0 < cut < n:
                yield dict(case, phase=case['phase'][cut:])
                yield dict(case, phase=case['phase'][:n - cut])


STREAMS = [GoodExhaustive(), GoodRandom(), IsGoodDirect(), ContainerFlag()]
