"""C13 — good cycles are exactly those meeting the documented phase criteria."""
import itertools

import numpy as np

from common import proto
from common.framework import Failure, ImplError, Stream
from props import _cyc

ID = 'C13'
LEAN_MODULES = ['Proofs.C13']
REQUIRED = ['C13.isGood_spec', 'C13.cv_good_iff', 'C13.good_same_partition', 'C13.cv_good_renumbers',
            'C13.container_flag_agrees', 'C13.getCycleVector_good_eq', 'C13.container_flag_agrees_getCycleVector']
TRUSTED = ['the float constant 2*pi - phase_edge is computed by the harness with the documented expression and handed to the model exactly',
           'wrap_phase (x % 2pi) is an oracle for phases above 2pi']
ASSUMPTIONS = ['masks are boolean arrays (the documented type)']
EDGES = [None, 0.05, 1.0, np.pi / 2]
RULE = ('exhaustive: every phase sequence of length <= L (5 quick / 6 thorough) over the alphabet %s x phase_edge in %s x masks '
        '{none, all valid, one invalid sample at each position}; random: synthetic phases x random edge in (0, pi/2] x masks '
        '{none, random, block}; container: Cycles(phase, phase_edge=e, phase_step=s).metrics[is_good]; direct is_good calls. '
        'Non-trivial: the series contains a wrap and at least one segment passes and one fails the criteria.' % (_cyc.ALPHABET, EDGES))


def expected_labels(col, step, edge, mask, good=True):
    """The property's own words: segment labelled iff criteria hold and nothing masked; ranks in order."""
    n = len(col)
    labels = [-1] * n
    k = 0
    for a, b in _cyc.segments_of(col, step):
        ok = all(mask[a:b]) if mask is not None else True
        if ok and good:
            ok = _cyc.good_oracle(col[a:b], edge)
        if ok:
            for i in range(a, b):
                labels[i] = k
            k += 1
    return labels


def good_failures(col, labels, step, edge, mask, prefix=''):
    exp = expected_labels(col, step, edge, mask)
    if exp == list(labels):
        return []
    fs = []
    segs = _cyc.segments_of(col, step)
    for a, b in segs:
        lab = set(labels[a:b])
        should = exp[a] != -1
        if lab == {-1} and should:
            fs.append(Failure(prefix + 'good-cycle-dropped', 'segment [%d,%d) meets all criteria but is unlabelled' % (a, b)))
            break
        if lab != {-1} and not should:
            why = 'masked' if (mask is not None and not all(mask[a:b])) else 'fails criteria'
            fs.append(Failure(prefix + 'bad-cycle-labelled:' + why, 'segment [%d,%d) %s but is labelled %s' % (a, b, why, sorted(lab))))
            break
    if not fs:
        fs.append(Failure(prefix + 'good-labels-not-rank-order', 'expected %s got %s' % (exp[:30], list(labels)[:30])))
    return fs


class GoodExhaustive(Stream):
    name = 'good_exhaustive'
    exhaustive = True

    def generate(self, rng, tier):
        L = 6 if tier == 'thorough' else 5
        for length in range(1, L + 1):
            for p in range(5):
                for ei in range(len(EDGES)):
                    yield {'len': length, 'prefix': [p], 'edge': ei}

    def _variants(self, case):
        for seq in _cyc.enum_block(case['len'], case['prefix']):
            n = len(seq)
            yield seq, None
            yield seq, [1] * n
            for i in range(n):
                m = [1] * n
                m[i] = 0
                yield seq, m

    def impl(self, case):
        outs = []
        edge = EDGES[case['edge']]
        for seq, mask in self._variants(case):
            try:
                cv = _cyc.call_cv(seq, 1, mask, None, edge)
                outs.append([int(v) for v in cv[:, 0]])
            except Exception as e:  # noqa
                outs.append({'error': type(e).__name__})
        return outs

    def ops(self, case, out):
        edge = EDGES[case['edge']] or _cyc.DEFAULT_EDGE
        return [_cyc.cv_op(seq, _cyc.DEFAULT_STEP, 1, edge, mask) for seq, mask in self._variants(case)]

    def compare(self, case, out, results):
        if isinstance(out, ImplError):
            return 'implementation raised %s' % out['error']
        for (seq, mask), o, r in zip(self._variants(case), out, results):
            if isinstance(o, dict):
                return 'implementation raised %s on phase=%s mask=%s' % (o['error'], seq, mask)
            if not r.ok or [int(v) for v in (r.vecs[0] or [])] != o:
                return 'phase=%s mask=%s edge=%s impl=%s model=%s' % (seq, mask, EDGES[case['edge']], o, r.raw)
        return None

    def holds(self, case, out):
        if isinstance(out, ImplError):
            return [Failure('raises:' + out['error'], out['msg'])]
        edge = EDGES[case['edge']] or _cyc.DEFAULT_EDGE
        fs = {}
        for (seq, mask), o in zip(self._variants(case), out):
            if isinstance(o, dict):
                k = 'raises:' + o['error']
                fs.setdefault(k, Failure(k, 'phase=%s mask=%s' % (seq, mask)))
                continue
            for f in good_failures(seq, o, _cyc.DEFAULT_STEP, edge, mask):
                f.detail = 'phase=%s mask=%s edge=%s labels=%s: %s' % (seq, mask, edge, o, f.detail)
                fs.setdefault(f.kind, f)
        return list(fs.values())

    def tags(self, case, out):
        return ['len=%d' % case['len'], 'edge=%s' % EDGES[case['edge']]]

    def nontrivial(self, case, out):
        if isinstance(out, ImplError):
            return False
        flat = [v for o in out if not isinstance(o, dict) for v in o]
        return (-1 in flat) and any(v >= 0 for v in flat)


class GoodRandom(Stream):
    name = 'good_random'

    def corpus(self):
        return [
            {'phase': [[0.1, 3.1, 6.2, 0.1, 3.1, 6.2, 0.1, 3.1, 6.2]], 'edge': None, 'step': None, 'mask': [[1, 1, 1, 1, 0, 1, 1, 1, 1]]},
            {'phase': [[0.1, 3.1, 6.2, 0.1, 3.1, 6.2, 0.1, 3.1, 6.2]], 'edge': 0.05, 'step': None, 'mask': None},
            {'phase': [[0.1, 3.1, 6.2, 0.1, 3.1, 3.0, 6.2, 0.1, 6.2]], 'edge': 1.0, 'step': None, 'mask': None},
        ]

    def generate(self, rng, tier):
        n_cases = 1500 if tier == 'thorough' else 150
        for i in range(n_cases):
            n = rng.choice([5, 17, 64, 200, 500]) if rng.random() < 0.7 else rng.randint(2, 900)
            col = _cyc.synth_phase(rng, n, reversing=rng.random() < 0.5)
            mk = rng.choice(['none', 'random', 'block'])
            if mk == 'none':
                mask = None
            elif mk == 'random':
                mask = [[0 if rng.random() < 0.02 else 1 for _ in range(n)]]
            else:
                a = rng.randrange(n)
                b = min(n, a + rng.randint(1, max(1, n // 4)))
                mask = [[0 if a <= j < b else 1 for j in range(n)]]
            edge = rng.choice([None, rng.uniform(0.01, np.pi / 2), np.pi / 2, 0.3])
            yield {'phase': [col], 'edge': edge, 'step': rng.choice([None, None, np.pi, 4.0]), 'mask': mask}

    def impl(self, case):
        arr = np.array(case['phase'], dtype=float).T[:, 0]
        mask = None if case['mask'] is None else np.array(case['mask'], dtype=bool).T[:, 0]
        cv = _cyc.call_cv(arr, 1, mask, case.get('step'), case.get('edge'))
        return [int(v) for v in cv[:, 0]]

    def ops(self, case, out):
        step = case.get('step') or _cyc.DEFAULT_STEP
        edge = case.get('edge') or _cyc.DEFAULT_EDGE
        mask = None if case['mask'] is None else case['mask'][0]
        return [_cyc.cv_op(case['phase'][0], step, 1, edge, mask)]

    def compare(self, case, out, results):
        step = case.get('step') or _cyc.DEFAULT_STEP
        if _cyc.tie_margin(case['phase'][0], step) < 1e-9:
            return 'skip:near-tie'
        if isinstance(out, ImplError):
            return 'implementation raised %s' % out['error']
        r = results[0]
        if not r.ok or [int(v) for v in (r.vecs[0] or [])] != out:
            return 'impl=%s model=%s' % (out[:40], r.raw[:200])
        return None

    def holds(self, case, out):
        if isinstance(out, ImplError):
            return [Failure('raises:' + out['error'], out['msg'])]
        step = case.get('step') or _cyc.DEFAULT_STEP
        edge = case.get('edge') or _cyc.DEFAULT_EDGE
        mask = None if case['mask'] is None else case['mask'][0]
        fs = good_failures(case['phase'][0], out, step, edge, mask)
        # order-preserving renumbering of a subset of the all-cycles partition
        allcv = _cyc.call_cv(case['phase'][0], 0, None, case.get('step'), case.get('edge'))[:, 0]
        pairs = sorted(set((int(g), int(a)) for g, a in zip(out, allcv) if g >= 0))
        if any(a < 0 for _, a in pairs) or [g for g, _ in pairs] != list(range(len(pairs))) \
                or [a for _, a in pairs] != sorted(set(a for _, a in pairs)) or len(set(a for _, a in pairs)) != len(pairs):
            fs.append(Failure('good-not-subset-renumbering', 'good->all label pairs %s' % pairs[:20]))
        return fs

    def tags(self, case, out):
        t = ['mask=%s' % ('none' if case['mask'] is None else 'some-invalid' if 0 in case['mask'][0] else 'all-valid'),
             'edge=%s' % ('default' if case['edge'] is None else 'custom')]
        if not isinstance(out, ImplError):
            k = max(out) + 1 if out else 0
            t.append('good=0' if k == 0 else 'good=1-3' if k <= 3 else 'good>3')
        return t

    def nontrivial(self, case, out):
        return not isinstance(out, ImplError) and (-1 in out) and max(out) >= 0

    def shrink(self, case):
        n = len(case['phase'][0])
        for cut in (n // 2, n // 4, 1):
            if 0 < cut < n:
                for sl in (slice(cut, None), slice(0, n - cut)):
                    yield dict(case, phase=[case['phase'][0][sl]],
                               mask=None if case['mask'] is None else [case['mask'][0][sl]])


class IsGoodDirect(Stream):
    """emd.cycles.is_good(ret_all_checks=True) on single segments."""
    name = 'is_good'

    def generate(self, rng, tier):
        vals = [0.0, 0.1, _cyc.DEFAULT_EDGE, 1.0, 3.1, 6.0, 2 * np.pi - _cyc.DEFAULT_EDGE, 6.2, 2 * np.pi]
        L = 4 if tier == 'thorough' else 3
        for length in range(1, L + 1):
            for seq in itertools.product(range(len(vals)), repeat=length):
                yield {'seg': [vals[i] for i in seq], 'edge': None}
        for i in range(300 if tier == 'thorough' else 60):
            n = rng.randint(1, 30)
            seg = sorted(rng.uniform(0, 2 * np.pi) for _ in range(n))
            if rng.random() < 0.3 and n > 2:
                j = rng.randrange(n - 1)
                seg[j], seg[j + 1] = seg[j + 1], seg[j]
            yield {'seg': seg, 'edge': rng.choice([None, rng.uniform(0.01, np.pi / 2)])}

    def impl(self, case):
        import emd
        kw = {} if case['edge'] is None else {'phase_edge': case['edge']}
        seg = np.array(case['seg'], dtype=float)
        checks = emd.cycles.is_good(seg, ret_all_checks=True, **kw)
        allok = emd.cycles.is_good(seg, **kw)
        return {'checks': [int(bool(c)) for c in checks], 'all': int(bool(allok))}

    def ops(self, case, out):
        edge = case['edge'] or _cyc.DEFAULT_EDGE
        return [proto.op('ISGOOD', {'edge': edge, 'twopi': _cyc.TWO_PI, 'endlo': _cyc.TWO_PI - edge}, [case['seg']])]

    def compare(self, case, out, results):
        if isinstance(out, ImplError):
            return 'implementation raised %s' % out['error']
        r = results[0]
        if not r.ok or [int(v) for v in r.vecs[0]] != out['checks']:
            return 'seg=%s impl=%s model=%s' % (case['seg'], out, r.raw)
        return None

    def holds(self, case, out):
        if isinstance(out, ImplError):
            return [Failure('is_good-raises:' + out['error'], out['msg'])]
        edge = case['edge'] or _cyc.DEFAULT_EDGE
        exp = _cyc.good_oracle(case['seg'], edge)
        fs = []
        if bool(out['all']) != exp:
            fs.append(Failure('is_good-wrong-verdict', 'seg=%s edge=%s verdict=%s expected=%s' % (case['seg'], edge, out['all'], exp)))
        if bool(out['all']) != all(out['checks']):
            fs.append(Failure('is_good-verdict-not-conjunction', str(out)))
        return fs

    def tags(self, case, out):
        return [] if isinstance(out, ImplError) else ['verdict=%d' % out['all'], 'checks=%s' % ''.join(map(str, out['checks']))]

    def nontrivial(self, case, out):
        return len(case['seg']) > 1


class ContainerFlag(Stream):
    """Cycles(...).metrics['is_good'] must apply the same criteria with the container's own phase_edge."""
    name = 'container_flag'

    def corpus(self):
        return [{'phase': [0.1, 3.1, 6.2, 0.1, 3.1, 6.2, 0.1, 3.1, 6.2], 'edge': 0.05, 'step': None, 'cache': 1},
                {'phase': [1.0, 3.1, 6.0, 1.0, 3.1, 6.0, 1.0, 3.1, 6.0], 'edge': 1.2, 'step': None, 'cache': 0}]

    def generate(self, rng, tier):
        for i in range(600 if tier == 'thorough' else 80):
            n = rng.choice([9, 30, 120, 400])
            col = _cyc.synth_phase(rng, n, reversing=rng.random() < 0.5)
            yield {'phase': col, 'edge': rng.choice([None, 0.05, 1.0, rng.uniform(0.01, np.pi / 2)]),
                   'step': rng.choice([None, None, np.pi]), 'cache': rng.choice([0, 1])}
        L = 6 if tier == 'thorough' else 5
        for seq in itertools.product(_cyc.ALPHABET, repeat=L):
            if rng.random() < (0.2 if tier == 'thorough' else 0.03):
                yield {'phase': list(seq), 'edge': rng.choice(EDGES), 'step': None, 'cache': rng.choice([0, 1])}

    def impl(self, case):
        import emd
        kw = {}
        if case['edge'] is not None:
            kw['phase_edge'] = case['edge']
        if case['step'] is not None:
            kw['phase_step'] = case['step']
        C = emd.cycles.Cycles(np.array(case['phase'], dtype=float), use_cache=bool(case['cache']), **kw)
        return {'flags': [int(v) for v in C.metrics['is_good']], 'ncycles': int(C.ncycles)}

    def ops(self, case, out):
        step = case.get('step') or _cyc.DEFAULT_STEP
        edge = case.get('edge') or _cyc.DEFAULT_EDGE
        return [proto.op('CYGOOD', {'step': step, 'edge': edge, 'twopi': _cyc.TWO_PI, 'endlo': _cyc.TWO_PI - edge}, [case['phase']])]

    def _no_wrap(self, case):
        return not _cyc.wraps_of(case['phase'], case.get('step') or _cyc.DEFAULT_STEP)

    def compare(self, case, out, results):
        if self._no_wrap(case):
            return 'skip:no-cycles (container undefined without a wrap)'
        if isinstance(out, ImplError):
            return 'implementation raised %s (%s)' % (out['error'], out['msg'][-100:])
        r = results[0]
        if not r.ok or [int(v) for v in (r.vecs[0] if r.vecs else [])] != out['flags']:
            return 'impl=%s model=%s' % (out['flags'][:40], r.raw[:200])
        return None

    def holds(self, case, out):
        if self._no_wrap(case):
            return []
        if isinstance(out, ImplError):
            return [Failure('container-raises:' + out['error'], out['msg'])]
        step = case.get('step') or _cyc.DEFAULT_STEP
        edge = case.get('edge') or _cyc.DEFAULT_EDGE
        exp = [int(_cyc.good_oracle(case['phase'][a:b], edge)) for a, b in _cyc.segments_of(case['phase'], step)]
        if exp != out['flags']:
            custom = case.get('edge') is not None
            return [Failure('container-flag-disagrees' + (':custom-edge' if custom else ''),
                            'edge=%s expected=%s got=%s' % (edge, exp[:20], out['flags'][:20]))]
        return []

    def tags(self, case, out):
        return ['edge=%s' % ('default' if case['edge'] is None else 'custom'), 'cache=%d' % case['cache']]

    def nontrivial(self, case, out):
        return not isinstance(out, ImplError) and len(set(out['flags'])) > 1


STREAMS = [GoodExhaustive(), GoodRandom(), IsGoodDirect(), ContainerFlag()]
