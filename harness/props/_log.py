"""Running logger histories of `emd` in forked child processes (C20).

The logger state of `emd` (handlers of logging.getLogger('emd'), logging.disable) is process
global, so no history is ever executed in the harness process itself: a fresh child is forked for
every history.  For exhaustive enumeration the children form a tree (a child that has executed
a prefix forks one grandchild per next operation), so every root-to-leaf history still ends in a
process of its own that has executed exactly that history, and nothing else, since `import emd`.

Operation tokens (the harness vocabulary; `model_token` maps them to the model's):

    su:<L>        emd.logger.set_up(level=<L>)            L in N (no level) C W I D
    suf:<L>       the same, logging to a file as well     (temp dir, removed)
    sl:<L>        emd.logger.set_level(<L>)
    dis | en      emd.logger.disable() | enable()
    c:<V>:<m>[:<f>]   decorated sift call; V in N (verbose=None) O (verbose omitted) C W I D, or an UNDOCUMENTED verbosity
                  B (verbose='debug') T (verbose=10) U (verbose='nonsense');
                  m = r (returns) | x (raises: input shape (n,2,3) rejected) | y (raises: no convergence)
                    | i (the call is interrupted: KeyboardInterrupt raised from inside the sift, by the harness-owned signal
                         array at the first numpy ufunc applied to it) | q (SystemExit raised the same way)
                    | k (the signal passed by keyword, sift(X=x): sift_logger formats args[0].shape eagerly -> IndexError
                         in every logger state; the expected outcome is whatever the untouched-logger baseline shows);
                  f = s (sift, default) | m (mask_sift) | a (mask_sift with array keyword arguments) | e (ensemble_sift, seeded) | c (complete_ensemble_sift, seeded)
"""
import hashlib
import io
import json
import os
import select
import shutil
import signal
import sys
import tempfile
import time

import numpy as np

LEVELS = {'C': 'CRITICAL', 'E': 'ERROR', 'W': 'WARNING', 'I': 'INFO', 'D': 'DEBUG'}
NUM = {'C': 50, 'E': 40, 'W': 30, 'I': 20, 'D': 10}
VERB = ['N', 'C', 'W', 'I', 'D']
ALPHABET = (['su:' + l for l in VERB] + ['sl:' + l for l in 'CWID'] + ['dis', 'en'] +
            ['c:%s:r' % v for v in VERB] + ['c:%s:x' % v for v in VERB])
INTERRUPT = {'i': KeyboardInterrupt, 'q': SystemExit}
BAD_VERB = {'B': 'debug', 'T': 10, 'U': 'nonsense'}           # not level names of `logging`: outside the documented values


def baseline_key(tok):
    """the reference a call is compared with: the same signal, function and way of raising under an UNTOUCHED logger and
    without a verbose argument (what the call does as such - return, raise ValueError, ... - is not C20's business; that it does
    the same in every logger state and for every verbosity is)"""
    v, mode, fn = parse_call(tok)
    return '%s:%s' % (mode, fn)


def own_error(tok, baseline):
    """The error a call raises as its own according to the untouched-logger baseline (None: it returns there)."""
    b = str(baseline.get(baseline_key(tok)))
    return b[6:] if b.startswith('error:') else None


UNSTABLE = 'unstable'       # baseline marker: a seeded stochastic variant whose two identically seeded runs differ
CHILD_BUDGET_S = 300


def signal_of(sig_id, n=96):
    """Deterministic test signals (two tones + trend), identified by a small integer."""
    t = np.linspace(0, 1, n)
    r = np.random.RandomState(1000 + sig_id)
    return (np.sin(2 * np.pi * (5 + sig_id) * t) + 0.5 * np.sin(2 * np.pi * (17 + 2 * sig_id) * t + 0.3)
            + t + 0.05 * r.randn(n))


_PROBE = {'on': False, 'pid': None, 'levels': set(), 'raise': None}


def _level():
    """console level as an integer: -1 = no console handler (get_level() is None), -2 = not interpretable"""
    import logging
    import emd
    lvl = emd.logger.get_level()
    if lvl is None:
        return -1
    try:
        return int(lvl)
    except (TypeError, ValueError):
        n = logging.getLevelName(str(lvl))
        return n if isinstance(n, int) else -2


def _console_level():
    """Levels of the CONSOLE handler(s) of the 'emd' logger read straight from `logging` (the handler named 'console'), not
    through emd.logger.get_level(); [get_level()] when no handler carries that name. Used in histories that log to a file as
    well: there the logger has two handlers and "the console level" must not be taken from whichever handler get_level()
    happens to pick (seeded change C20 r5/1: handlers selected by type, a RotatingFileHandler is a StreamHandler)."""
    import logging
    hs = [h for h in logging.getLogger('emd').handlers if h.get_name() == 'console']
    if not hs:
        return [_level()]
    return [int(h.level) if isinstance(h.level, int) else -2 for h in hs]


class Probe(np.ndarray):
    """The harness-owned signal array. Every numpy ufunc applied to it (or to a view / copy of it) INSIDE the decorated call,
    in the observing process, (a) samples the console level in force at that moment - this is how "the override is in force
    for that call" is observed, independent of any log wording - and (b) raises KeyboardInterrupt / SystemExit when the call
    is to be interrupted. The ufunc itself is evaluated on plain ndarray views, so the numbers are those of a plain array."""

    def __array_ufunc__(self, ufunc, method, *inputs, out=None, **kw):
        if _PROBE['on'] and os.getpid() == _PROBE['pid']:
            _PROBE['levels'].add(_level())
            if _PROBE['raise'] is not None:
                raise _PROBE['raise']()
        ins = tuple(i.view(np.ndarray) if isinstance(i, Probe) else i for i in inputs)
        if out is not None:
            kw['out'] = tuple(o.view(np.ndarray) if isinstance(o, Probe) else o for o in out)
        return getattr(ufunc, method)(*ins, **kw)


def is_call(tok):
    return tok.startswith('c:')


def parse_call(tok):
    p = tok.split(':')
    return p[1], p[2], (p[3] if len(p) > 3 else 's')


def model_token(tok, baseline=None):
    p = tok.split(':')
    if p[0] == 'suf':
        return 'su:' + p[1]
    if p[0] == 'c':
        # whether the body returns or raises is an INPUT of the model: read off the untouched-logger baseline
        returns = own_error(tok, baseline or {}) is None
        # three exits in the model: r (returns), x (raises an Exception), i (left through a BaseException that is not an
        # Exception: the KeyboardInterrupt / SystemExit of modes i / q) - theorem C20.except_only_restore_leaks_on_interrupt
        how = 'r' if returns else 'i' if (len(p) > 2 and p[2] in INTERRUPT) else 'x'
        if p[1] in BAD_VERB:
            return 'cb:%s' % how
        return 'c:%s:%s' % ('N' if p[1] == 'O' else p[1], how)
    return tok


def digest(a):
    """all returned arrays (a tuple result: every element)"""
    if isinstance(a, (tuple, list)):
        return hashlib.sha1('|'.join(digest(x) for x in a).encode()).hexdigest()[:16]
    if a is None:
        return 'none'
    a = np.ascontiguousarray(np.asarray(a).view(np.ndarray) if isinstance(a, np.ndarray) else np.asarray(a))
    return hashlib.sha1(repr((a.shape, str(a.dtype))).encode() + a.tobytes()).hexdigest()[:16]


def _call(tok, env):
    import emd
    v, mode, fn = parse_call(tok)
    x = signal_of(env['sig'])
    kw = {}
    if v != 'O':
        kw['verbose'] = None if v == 'N' else BAD_VERB[v] if v in BAD_VERB else LEVELS[v]
    if mode == 'x':
        x = np.tile(x[:, None, None], (1, 2, 3))
    elif mode == 'y':
        kw['imf_opts'] = {'max_iters': 1, 'sd_thresh': 1e-300}
    x = np.ascontiguousarray(x).view(Probe)
    _PROBE['raise'] = INTERRUPT.get(mode)
    if mode == 'k':
        return emd.sift.sift(X=x, max_imfs=3, **kw)
    if fn == 's':
        return emd.sift.sift(x, max_imfs=3, **kw)
    if fn == 'm':
        return emd.sift.mask_sift(x, max_imfs=2, nprocesses=1, **kw)
    if fn == 'a':
        # array-valued keyword arguments with many significant digits: anything the logging decorators do to the
        # keyword arguments they print (rounding, converting, re-ordering) must not reach the sift
        return emd.sift.mask_sift(x, max_imfs=2, nprocesses=1, mask_amp_mode='abs',
                                  mask_freqs=np.array([0.2123456789, 0.0987654321]),
                                  mask_amp=np.array([1.23456789, 0.87654321]),
                                  imf_opts={'sd_thresh': 0.0512345678, 'rilling_thresh': (0.05, 0.5, 0.05)}, **kw)
    np.random.seed(4242 + env['sig'])
    if fn == 'e':
        return emd.sift.ensemble_sift(x, nensembles=2, max_imfs=2, nprocesses=1, **kw)
    if fn == 'c':
        return emd.sift.complete_ensemble_sift(x, nensembles=2, max_imfs=2, nprocesses=1, **kw)
    raise RuntimeError('unknown call token ' + tok)


def _exec(tok, env):
    import emd
    p = tok.split(':')
    if p[0] in ('su', 'suf'):
        kw = {}
        if p[1] != 'N':
            kw['level'] = LEVELS[p[1]]
        if p[0] == 'suf':
            kw['log_file'] = os.path.join(env['tmp'], 'emd.log')
        emd.logger.set_up(**kw)
    elif p[0] == 'sl':
        emd.logger.set_level(LEVELS[p[1]])
    elif p[0] == 'dis':
        emd.logger.disable()
    elif p[0] == 'en':
        emd.logger.enable()
    elif p[0] == 'c':
        return _call(tok, env)
    else:
        raise RuntimeError('unknown token ' + tok)
    return None


def observe(tok, env):
    """Execute one operation in THIS process; return
    [level after, error kind, output digest, info text shown, debug text shown, console levels sampled inside the call]
    + [[console handler level(s) directly before the call, directly after]] for a decorated call in a history that logs to a file."""
    from common.framework import err_kind
    buf = env['out']
    mark = len(buf.getvalue())
    err, dig = None, None
    direct = bool(env.get('direct')) and is_call(tok)
    cbefore = _console_level() if direct else None
    _PROBE.update(on=is_call(tok), pid=os.getpid(), levels=set(), **{'raise': None})
    try:
        r = _exec(tok, env)
        if r is not None:
            _PROBE['on'] = False
            dig = digest(r)
    except (KeyboardInterrupt, SystemExit) as e:      # raised by the harness's own probe from inside the call
        err = err_kind(e)
    except Exception as e:  # noqa
        err = err_kind(e)
    finally:
        _PROBE['on'] = False
        _PROBE['raise'] = None
    cafter = _console_level() if direct else None
    text = buf.getvalue()[mark:]
    rec = [_level(), err, dig, int('STARTED: ' in text), int('Input data size' in text), sorted(_PROBE['levels'])]
    return rec + [[cbefore, cafter]] if direct else rec


def _explore(depth, alphabet, env):
    """Fork one child per next operation; the child executes it and explores further."""
    if depth <= 0:
        return []
    res = []
    for tok in alphabet:
        payload = _in_child(lambda: _node(tok, depth, alphabet, env))
        if not isinstance(payload, list):
            payload = [[None, 'ChildDied', None, 0, 0, []], []]
        res.append([tok] + payload)
    return res


def _node(tok, depth, alphabet, env):
    rec = observe(tok, env)
    return [rec, _explore(depth - 1, alphabet, env)]


def _in_child(fn, budget=CHILD_BUDGET_S):
    """Run fn() in a forked child; JSON result through a pipe; None if the child died."""
    r, w = os.pipe()
    pid = os.fork()
    if pid == 0:
        code = 0
        try:
            os.close(r)
            signal.signal(signal.SIGALRM, signal.SIG_DFL)
            signal.alarm(budget)
            try:
                data = json.dumps(fn()).encode()
            except BaseException as e:  # noqa
                import traceback
                data = json.dumps({'__child_error__': traceback.format_exc()[-1500:] or repr(e)}).encode()
            with os.fdopen(w, 'wb') as f:
                f.write(data)
        except BaseException:  # noqa
            code = 1
        finally:
            os._exit(code)
    os.close(w)
    chunks = []
    deadline = time.time() + budget + 30
    with os.fdopen(r, 'rb') as f:
        while True:
            ready, _, _ = select.select([f], [], [], max(0.0, deadline - time.time()))
            if not ready:
                try:
                    os.kill(pid, signal.SIGKILL)
                except OSError:
                    pass
                break
            b = os.read(f.fileno(), 1 << 16)
            if not b:
                break
            chunks.append(b)
    os.waitpid(pid, 0)
    try:
        return json.loads(b''.join(chunks).decode())
    except ValueError:
        return None


def _history_root(start, prefix, depth, alphabet, sig, tmp):
    """Body of the fresh child: redirect the console, reach the start state, run the prefix, explore."""
    # histories whose set-up includes a log file: the console handler's own level is observed around every decorated call
    env = {'out': io.StringIO(), 'errout': io.StringIO(), 'sig': sig, 'tmp': tmp, 'direct': bool(tmp)}
    sys.stdout = env['out']          # the console handler created by set_up binds to this object
    sys.stderr = env['errout']
    import emd
    import logging
    fresh = emd.logger.get_level() is None and logging.root.manager.disable == 0
    if start:
        emd.logger.set_up()
    lvl0 = _level()
    recs = [observe(t, env) for t in prefix]
    tree = _explore(depth, alphabet, env)
    logsize = -1
    lf = os.path.join(tmp, 'emd.log') if tmp else None
    if lf and os.path.exists(lf):
        logging.shutdown()
        logsize = os.path.getsize(lf)
    # the tree is carried as one JSON string so that the evidence file shows it abbreviated
    return {'fresh': int(fresh), 'lvl0': lvl0, 'recs': recs, 'tree': json.dumps(tree),
            'stderr_logging_error': int('--- Logging error ---' in env['errout'].getvalue()),
            'logsize': logsize}


def _baseline_root(sig, keys):
    """Reference outcomes: untouched logger, no verbose argument; one per (way of raising, function). A seeded stochastic
    variant is run twice: when the two runs differ (the library does not draw from the legacy global generator that
    np.random.seed controls) it is marked UNSTABLE and no value claim is made for it."""
    env = {'out': io.StringIO(), 'sig': sig, 'tmp': None}
    sys.stdout = env['out']
    out = {}
    for key in keys:
        mode, fn = key.split(':')
        rec = observe('c:O:%s:%s' % (mode, fn), env)
        out[key] = rec[2] if rec[1] is None else 'error:' + str(rec[1])
        if fn in 'ec':
            rec2 = observe('c:O:%s:%s' % (mode, fn), env)
            if (rec2[2] if rec2[1] is None else 'error:' + str(rec2[1])) != out[key]:
                out[key] = UNSTABLE
    return out


def call_free(toks):
    """the history with every decorated call removed"""
    return [t for t in toks if not is_call(t)]


def _free_root(start, prefix, depth, alphabet, tmp):
    """The same logger operations WITHOUT any decorated call in between: the levels a history must show if calls leave
    nothing behind in the logger ("an override is in force only for that call", "... before set_up is harmless")."""
    env = {'out': io.StringIO(), 'errout': io.StringIO(), 'sig': 0, 'tmp': tmp}
    sys.stdout = env['out']
    sys.stderr = env['errout']
    import emd
    if start:
        emd.logger.set_up()
    lvl0 = _level()
    recs = [observe(t, env)[:2] for t in prefix]
    tree = _explore(depth, alphabet, env)
    return {'lvl0': lvl0, 'recs': recs, 'tree': json.dumps(tree)}


def free_levels(out, toks):
    """[(level, error)] after each logger operation of `toks` in the call-free run, or None if that run does not hold it"""
    fr = out.get('free')
    if not fr:
        return None
    want = call_free(toks)
    res = [tuple(r[:2]) for r in fr['recs']]
    n = len(res)
    if want[:n] != fr['prefix']:
        return None
    nodes = json.loads(fr['tree'])
    for t in want[n:]:
        hit = [nd for nd in nodes if nd[0] == t]
        if not hit:
            return None
        res.append(tuple(hit[0][1][:2]))
        nodes = hit[0][2]
    return res


def run_history(start, prefix, depth=0, alphabet=ALPHABET, sig=0):
    """Run (and, with depth > 0, exhaustively extend) a history in fresh forked children."""
    needs_file = any(t.startswith('suf') for t in prefix)
    tmp = tempfile.mkdtemp(prefix='emdlog-') if needs_file else None
    try:
        fns = sorted({baseline_key(t) for t in list(prefix) + (list(alphabet) if depth > 0 else []) if is_call(t)})
        base = _in_child(lambda: _baseline_root(sig, fns)) if fns else {}
        out = _in_child(lambda: _history_root(start, list(prefix), depth, list(alphabet), sig, tmp or ''))
        if not isinstance(out, dict) or '__child_error__' in out:
            raise RuntimeError('history child died or timed out: %r' % (out,))
        out['baseline'] = base
        fpre = call_free(prefix)
        free = _in_child(lambda: _free_root(start, fpre, depth, call_free(alphabet) if depth > 0 else [], tmp or ''))
        if isinstance(free, dict) and '__child_error__' not in free:
            free['prefix'] = fpre
            out['free'] = free
        return out
    finally:
        if tmp:
            shutil.rmtree(tmp, ignore_errors=True)


def leaves(out, prefix):
    """Yield (tokens, records) for every complete history contained in an output of run_history."""
    def walk(nodes, toks, recs):
        for tok, rec, kids in nodes:
            if kids:
                yield from walk(kids, toks + [tok], recs + [rec])
            else:
                yield toks + [tok], recs + [rec]
    tree = json.loads(out['tree'])
    if tree:
        yield from walk(tree, list(prefix), list(out['recs']))
    else:
        yield list(prefix), list(out['recs'])
