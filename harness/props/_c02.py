"""Shared pieces of the C02 check: signal families, transformed runs through the public API, the replay that
measures decision margins (public interp_envelope / sd_stop / rilling_stop / fixed_stop / energy_stop only),
and the metamorphic comparisons.  Nothing here knows the Lean model."""
import json
import math

import numpy as np

TOL = 1e-9            # value tolerance, times max(1, |x|_inf)            (DESIGN.md 3, rule 1)
GUARD = 1e-7          # relative decision margin below which a case is skipped and counted   (rule 2)
ENERGY_GUARD = 1e-12  # the energy flag under +-2^k: exact in Q, two separately rounded log10 in floats
BAND = 2.0 ** 9       # sift_thresh is absolute: scale checks are skipped when a column abs-sum is this close to it

POW2 = [s * 2.0 ** k for k in range(-8, 9) for s in (1.0, -1.0)]      # the 34 factors +-2^k, |k| <= 8
MODES = ['peaks', 'troughs', 'abs_peaks']
SWAP = {'peaks': 'troughs', 'troughs': 'peaks', 'abs_peaks': 'abs_peaks',
        'upper': 'lower', 'lower': 'upper', 'combined': 'combined'}
EMODES = ['upper', 'lower', 'combined']
METHODS = ['splrep', 'pchip', 'mono_pchip']
FAMILIES = ['noise', 'walk', 'tones', 'amfm', 'integer', 'plateau', 'few']


def is_pow2(c):
    m, _ = math.frexp(abs(c))
    return m == 0.5


def factor_for(mode, c):
    """the factor by which magnitudes / envelopes of kind `mode` scale under x -> c*x"""
    return abs(c) if mode in ('abs_peaks', 'combined') else c


def source_mode(mode, c):
    """the kind of extremum / envelope of x that kind `mode` of c*x corresponds to"""
    return SWAP[mode] if c < 0 else mode


# ---------------------------------------------------------------------------------------------
# signals of order-one amplitude


def make_signal(rng, n, fam):
    t = np.arange(n, dtype=float)
    if fam == 'noise':
        x = np.array([rng.gauss(0, 1) for _ in range(n)])
    elif fam == 'walk':
        x = np.cumsum([rng.gauss(0, 0.4) for _ in range(n)])
    elif fam == 'tones':
        x = np.zeros(n)
        for _ in range(rng.choice([2, 3])):
            x = x + rng.uniform(0.3, 1.0) * np.sin(2 * np.pi * rng.uniform(0.01, 0.4) * t + rng.uniform(0, 6.28))
        x = x + rng.uniform(-1.5, 1.5) * t / max(n, 1) + rng.uniform(-0.5, 0.5)
    elif fam == 'amfm':
        f = rng.uniform(0.05, 0.3)
        x = (1 + 0.5 * np.sin(2 * np.pi * rng.uniform(0.005, 0.05) * t)) * \
            np.sin(2 * np.pi * f * t + rng.uniform(0.5, 2.5) * np.sin(2 * np.pi * rng.uniform(0.005, 0.04) * t))
        x = x + rng.uniform(0, 0.6) * np.sin(2 * np.pi * f / rng.uniform(3, 8) * t + rng.uniform(0, 6.28))
    elif fam == 'integer':
        x = np.array([float(rng.randint(-3, 3)) for _ in range(n)])
    elif fam == 'plateau':
        x = np.sin(2 * np.pi * rng.uniform(0.02, 0.2) * t + rng.uniform(0, 6.28)) + \
            rng.uniform(0.2, 0.8) * np.sin(2 * np.pi * rng.uniform(0.1, 0.45) * t)
        q = rng.choice([0.5, 0.25, 0.125])
        x = np.round(x / q) * q
    elif fam == 'few':
        # a short zig-zag with 2-3 peaks and 2-3 troughs: drives extractions onto the extrema-vanish path
        k = rng.choice([4, 5, 6])
        pos = sorted(rng.sample(range(1, max(n - 1, k + 1)), min(k, max(n - 2, 1))))
        knots = [0] + pos + [n - 1]
        vals = [rng.uniform(-0.3, 0.3)]
        sgn = rng.choice([1, -1])
        for _ in pos:
            vals.append(sgn * rng.uniform(0.4, 1.5))
            sgn = -sgn
        vals.append(rng.uniform(-0.3, 0.3))
        x = np.interp(t, knots, vals)
        if rng.random() < 0.5:
            x = np.round(x * 4) / 4
    else:
        raise ValueError(fam)
    return [float(v) for v in x]


def few_n(rng):
    return rng.randint(5, 16)


# ---------------------------------------------------------------------------------------------
# options (JSON-able) -> keyword dictionaries of the public functions


# "every ... padding setting": np.pad rules for the extrema magnitudes that are themselves linear, odd under negation and
# mirror-symmetric (the law cannot hold for e.g. 'maximum' or a non-zero 'constant', and is not claimed for them); the
# location rule must keep the locations strictly increasing beyond both edges: the (default) odd reflection, given explicitly
MAG_PADS = [{'mode': 'mean', 'stat_length': 3}, {'mode': 'mean', 'stat_length': 2}, {'mode': 'median', 'stat_length': 3},
            {'mode': 'edge'}, {'mode': 'reflect'}, {'mode': 'symmetric'}, {'mode': 'median', 'stat_length': 1}]
LOC_PAD = {'mode': 'reflect', 'reflect_type': 'odd'}


def random_pad_opts(rng, o):
    """adds o['mag_pad'] (and sometimes the explicit default o['loc_pad']) in place"""
    o['mag_pad'] = dict(rng.choice(MAG_PADS))
    if rng.random() < 0.5:
        o['loc_pad'] = dict(LOC_PAD)
    return o


def has_custom_pad(o):
    return bool(o.get('mag_pad') or o.get('loc_pad'))


def random_opts(rng, allow_parab=True):
    stop = rng.choice(['sd', 'rilling', 'fixed'])
    o = {'stop': stop, 'step': rng.choice([1.0, 0.5, 1.0 / 3.0, 0.25]),
         'method': rng.choice(METHODS), 'pad': rng.choice([1, 2, 3, 4, 5]),
         'parab': int(allow_parab and rng.random() < 0.2)}
    if stop == 'sd':
        o['sd_thresh'] = rng.choice([0.05, 0.1, 0.2, 0.5])
        o['max_iters'] = rng.choice([1000, 1000, 1000, 20, 4])
    elif stop == 'rilling':
        o['rilling'] = rng.choice([[0.05, 0.5, 0.05], [0.1, 1.0, 0.1], [0.2, 0.5, 0.25]])
        o['max_iters'] = rng.choice([1000, 1000, 200, 10])
    else:
        o['max_iters'] = rng.choice([1, 2, 3, 5, 10])
    if rng.random() < 0.15:
        o['energy'] = rng.choice([50.0, 20.0, 5.0])
    return o


def imf_kwargs(o):
    kw = {'stop_method': o['stop'], 'env_step_size': o['step'], 'max_iters': int(o['max_iters'])}
    if o['stop'] == 'sd':
        kw['sd_thresh'] = o['sd_thresh']
    if o['stop'] == 'rilling':
        kw['rilling_thresh'] = tuple(o['rilling'])
    if o.get('energy') is not None:
        kw['energy_thresh'] = o['energy']
    return kw


def env_kwargs(o):
    return {'interp_method': o['method']}


_SHARED = {}


def begin_case():
    """forget the option dictionaries handed out so far (called at the start of every case)"""
    _SHARED.clear()


def _shared_dict(d):
    """the SAME dictionary object for equal contents within one case: a caller who keeps one options dictionary and passes it to
    every call (base run, rescaled runs, reversed run) is the ordinary way of sifting "with the same options"; code that respects
    C02 never modifies it (round-3 seeded change: get_padded_extrema pop()-ed 'mode' out of the caller's dictionary)"""
    key = json.dumps(d, sort_keys=True)
    if key not in _SHARED:
        _SHARED[key] = dict(d)
    return _SHARED[key]


def ext_kwargs(o):
    kw = {'pad_width': int(o['pad']), 'parabolic_extrema': bool(o.get('parab', 0))}
    if o.get('mag_pad'):
        kw['mag_pad_opts'] = _shared_dict(o['mag_pad'])
    if o.get('loc_pad'):
        kw['loc_pad_opts'] = _shared_dict(o['loc_pad'])
    return kw


# ---------------------------------------------------------------------------------------------
# runs through the public API; an outcome is {'kind': 'ok', ...} or {'kind': 'error', 'error': name}


def _err(e):
    return {'kind': 'error', 'error': type(e).__name__, 'msg': str(e)[:120]}


class Timeout(Exception):
    pass


RUN_BUDGET_S = 60.0


class run_limit:
    """wall-clock budget for one library run (SIGALRM; nested inside the framework's per-case alarm, which it restores)"""

    def __init__(self, seconds=None):
        self.seconds = RUN_BUDGET_S if seconds is None else seconds

    def _raise(self, *a):
        raise Timeout('no result after %.0f s' % self.seconds)

    def __enter__(self):
        import signal
        import time
        self.t0 = time.time()
        self.old = signal.signal(signal.SIGALRM, self._raise)
        self.left = signal.setitimer(signal.ITIMER_REAL, self.seconds)[0]

    def __exit__(self, *a):
        import signal
        import time
        signal.setitimer(signal.ITIMER_REAL, 0)
        signal.signal(signal.SIGALRM, self.old)
        if self.left:
            signal.setitimer(signal.ITIMER_REAL, max(0.01, self.left - (time.time() - self.t0)))
        return False


def run_gni(x, o):
    import emd
    X = np.array(x, dtype=float)
    try:
        with run_limit():
            imf, flag = emd.sift.get_next_imf(X, envelope_opts=env_kwargs(o), extrema_opts=ext_kwargs(o), **imf_kwargs(o))
    except Exception as e:  # noqa
        return _err(e)
    return {'kind': 'ok', 'imf': np.asarray(imf, dtype=float).reshape(len(X), -1), 'flag': bool(flag)}


def run_sift(x, o):
    import emd
    X = np.array(x, dtype=float)
    kw = {'imf_opts': imf_kwargs(o), 'envelope_opts': env_kwargs(o), 'extrema_opts': ext_kwargs(o),
          'sift_thresh': o.get('sift_thresh', 1e-8), 'max_imfs': o.get('max_imfs')}
    try:
        with run_limit():
            imf = emd.sift.sift(X, **kw)
    except Exception as e:  # noqa
        return _err(e)
    return {'kind': 'ok', 'imf': np.asarray(imf, dtype=float).reshape(len(X), -1)}


def mask_kwargs(o):
    mk = o['mask']
    amp = mk['amp']
    freqs = mk['freqs']
    return {'mask_amp': np.array(amp, dtype=float) if isinstance(amp, list) else amp,
            'mask_amp_mode': mk['mode'],
            'mask_freqs': np.array(freqs, dtype=float) if isinstance(freqs, list) else freqs,
            'mask_step_factor': mk.get('step_factor', 2), 'max_imfs': int(mk['max_imfs']),
            'sift_thresh': o.get('sift_thresh', 1e-8), 'nphases': int(mk['nphases']), 'nprocesses': 1,
            'imf_opts': imf_kwargs(o), 'envelope_opts': env_kwargs(o), 'extrema_opts': ext_kwargs(o)}


def run_mask(x, o):
    import emd
    X = np.array(x, dtype=float)
    try:
        with run_limit():
            imf, freqs = emd.sift.mask_sift(X, ret_mask_freq=True, **mask_kwargs(o))
    except Exception as e:  # noqa
        return _err(e)
    return {'kind': 'ok', 'imf': np.asarray(imf, dtype=float).reshape(len(X), -1),
            'freqs': [float(v) for v in np.asarray(freqs, dtype=float).ravel()]}


# ---------------------------------------------------------------------------------------------
# replay of the iterations with public functions: decision margins of the base run


class Margins:
    """smallest relative distance of a decision of the base run from its threshold, per layer of the sift"""

    def __init__(self):
        self.stop = math.inf        # stop rules (sd / rilling), energy flag, zero-crossing count
        self.ext = math.inf         # extrema detection: smallest gap between neighbouring samples, relative to |x|_inf
        self.where = ''
        self.layers = []            # per layer [stop, ext]
        self.thresh = math.inf      # |abs-sum - sift_thresh| / sift_thresh (matters for time reversal only)
        self.energy = math.inf      # energy flag only (20 log10 of an energy ratio: scale-free in Q, not bit-invariant under 2^k)

    def begin_layer(self):
        self.layers.append([math.inf, math.inf])

    def see_stop(self, m, where):
        if m != m:
            return
        if not self.layers:
            self.begin_layer()
        self.layers[-1][0] = min(self.layers[-1][0], float(m))
        if m < self.stop:
            self.stop, self.where = float(m), where

    def see_ext(self, m):
        if m != m:
            return
        if not self.layers:
            self.begin_layer()
        self.layers[-1][1] = min(self.layers[-1][1], float(m))
        if m < self.ext:
            self.ext = float(m)

    def first_tie(self):
        """(layer index, 'stop' | 'extrema') of the first layer with a decision at rounding distance, or None"""
        for k, (st, ex) in enumerate(self.layers):
            if st < GUARD:
                return k, 'stop'
            if ex < GUARD:
                return k, 'extrema'
        return None

    def to_json(self):
        f = lambda v: None if math.isinf(v) else v   # noqa: E731
        return {'stop': f(self.stop), 'where': self.where, 'ext': f(self.ext), 'first_tie': self.first_tie(),
                'sift_thresh': f(self.thresh)}


def _gap(h, scale, raw):
    """smallest |h[i+1]-h[i]| relative to the signal scale.  On the raw input exact ties are robust (a tie stays a
    tie under any rescaling and under reversal); in computed iterates a tie is an accident of rounding."""
    d = np.abs(np.diff(np.asarray(h, dtype=float).ravel()))
    if raw:
        d = d[d > 0]
    if d.size == 0:
        return math.inf
    return float(d.min()) / scale


def replay_gni(x, o, scale, mg, raw=True, tag=''):
    """The loop of get_next_imf re-run with the public building blocks.  Returns (outcome, iterations, exit)."""
    import emd
    S = emd.sift
    eo, xo = env_kwargs(o), ext_kwargs(o)
    stop, step, max_iters = o['stop'], o['step'], int(o['max_iters'])
    X = np.array(x, dtype=float)
    proto = X.copy()
    flag = True
    niters = 0
    exit_ = None
    with np.errstate(all='ignore'):
        while True:
            if stop != 'fixed' and niters > max_iters:
                return {'kind': 'error', 'error': 'EMDSiftCovergeError'}, niters, 'converge-error'
            niters += 1
            mg.see_ext(_gap(proto, scale, raw and niters == 1))
            if xo.get('parabolic_extrema'):
                # refined locations are floats: the re-padding test max(locs) < n or min(locs) >= 0 can sit on a tie
                for mode in ('peaks', 'troughs'):
                    locs, _ = S.get_padded_extrema(proto, mode=mode, **xo)
                    if locs is not None:
                        mg.see_ext(float(min(min(abs(v), abs(v - len(X))) for v in locs)))
            upper = S.interp_envelope(proto, mode='upper', **eo, extrema_opts=xo)
            lower = S.interp_envelope(proto, mode='lower', **eo, extrema_opts=xo)
            if upper is None or lower is None:
                # the sift as a whole is finished only when the input itself has too few extrema (returned unmodified)
                flag = niters != 1
                exit_ = 'no-extrema' if niters == 1 else 'extrema-vanished'
                break
            avg = np.mean([upper, lower], axis=0)
            x1 = proto - avg
            if stop == 'sd':
                st, metric = S.sd_stop(proto, x1, sd=o['sd_thresh'])
                mg.see_stop(abs(float(metric) - o['sd_thresh']) / o['sd_thresh'], '%ssd it=%d' % (tag, niters))
            elif stop == 'rilling':
                sd1, sd2, tol = o['rilling']
                st, _ = S.rilling_stop(upper, lower, sd1=sd1, sd2=sd2, tol=tol)
                ev = np.abs((upper + lower) / 2) / (np.abs(upper - lower) / 2)
                ev = ev[np.isfinite(ev)]
                if ev.size:
                    mg.see_stop(float(np.min(np.abs(ev - sd1))) / sd1, '%srilling sd1 it=%d' % (tag, niters))
                    mg.see_stop(float(np.min(np.abs(ev - sd2))) / sd2, '%srilling sd2 it=%d' % (tag, niters))
            else:
                st = S.fixed_stop(niters, max_iters)
            if st:
                proto = x1
                exit_ = 'stopped'
                break
            proto = proto - step * avg
        if o.get('energy') is not None:
            st, diff = S.energy_stop(X, X - proto, thresh=o['energy'])
            if math.isfinite(float(diff)):
                mg.see_stop(abs(float(diff) - o['energy']) / abs(o['energy']), '%senergy' % tag)
                mg.energy = min(mg.energy, abs(float(diff) - o['energy']) / abs(o['energy']))
            if st:
                flag = False
                exit_ += '+energy'
    return {'kind': 'ok', 'imf': proto.reshape(len(X), 1), 'flag': flag}, niters, exit_


def near(a, b, tol):
    a = np.asarray(a, dtype=float)
    b = np.asarray(b, dtype=float)
    if a.shape != b.shape:
        return False
    with np.errstate(all='ignore'):
        d = np.abs(a - b)
    same_nan = np.isnan(a) == np.isnan(b)
    return bool(np.all(same_nan) and np.all((d <= tol) | np.isnan(a) | (a == b)))


def replay_sift(x, base, o, scale, mg, tol):
    """Layer by layer on the implementation's own residuals (on the replay's own ones when the implementation raised).
    Returns (desync description or None, (iterations, exits))."""
    X = np.array(x, dtype=float)
    thr = o.get('sift_thresh', 1e-8)
    iters, exits = [], []
    if base['kind'] != 'ok':
        cols = []
        for k in range(64):
            proto = X.copy() if k == 0 else X - np.array(cols).T.sum(axis=1)
            mg.begin_layer()
            out, ni, ex = replay_gni(proto, o, scale, mg, raw=(k == 0), tag='layer %d ' % k)
            iters.append(ni)
            exits.append(ex)
            if out['kind'] != 'ok':
                return (None if out['error'] == base['error'] else 'replay raises %s, implementation %s' % (out['error'], base['error'])), (iters, exits)
            cols.append(out['imf'][:, 0])
            if not out['flag'] or (o.get('max_imfs') is not None and k + 1 == o['max_imfs']) or float(np.abs(cols[-1]).sum()) < thr:
                break
        return 'replay returns %d columns, implementation raises %s' % (len(cols), base['error']), (iters, exits)
    base_imf = base['imf']
    for k in range(base_imf.shape[1]):
        proto = X.copy() if k == 0 else X - base_imf[:, :k].sum(axis=1)
        mg.begin_layer()
        out, ni, ex = replay_gni(proto, o, scale, mg, raw=(k == 0), tag='layer %d ' % k)
        iters.append(ni)
        exits.append(ex)
        if out['kind'] != 'ok':
            return 'layer %d: replay raises %s but the implementation returned a column' % (k, out['error']), (iters, exits)
        if not near(out['imf'][:, 0], base_imf[:, k], tol):
            return 'layer %d: replay of get_next_imf differs from the returned column by %.3g' % (
                k, float(np.nanmax(np.abs(out['imf'][:, 0] - base_imf[:, k])))), (iters, exits)
        s = float(np.abs(base_imf[:, k]).sum())
        if thr > 0:
            mg.thresh = min(mg.thresh, abs(s - thr) / thr)
    return None, (iters, exits)


DEFAULT_ENV = {'method': 'splrep', 'pad': 2, 'parab': 0}


def replay_mask(x, base, o, scale, mg, tol):
    """mask_sift layer by layer: masks by the documented rule amp*cos(2 pi z t + phase_i), amp = mask_amp * std, each masked
    signal through the replayed get_next_imf.  Returns a desync description or None."""
    X = np.array(x, dtype=float)
    n = len(X)
    mk = o['mask']
    imf, freqs = base['imf'], base['freqs']
    nph = int(mk['nphases'])
    t = np.arange(n)
    phases = np.linspace(0, 2 * np.pi, nph + 1)[:nph]
    thr = o.get('sift_thresh', 1e-8)
    if mk['freqs'] == 'zc':
        mg.begin_layer()
        first = run_gni(x, o)
        if first['kind'] == 'ok':
            v = np.abs(first['imf'][:, 0])
            if np.array_equal(first['imf'][:, 0], X):
                v = v[v > 0]        # the input itself came back: an exact zero stays an exact zero under rescaling
            # otherwise a sample that is exactly 0 after mean removal (0.25 - 0.25) is an accident of rounding: sign() of it
            # counts as two crossings here and as none / one after rescaling by a real factor
            if v.size:
                mg.see_stop(float(v.min()) / scale, 'zero-crossing count of the unmasked first IMF')
            replay_gni(x, o, scale, mg, raw=True, tag='zc ')
    for k in range(imf.shape[1]):
        proto = X.copy() if k == 0 else X - imf[:, :k].sum(axis=1)
        sd = X.std() if (mk['mode'] == 'ratio_sig' or k == 0) else imf[:, k - 1].std()
        a = mk['amp'][k] if isinstance(mk['amp'], list) else mk['amp']
        amp = a * sd
        mg.begin_layer()
        cols = []
        for i in range(nph):
            m = amp * np.cos(2 * np.pi * freqs[k] * t + phases[i])
            out, _, _ = replay_gni(proto + m, o, scale, mg, raw=False, tag='layer %d phase %d ' % (k, i))
            if out['kind'] != 'ok':
                return 'layer %d phase %d: replay raises %s' % (k, i, out['error'])
            cols.append(out['imf'][:, 0] - m)
        col = np.mean(cols, axis=0)
        if not near(col, imf[:, k], tol):
            return 'layer %d: mean over %d masked extractions (masks amp*cos(2 pi z t + phase)) differs from the returned column by %.3g' % (
                k, nph, float(np.nanmax(np.abs(col - imf[:, k]))))
        s = float(np.abs(imf[:, k]).sum())
        if thr > 0:
            mg.thresh = min(mg.thresh, abs(s - thr) / thr)
    return None


# ---------------------------------------------------------------------------------------------
# metamorphic verdicts:  ('ok' | 'skip' | 'fail', kind, detail)


def band_column(base_imf, thr):
    """index of the first column whose abs-sum lies within a factor 2^9 of the absolute sift_thresh (None: none does)"""
    if thr <= 0:
        return None
    for k in range(base_imf.shape[1]):
        s = float(np.abs(base_imf[:, k]).sum())
        if thr / BAND <= s <= thr * BAND:
            return k
    return None


def _dev(a, b):
    with np.errstate(all='ignore'):
        d = np.abs(np.asarray(a, dtype=float) - np.asarray(b, dtype=float))
        return float(np.nanmax(d)) if d.size and not np.all(np.isnan(d)) else 0.0


def _verdict(label, desc, base, res_imf_fn, res, scale, mg, exact, band, check_flag, eq):
    """shared logic.  Columns that must agree: all of them, unless
       - (tolerance checks) a layer of the base run has a decision at rounding distance: only the columns before it;
       - (scale checks of sift / mask_sift) a column abs-sum lies within 2^9 of the absolute sift_thresh: up to and including it."""
    tie = None if exact else mg.first_tie()
    if (base['kind'] == 'error' and base['error'] == 'Timeout') or (res['kind'] == 'error' and res['error'] == 'Timeout'):
        return ('skip', label + ':timeout', 'a run exceeded its wall-clock budget (run time is not C02\'s subject)')
    if base['kind'] == 'error' or res['kind'] == 'error':
        if base['kind'] == res['kind']:
            return ('ok', label, '')       # both runs are rejected: the statement is silent on which error class is raised
        if exact and mg.energy < ENERGY_GUARD:
            return ('skip', label + ':near-tie-energy', mg.where)
        if tie is not None:
            return ('skip', '%s:near-tie-%s' % (label, tie[1]), 'layer %d (%s)' % (tie[0], mg.where))
        if band is not None and base['kind'] == 'ok':
            return ('skip', label + ':sift-thresh-band', 'column %d abs-sum within 2^9 of sift_thresh' % band)
        return ('fail', label + ':outcome-differs', '%s: base %s, transformed %s' % (desc, base.get('error', 'returns'), res.get('error', 'returns')))
    b, r = base['imf'], res_imf_fn(res['imf'])
    limit, why = None, None
    if tie is not None:
        limit, why = tie[0], '%s:near-tie-%s' % (label, tie[1])
    if band is not None and (limit is None or band + 1 <= limit):
        limit, why = band + 1, label + ':sift-thresh-band'
    if limit is not None and tie is not None and tie[1] == 'extrema' and limit == tie[0] and r.shape == b.shape and eq(r, b):
        limit = None       # two samples of an iterate are within rounding distance, but the outputs agree in full anyway
    if limit is not None:
        if limit == 0:
            return ('skip', why, 'first layer (%s)' % mg.where)
        if (r.shape[1] < limit or b.shape[1] < limit) and tie is not None and not exact:
            return ('skip', why + ':upstream', 'fewer columns than the layer of the near tie')
        if r.shape[1] < limit or b.shape[1] < limit:
            return ('fail', label + ':columns-before-near-tie-missing', '%s: %d columns, base has %d, first %d must agree (%s)'
                    % (desc, r.shape[1], b.shape[1], limit, why))
        if eq(r[:, :limit], b[:, :limit]):
            return ('skip', why, 'columns before layer %d agree' % limit)
        if tie is not None and not exact:
            # a decision at rounding distance was found somewhere in the base run: which layer it first influences cannot be
            # pinned down reliably (e.g. the 'zc' mask frequency comes from a preliminary extraction and feeds EVERY layer;
            # flat pchip envelopes carry ties from layer to layer), so nothing is demanded of such a case
            # (clean-tree alarms of the thorough sweep, seed 37)
            return ('skip', why + ':upstream', 'columns before layer %d differ as well' % limit)
        return ('fail', label + ':columns-before-near-tie-differ', '%s: max deviation over the first %d columns = %.3g (%s)'
                % (desc, limit, _dev(res_imf_fn(res['imf'])[:, :limit] if exact else r[:, :limit], b[:, :limit]), why))
    if exact and mg.energy < ENERGY_GUARD and (r.shape != b.shape or not eq(r, b) or base.get('flag') != res.get('flag')):
        return ('skip', label + ':near-tie-energy', mg.where)
    if r.shape != b.shape:
        return ('fail', label + ':imf-count-differs', '%s: %d columns, base %d (smallest stop margin %s at %s; smallest sample gap %s)'
                % (desc, r.shape[1], b.shape[1], mg.stop, mg.where, mg.ext))
    if not eq(r, b):
        return ('fail', label + (':not-bit-exact' if exact else ':differs'), '%s: max deviation = %.3g (tolerance %s; smallest stop margin %s)'
                % (desc, _dev(r, b), 0 if exact else TOL * scale, mg.stop))
    if check_flag and 'flag' in base and base['flag'] != res.get('flag'):
        if mg.stop < GUARD:
            return ('skip', label + ':near-tie-energy', mg.where)
        # the continue flag is not an IMF (the statement speaks about extracted IMFs): mechanism-level
        return ('fail-mechanism', label + ':continue-flag-differs', '%s: base %s, transformed %s' % (desc, base['flag'], res.get('flag')))
    return ('ok', label, '')


def verdict_scale(what, c, base, res, scale, mg, exact, thr=None, flag=True, cls=None):
    """f(c*x) against c*f(x).  exact: bit-for-bit (np.array_equal, no tolerance, no near-tie skipping); otherwise within TOL
    after dividing by c, under the near-tie guard.  thr: the absolute sift_thresh of sift / mask_sift (None: no such test)."""
    label = '%s:scale-%s' % (what, cls or ('pow2' if exact else 'real'))
    band = None
    if thr is not None:
        if base['kind'] == 'ok':
            band = band_column(base['imf'], thr)
        elif res['kind'] == 'ok':
            band = band_column(res['imf'] / abs(c), thr)
            if band is not None:
                return ('skip', label + ':sift-thresh-band', 'base raises %s; column %d of the scaled run within 2^9 of sift_thresh' % (base['error'], band))
    if exact:
        return _verdict(label, 'c=%r' % c, base, lambda a: a, res, scale, mg, True, band, flag,
                        lambda r, b: bool(np.array_equal(r, c * b, equal_nan=True)))
    return _verdict(label, 'c=%r' % c, base, lambda a: a / c, res, scale, mg, False, band, flag,
                    lambda r, b: near(r, b, TOL * scale))


def verdict_reverse(what, base, res, scale, mg):
    """f(reversed x) against reversed f(x), within TOL, under the near-tie guard (incl. the sift_thresh decision)"""
    label = what + ':reverse'
    if mg.thresh < GUARD:
        return ('skip', label + ':near-tie-sift-thresh', '')
    return _verdict(label, 'reversed', base, lambda a: a[::-1], res, scale, mg, False, None, True,
                    lambda r, b: near(r, b, TOL * scale))


def real_factors(rng):
    """two arbitrary non-zero reals, one of each sign, |c| log-uniform in [2^-8, 2^8]"""
    out = []
    for s in (1.0, -1.0):
        c = s * math.exp(rng.uniform(-8 * math.log(2), 8 * math.log(2)))
        if is_pow2(c):
            c *= 1.1
        out.append(c)
    return out


def is_exact_kind(kind):
    """verdict kinds of the bit-for-bit class (+-2^k): they do not depend on any measured margin"""
    return ':scale-pow2' in kind


def summarise(verdicts, margins_unknown=False):
    """fails: [kind, detail, literal].  margins_unknown (the replay that measures the decision margins does not reproduce the
    run): the guard band of the tolerance-class verdicts (real c, reversal, negative c with masks) is unknown, so those are
    mechanism-level; the bit-for-bit verdicts stay literal."""
    fails = []
    for v, k, d in verdicts:
        if v == 'fail':
            fails.append([k, d, not (margins_unknown and not is_exact_kind(k))])
        elif v == 'fail-mechanism':
            fails.append([k, d, False])
    skips = sorted({k for v, k, d in verdicts if v == 'skip'})
    return fails, skips
