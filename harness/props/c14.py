"""C14 — per-cycle statistics and phase alignment use exactly each cycle's samples."""
import itertools
import math
from fractions import Fraction

import numpy as np

from common import proto
from common.framework import Failure, ImplError, Stream

ID = 'C14'
LEAN_MODULES = ['Proofs.C14']
REQUIRED = ['C14.cycleStat_spec', 'C14.cycle_samples_exact', 'C14.getCycleStat_cycles', 'C14.project_spec', 'C14.getCycleStat_samples', 'C14.linInterp_affine', 'C14.alignCycle_affine', 'C14.phaseAlign_affine', 'C14.phaseAlign_returns_iff', 'C14.alignCycle_one_sample', 'C14.digitize_spec', 'C14.binByPhase_spec', 'C14.binByPhaseW_spec',
            'C14.sample_on_edge_in_bin_above', 'C14.first_edge_sample_in_first_bin', 'C14.alignCycle_affine_any_sampling',
            'C14.phaseAlign_default_cycles']
TRUSTED = ['bin centres / edges are taken from the real emd.spectra.define_hist_bins on the same run and handed to the model as data',
           'default cycles of phase_align are taken from the real get_cycle_vector(ip, return_good=False) (property C12) and handed to the model',
           'float results are compared with the exact rational model within 1e-9*max(1, |input|_inf); non-finite floats (NaN, inf) are one class',
           'WHEN phase_align returns is a theorem about the model (C14.phaseAlign_returns_iff: non-empty labels, three equal lengths, at least one '
           'sample for every label 0..max; everything else ValueError; a one-sample cycle is accepted and yields an all-NaN column) and is tied to '
           'the code by the correspondence of stream c14_malformed (error kinds compared exactly)',
           'OBSERVED, NOT CLAIMED (bin_by_phase behaviours outside the property, which speaks about the bin MEANS only; recorded on every run by '
           'stream bin_by_phase_outside, tags only): (1) variance_metric="sem" raises ValueError for every input ("could not broadcast input array '
           'from shape (n,) into shape ()": inds.sum()[None, ...] indexes a numpy integer); (2) weights= with a 1-D x raises IndexError '
           '(x.shape[1]) - weights need a 2-D x; (3) the weighted VARIANCE output is np.average(x - avg**2) instead of np.average((x - avg)**2) '
           '(misplaced parenthesis; e.g. ip=[0.1,0.2,3.3,3.4,6.0,6.1], x=[[1],[3],[10],[20],[5],[7]], unit weights, 3 bins: variances '
           '-2, -210, -30 where the unweighted route gives 1, 25, 1). The weighted and unweighted MEANS are modelled and proved '
           '(binByPhase_spec, binByPhaseW_spec); the variance output of the weighted route and variance_metric are not part of the model']
ASSUMPTIONS = ['scipy interp1d(kind="linear", fill_value="extrapolate") = stable sort by abscissa + searchsorted(left) clipped to [1, n-1] + '
               'straight line through the two neighbours (checked against the real scipy on every phase_align case of the run)',
               'np.digitize on increasing edges = number of edges <= value (checked on every bin_by_phase case)']
RULE = ('get_cycle_stat: exhaustive label vectors over {-1,0,1,2} of length <= L (L=4 quick, 6 thorough) on fixed distinct dyadic values x 7 reducing '
        'functions (np.mean, np.max, np.sum, len, first, last, lambda v: sum(v*v)-3*v[0]) x out in {cycles, samples}, repeated for length <= L-1 on integer '
        'observations stored as int64 and on boolean observations; random recordings up to 600 samples '
        'with contiguous or arbitrary labellings, gaps anywhere, skipped labels, observations stored as float64 (integers, dyadics, constants) or as '
        'int64 / int32 / bool (small and wide integers, sample indices, flags), plus lambda v: sum(v)/2 (instance check only); a fifth of the float cases '
        'is the SECOND call on the same label / value array objects, refilled in place after a first call on another labelling. Entries of labels in '
        '0..max that no sample carries are not judged. phase_align: 1-12 cycles of 8..400 samples (2..7 in the short family: outside the quantifier, '
        'mechanism-level), jittered strictly increasing phase, quantity affine in phase or a smooth function of phase, npoints 2..64, cycles given as a '
        'label vector with gaps or detected by default (then one column per cycle or per good cycle of the phase supplied is accepted); a third of the '
        'default-cycles cases is the second call on the same ip / x arrays refilled in place with another recording; interp_kind linear (model + instance) '
        'or slinear/quadratic/cubic (instance only). bin_by_phase: 2..64 bins or custom increasing edges, integer observations, 1-3 columns, optional '
        'positive weights; in a third of the cases phases exactly on bin edges and 2*pi: bins with a sample on one of their edges are neither judged '
        'nor compared (the property does not say which bin contains such a sample), phases 1e-7 below an edge are. All arrays handed in are writable. '
        'malformed: length mismatch, empty input, skipped labels / one-sample cycles in phase_align. '
        'A case is non-trivial when it has an unlabelled gap and at least two cycles (stat), at least two cycles of different length (align), '
        'a sample in the last bin (binning).')

TWO_PI = 2 * np.pi


# ----------------------------------------------------------------------------- reducing functions

def _lam(v):
    return float(np.sum(v * v) - 3 * v[0])


IMPL_FUNCS = {'mean': np.mean, 'max': np.max, 'sum': np.sum, 'len': len,
              'first': lambda v: v[0], 'last': lambda v: v[-1], 'lambda': _lam,
              'halfsum': lambda v: np.sum(v) / 2}
# user lambda with a non-integral result on integer / boolean observations; not a reducer of the model (instance check only)
INSTANCE_ONLY_FUNCS = ('halfsum',)


class _Raises(Exception):
    pass


def oracle_reduce(name, seg):
    """The reducing function on a plain Python list of Fractions (None = NaN)."""
    if name == 'mean':
        return None if not seg else sum(seg) / len(seg)
    if name == 'sum':
        return sum(seg, Fraction(0))
    if name == 'halfsum':
        return sum(seg, Fraction(0)) / 2
    if name == 'len':
        return Fraction(len(seg))
    if not seg:
        raise _Raises('ValueError' if name == 'max' else 'IndexError')
    if name == 'max':
        return max(seg)
    if name == 'first':
        return seg[0]
    if name == 'last':
        return seg[-1]
    if name == 'lambda':
        return sum(v * v for v in seg) - 3 * seg[0]
    raise KeyError(name)


def fl(a):
    """float array -> JSON list with None for non-finite"""
    return [None if not np.isfinite(v) else float(v) for v in np.asarray(a, dtype=float).ravel()]


def close(impl, model, scale):
    """impl: float or None; model: Fraction or None"""
    if impl is None or model is None:
        return impl is None and model is None
    return abs(Fraction(*float(impl).as_integer_ratio()) - model) <= Fraction(1, 10 ** 9) * scale


def vec_diff(impl, model, scale, what):
    if len(impl) != len(model):
        return '%s: %d entries vs model %d' % (what, len(impl), len(model))
    for i, (a, b) in enumerate(zip(impl, model)):
        if not close(a, b, scale):
            return '%s[%d]: impl=%r model=%s' % (what, i, a, b)
    return None


def scale_of(*arrays):
    m = 1.0
    for a in arrays:
        for v in a:
            if v is not None:
                m = max(m, abs(float(v)))
    return Fraction(m)


# ----------------------------------------------------------------------------- get_cycle_stat

BASE_VALS = [1.0, 2.5, -3.0, 7.25, 0.5, -1.75, 4.0, 10.0]
FUNCS = ['mean', 'max', 'sum', 'len', 'first', 'last', 'lambda']


INT_VALS = [1.0, 2.0, -3.0, 7.0, 0.0, -2.0, 4.0, 10.0]      # stored as int64: means of 2..4 of them are non-integral dyadics/thirds
BOOL_VALS = [1.0, 0.0, 1.0, 1.0, 0.0, 1.0, 0.0, 0.0]        # stored as bool
VDTYPES = ['int64', 'int32', 'bool']                        # storage types of the observations besides float64


def run_stat(cv, vals, fname, out, vdtype=None, prior=None):
    """get_cycle_stat on WRITABLE arrays (the property speaks about values, not numpy flags). prior=(cv0, vals0) of the same
    lengths: the call is the SECOND one on the same array objects, which held cv0 / vals0 during a first call and were refilled
    in place (a work buffer): its result must be the statistic of what the arrays hold NOW."""
    import emd
    c = np.array(cv, dtype=int)
    v = np.array(vals, dtype=float)
    if vdtype not in (None, 'float64'):
        vd = v.astype(vdtype)
        if not np.array_equal(vd.astype(float), v):
            raise RuntimeError('harness: case values are not representable as %s' % vdtype)
        v = vd
    kw = {} if out == 'cycles' else {'out': 'samples'}
    if prior is not None and len(prior[0]) == len(c) and len(prior[1]) == len(v):
        cb, vb = np.array(prior[0], dtype=int), np.array(prior[1], dtype=float).astype(v.dtype)
        try:
            emd.cycles.get_cycle_stat(cb, vb, func=IMPL_FUNCS[fname], **kw)
        except Exception:  # noqa  (the first call is not the subject)
            pass
        cb[:] = c
        vb[:] = v
        c, v = cb, vb
    return fl(emd.cycles.get_cycle_stat(c, v, func=IMPL_FUNCS[fname], **kw))


def stat_op(cv, vals, fname, out):
    return proto.op('CSTAT', {'f': fname, 'out': out}, [vals, cv])


ABSENT = 'no-samples'


def absent_labels(cv):
    K = (max(cv) + 1) if cv else 0
    have = set(cv)
    return [k for k in range(K) if k not in have]


def check_stat(cv, vals, fname, out, res):
    """C14's own words: entry k = f(exactly the samples labelled k); projection constant on cycles, NaN elsewhere.
    A label in 0..max that NO sample carries is not a cycle of the labelling: the property makes no demand on its entry (the code
    evaluates f on an empty selection: NaN for mean, 0 for sum / len, an exception from max / v[0]; reporting NaN, skipping it or
    rejecting the labelling are all "f applied to precisely the samples carrying that label") - not judged (review C)."""
    fv = [proto.fr(v) for v in vals]
    K = (max(cv) + 1) if cv else 0
    absent = set(absent_labels(cv))
    if isinstance(res, dict):
        if absent:
            return []
        return [Failure('stat:raises:%s' % res['error'], 'cv=%s f=%s out=%s' % (cv[:40], fname, out), literal=res['error'] != 'Timeout')]
    expected = [ABSENT if k in absent else oracle_reduce(fname, [v for v, l in zip(fv, cv) if l == k]) for k in range(K)]
    sc = scale_of(vals, [float(e) for e in expected if e is not None and e != ABSENT]) * max(1, len(cv))
    if out == 'cycles':
        if len(res) != K:
            if absent and len(res) == K - len(absent):
                return []            # one entry per label that occurs: a reading the property allows; entries cannot be matched up here
            return [Failure('stat:wrong-length', '%d entries for %d cycles' % (len(res), K))]
        for k in range(K):
            if expected[k] != ABSENT and not close(res[k], expected[k], sc):
                return [Failure('stat:wrong-value', 'cv=%s vals=%s f=%s cycle %d: got %r expected %s'
                                % (cv[:40], vals[:40], fname, k, res[k], expected[k]))]
        return []
    if len(res) != len(cv):
        return [Failure('project:wrong-length', '%d entries for %d samples' % (len(res), len(cv)))]
    for i, l in enumerate(cv):
        if l < 0 and res[i] is not None:
            return [Failure('project:value-outside-cycles', 'cv=%s sample %d -> %r' % (cv[:40], i, res[i]))]
        if l >= 0 and not close(res[i], expected[l], sc):
            kind = 'project:missing-inside-cycle' if res[i] is None and expected[l] is not None else 'project:not-the-cycle-value'
            return [Failure(kind, 'cv=%s vals=%s f=%s sample %d (cycle %d): got %r expected %s'
                            % (cv[:40], vals[:40], fname, i, l, res[i], expected[l]))]
    return []


def guarded(holds):
    """an exception inside the instance check itself is a harness fault, not a property failure"""
    def wrapper(self, case, out):
        try:
            return holds(self, case, out)
        except Exception as e:  # noqa
            return [Failure('instance-check-crashed', repr(e), literal=False)]
    return wrapper


class StatExhaustive(Stream):
    name = 'stat_exhaustive'
    exhaustive = True

    def generate(self, rng, tier):
        L = 6 if tier == 'thorough' else 4
        for n in range(1, L + 1):
            for pre in itertools.product((-1, 0, 1, 2), repeat=min(n, 2)):
                yield {'n': n, 'prefix': list(pre)}
        # the same label vectors on observations stored as integers / booleans (one length shorter)
        for vd in ('int64', 'bool'):
            for n in range(1, L):
                for pre in itertools.product((-1, 0, 1, 2), repeat=min(n, 2)):
                    yield {'n': n, 'prefix': list(pre), 'vdtype': vd}

    def _items(self, case):
        n, pre = case['n'], case['prefix']
        base = {'int64': INT_VALS, 'bool': BOOL_VALS}.get(case.get('vdtype'), BASE_VALS)
        for tail in itertools.product((-1, 0, 1, 2), repeat=n - len(pre)):
            cv = list(pre) + list(tail)
            for f in FUNCS:
                for out in ('cycles', 'samples'):
                    yield cv, base[:n], f, out

    def impl(self, case):
        res = []
        for cv, vals, f, out in self._items(case):
            try:
                res.append(run_stat(cv, vals, f, out, case.get('vdtype')))
            except Exception as e:  # noqa
                res.append({'error': type(e).__name__})
        return res

    def ops(self, case, out):
        return [stat_op(*it) for it in self._items(case)]

    def compare(self, case, out, results):
        if isinstance(out, ImplError):
            return 'implementation raised %s' % out['error']
        for (cv, vals, f, om), o, r in zip(self._items(case), out, results):
            d = compare_stat(cv, vals, f, om, o, r)
            if d and not d.startswith('skip:'):
                return 'cv=%s f=%s out=%s: %s' % (cv, f, om, d)
        return None

    @guarded
    def holds(self, case, out):
        if isinstance(out, ImplError):
            # the whole block failed (time-out / harness fault): reported by compare, not a C14 verdict
            return [Failure('raises:' + out['error'], out['msg'], literal=False)]
        fs = {}
        for (cv, vals, f, om), o in zip(self._items(case), out):
            for x in check_stat(cv, vals, f, om, o):
                fs.setdefault(x.kind, x)
        return list(fs.values())

    def tags(self, case, out):
        return ['n=%d' % case['n'], 'values=' + case.get('vdtype', 'float64')]

    def nontrivial(self, case, out):
        return case['n'] >= 3


def compare_stat(cv, vals, f, om, o, r):
    absent = set(absent_labels(cv))
    if isinstance(o, dict):
        if r.status == 'err' and r.words and (r.words[0] == o['error'] or absent):
            return None
        if absent:
            return 'skip:label-without-samples'        # which of "NaN / 0 / an exception" such a label yields is nobody's promise
        return 'implementation raised %s, model: %s' % (o['error'], r.raw[:80])
    if not r.ok:
        if absent:
            return 'skip:label-without-samples'
        return 'model answered %s, implementation returned %s' % (r.raw[:60], str(o)[:80])
    sc = scale_of(vals) * max(1, len(vals)) * (scale_of(vals) if f == 'lambda' else 1)
    mv = list(r.vecs[0]) if r.vecs else []
    if absent and len(mv) == len(o):
        # entries of labels no sample carries are not compared
        if om == 'cycles':
            keep = [k for k in range(len(o)) if k not in absent]
            return vec_diff([o[k] for k in keep], [mv[k] for k in keep], sc, 'stat (labels with samples)')
    elif absent:
        return 'skip:label-without-samples'
    return vec_diff(o, mv, sc, 'stat')


def gen_labels(rng, n, mode):
    """label vector of length ~n"""
    cv = []
    if mode == 'contiguous':
        k = 0
        while len(cv) < n:
            if rng.random() < 0.35:
                cv += [-1] * rng.randint(1, 6)
            cv += [k] * rng.randint(1, max(1, n // 4))
            k += 1
        if rng.random() < 0.5:
            cv += [-1] * rng.randint(1, 3)
    elif mode == 'skipping':
        k = 0
        while len(cv) < n:
            cv += [k] * rng.randint(1, 5)
            k += rng.choice([1, 1, 2, 3])
            if rng.random() < 0.3:
                cv += [-1]
    elif mode == 'all-gap':
        cv = [-1] * max(1, n)
    else:  # arbitrary labelling
        K = rng.randint(1, 6)
        cv = [rng.randint(-1, K - 1) for _ in range(max(1, n))]
    return cv


class StatRandom(Stream):
    name = 'stat_random'

    def corpus(self):
        return [
            {'cv': [0, -1, 2, 2], 'vals': [0.0, 1.0, 2.0, 3.0], 'f': 'mean', 'out': 'cycles'},      # skipped label -> NaN
            {'cv': [0, -1, 2, 2], 'vals': [0.0, 1.0, 2.0, 3.0], 'f': 'max', 'out': 'cycles'},       # skipped label -> raises
            {'cv': [0, -1, 1, 1], 'vals': [0.0, 1.0, 2.0, 3.0], 'f': 'max', 'out': 'samples'},
            {'cv': [-1, -1], 'vals': [5.0, 6.0], 'f': 'sum', 'out': 'samples'},
            {'cv': [1, 0, 1, 0, -1, 1], 'vals': [1.0, 2.0, 3.0, 4.0, 5.0, 6.0], 'f': 'last', 'out': 'samples'},
            {'cv': [0] * 11, 'vals': [1.0] * 11, 'f': 'len', 'out': 'cycles'},
            # observations stored as integers / booleans, statistic not representable in that type (round-2 seeded change:
            # output allocated with the dtype of the observations, so the statistic and its projection were truncated)
            {'cv': [0, 0, 1, 1, 1, -1], 'vals': [1.0, 2.0, 3.0, 3.0, 4.0, 9.0], 'f': 'mean', 'out': 'cycles', 'vdtype': 'int64'},
            {'cv': [0, 0, -1, 1, 1, 1], 'vals': [1.0, 2.0, 9.0, 3.0, 3.0, 4.0], 'f': 'mean', 'out': 'samples', 'vdtype': 'int32'},
            {'cv': [0, 0, 0, -1, 1, 1], 'vals': [-1.0, -2.0, -2.0, 5.0, -7.0, -8.0], 'f': 'mean', 'out': 'cycles', 'vdtype': 'int64'},
            {'cv': [0, 0, 0, 1, 1, -1], 'vals': [1.0, 0.0, 1.0, 1.0, 1.0, 0.0], 'f': 'sum', 'out': 'cycles', 'vdtype': 'bool'},
            {'cv': [0, 0, 0, 1, 1, -1], 'vals': [1.0, 0.0, 1.0, 1.0, 1.0, 0.0], 'f': 'len', 'out': 'samples', 'vdtype': 'bool'},
            {'cv': [0, 0, 0, 1, 1, -1], 'vals': [1.0, 0.0, 1.0, 0.0, 1.0, 0.0], 'f': 'mean', 'out': 'samples', 'vdtype': 'bool'},
            {'cv': [0, 0, 0, 1, 1, -1], 'vals': [1.0, 0.0, 0.0, 1.0, 0.0, 0.0], 'f': 'lambda', 'out': 'cycles', 'vdtype': 'bool'},
            {'cv': [0, -1, 2, 2], 'vals': [0.0, 1.0, 2.0, 3.0], 'f': 'mean', 'out': 'cycles', 'vdtype': 'int64'},   # skipped label -> NaN
            {'cv': [0, 0, 0, 1, 1, -1], 'vals': [1.0, 2.0, 4.0, 3.0, 4.0, 0.0], 'f': 'halfsum', 'out': 'cycles', 'vdtype': 'int64'},
            {'cv': [0, 0, 0, 1, 1, -1], 'vals': [1.5, 2.0, 4.0, 3.0, 4.25, 0.0], 'f': 'halfsum', 'out': 'samples'},
            # a work buffer: first call on another labelling, arrays refilled in place, second call (a result memoised on the identity
            # of the label / value array would be stale)
            {'cv': [0, 0, -1, 1, 1, 1], 'vals': [1.0, 2.0, 9.0, 3.0, 3.5, 4.0], 'f': 'mean', 'out': 'cycles',
             'prior': {'cv': [0, 1, 1, 2, 2, -1], 'shift': 3}},
            {'cv': [0, 0, -1, 1, 1, 1], 'vals': [1.0, 2.0, 9.0, 3.0, 3.5, 4.0], 'f': 'last', 'out': 'samples',
             'prior': {'cv': [-1, 0, 0, 0, 1, 1], 'shift': 1}},
        ]

    def generate(self, rng, tier):
        for _ in range(1500 if tier == 'thorough' else 200):
            n = rng.choice([1, 2, 3, 7, 20, 60, 200, 600])
            cv = gen_labels(rng, n, rng.choice(['contiguous', 'contiguous', 'arbitrary', 'skipping', 'all-gap']))
            kind = rng.choice(['int', 'dyadic', 'const'])
            if kind == 'int':
                vals = [float(rng.randint(-100, 100)) for _ in cv]
            elif kind == 'dyadic':
                vals = [rng.randint(-4000, 4000) / 64.0 for _ in cv]
            else:
                vals = [1.0] * len(cv)
            case = {'cv': cv, 'vals': vals, 'f': rng.choice(FUNCS), 'out': rng.choice(['cycles', 'samples'])}
            if rng.random() < 0.2:
                # second call on the same array objects, refilled in place after a first call on another labelling of that length
                case['prior'] = {'cv': gen_labels(rng, len(cv), 'contiguous')[:len(cv)], 'shift': rng.randint(1, 9)}
                case['prior']['cv'] += [-1] * (len(cv) - len(case['prior']['cv']))
            yield case
        # observations stored as int64 / int32 / bool (counts, sample indices, flags)
        for _ in range(1200 if tier == 'thorough' else 160):
            n = rng.choice([2, 3, 7, 20, 60, 200, 600])
            cv = gen_labels(rng, n, rng.choice(['contiguous', 'contiguous', 'arbitrary', 'skipping', 'all-gap']))
            vd = rng.choice(VDTYPES)
            if vd == 'bool':
                p = rng.choice([0.2, 0.5, 0.8])
                vals = [float(rng.random() < p) for _ in cv]
            else:
                kind = rng.choice(['small', 'wide', 'index'])
                vals = [float(i) for i in range(len(cv))] if kind == 'index' else \
                    [float(rng.randint(*((-5, 5) if kind == 'small' else (-1000, 1000)))) for _ in cv]
            yield {'cv': cv, 'vals': vals, 'f': rng.choice(FUNCS + ['mean', 'mean', 'halfsum']),
                   'out': rng.choice(['cycles', 'samples']), 'vdtype': vd}

    def impl(self, case):
        prior = None
        if case.get('prior'):
            prior = (case['prior']['cv'], [v + case['prior']['shift'] for v in case['vals']])
        return run_stat(case['cv'], case['vals'], case['f'], case['out'], case.get('vdtype'), prior=prior)

    def ops(self, case, out):
        if case['f'] in INSTANCE_ONLY_FUNCS:
            return []
        return [stat_op(case['cv'], case['vals'], case['f'], case['out'])]

    def compare(self, case, out, results):
        if case['f'] in INSTANCE_ONLY_FUNCS:
            return None
        o = {'error': out['error']} if isinstance(out, ImplError) else out
        return compare_stat(case['cv'], case['vals'], case['f'], case['out'], o, results[0])

    @guarded
    def holds(self, case, out):
        o = {'error': out['error']} if isinstance(out, ImplError) else out
        return check_stat(case['cv'], case['vals'], case['f'], case['out'], o)

    def tags(self, case, out):
        cv = case['cv']
        t = ['f=' + case['f'], 'out=' + case['out'], 'values=' + case.get('vdtype', 'float64')]
        if case.get('prior'):
            t.append('second-call-on-refilled-arrays')
        if absent_labels(cv):
            t.append('not-judged:entries-of-labels-without-samples')
        if -1 in cv:
            t.append('has-gap')
        K = max(cv) + 1
        if any(k not in cv for k in range(K)):
            t.append('skipped-label')
        runs = [k for k, _ in itertools.groupby(cv) if k >= 0]
        if len(runs) != len(set(runs)):
            t.append('non-contiguous-labelling')
        if isinstance(out, ImplError):
            t.append('raises:' + out['error'])
        return t

    def nontrivial(self, case, out):
        return -1 in case['cv'] and max(case['cv']) >= 1

    def shrink(self, case):
        cv, vals = case['cv'], case['vals']
        n = len(cv)
        def sl(a, b):
            c = dict(case, cv=cv[a:b], vals=vals[a:b])
            if case.get('prior'):
                c['prior'] = dict(case['prior'], cv=case['prior']['cv'][a:b])
            return c
        if case.get('prior'):
            yield {k: v for k, v in case.items() if k != 'prior'}
        for cut in (n // 2, n // 4, 1):
            if 0 < cut < n:
                yield sl(cut, n)
                yield sl(0, n - cut)
        if any(v != round(v) for v in vals):
            yield dict(case, vals=[float(round(v)) for v in vals])
        if case.get('vdtype') != 'bool' and any(abs(v) > 9 for v in vals):
            yield dict(case, vals=[float(int(v) % 10) for v in vals])


# ----------------------------------------------------------------------------- phase_align

SMOOTH = {
    'sin': (math.sin, 1.0),
    'cos2': (lambda p: math.cos(2 * p), 4.0),
    'square': (lambda p: 0.25 * p * p, 0.5),
    'decay': (lambda p: math.exp(-0.5 * p), 0.5),        # |g''| <= 0.25*e^{0.25} on [-0.5, ...]
}


STEP_KINDS = ('nearest', 'previous', 'next', 'zero')


def build_phase(rng, lengths, gaps, sharp=False):
    """Strictly increasing jittered phase on every cycle (some cycles start late / end early, i.e. are
    not 'good' cycles, but every boundary is still a phase wrap); optional unlabelled stretches.
    sharp: every other cycle of >= 8 samples is sharply non-sinusoidal - one sample-to-sample step of more than pi
    (below the 1.5 pi cycle-boundary threshold), still a monotone phase (round 4, C14 patch 2: np.unwrap folds such a cycle)."""
    ip, cv = [], []
    for k, n in enumerate(lengths):
        lo = rng.uniform(0.0, 0.12) if rng.random() < 0.7 else rng.uniform(0.3, 0.6)
        hi = rng.uniform(TWO_PI - 0.12, TWO_PI - 1e-3) if rng.random() < 0.7 else rng.uniform(TWO_PI - 0.8, TWO_PI - 0.4)
        steps = [rng.uniform(0.5, 1.5) for _ in range(n - 1)]
        if sharp and n >= 8 and k % 2 == 0:
            j = rng.randrange(n - 1)
            jump = rng.uniform(3.3, 4.3) / (hi - lo)            # fraction of the cycle's phase range taken by the one big step
            rest = sum(s for i, s in enumerate(steps) if i != j)
            steps[j] = rest * jump / (1.0 - jump)
        tot = sum(steps) or 1.0
        acc, ph = 0.0, [lo]
        for s in steps:
            acc += s
            ph.append(lo + (hi - lo) * acc / tot)
        ip += ph
        cv += [k] * n
        if gaps and rng.random() < 0.4:
            g = rng.randint(1, 5)
            ip += [rng.uniform(0, TWO_PI) for _ in range(g)]
            cv += [-1] * g
    return ip, cv


def quantity(case, ip):
    q = case['quantity']
    if q['kind'] == 'affine':
        return [q['a'] * p + q['b'] for p in ip]
    g = SMOOTH[q['name']][0]
    return [g(p) for p in ip]


def run_align(ip, x, cv, npoints, kind='linear', prior=None):
    """phase_align on WRITABLE arrays. prior=(ip0, x0, cv0) of the same length: the call is the SECOND one on the same array
    objects, which held ip0 / x0 (/ cv0) during a first call and were refilled in place with ip / x (/ cv) - a work buffer
    filled with the next channel (round 3, C14 patch 2: default cycle detection memoised on the identity of `ip`)."""
    import emd
    a = np.array(ip, dtype=float)
    b = np.array(x, dtype=float)
    c = None if cv is None else np.array(cv, dtype=int)
    if prior is not None and len(prior[0]) == len(a):
        a0, b0 = np.array(prior[0], dtype=float), np.array(prior[1], dtype=float)
        c0 = None if cv is None else np.array(prior[2], dtype=int)
        try:
            if c0 is None:
                emd.cycles.phase_align(a0, b0, npoints=npoints, interp_kind=kind)
            else:
                emd.cycles.phase_align(a0, b0, cycles=c0, npoints=npoints, interp_kind=kind)
        except Exception:  # noqa  (the first call is not the subject)
            pass
        a0[:] = a
        b0[:] = b
        a, b = a0, b0
        if c0 is not None:
            c0[:] = c
            c = c0
    # the cycles of the phase, detected on a separate copy (never on the array object handed to phase_align)
    allcv = np.asarray(emd.cycles.get_cycle_vector(np.array(ip, dtype=float), return_good=False)).reshape(-1)
    goodcv = np.asarray(emd.cycles.get_cycle_vector(np.array(ip, dtype=float), return_good=True)).reshape(-1)
    if c is None:
        used = allcv
        res = emd.cycles.phase_align(a, b, npoints=npoints, interp_kind=kind)
    else:
        used = np.array(cv, dtype=int)
        res = emd.cycles.phase_align(a, b, cycles=c, npoints=npoints, interp_kind=kind)
    # (aligned, phase grid); the docstring's Returns section names the aligned array only: a bare array is read with the grid of bin centres
    if isinstance(res, tuple) and len(res) == 2:
        pa, bins = res
    else:
        pa, bins = res, emd.spectra.define_hist_bins(0, 2 * np.pi, npoints)[1]
    pa = np.asarray(pa, dtype=float)
    if pa.ndim == 1:
        pa = pa[:, None]
    modified = bool(not np.array_equal(a, np.array(ip, dtype=float)) or not np.array_equal(b, np.array(x, dtype=float), equal_nan=True))
    return {'cv': [int(v) for v in used], 'bins': [float(v) for v in bins], 'shape': list(pa.shape),
            'ngood': int(goodcv.max()) + 1 if goodcv.size else 0, 'modified': modified,
            'cols': [fl(pa[:, k]) for k in range(pa.shape[1])]}


def scipy_reference(ip, x, cv, bins):
    """the assumption about scipy, evaluated with plain Python on the same data (None = NaN)"""
    cols = []
    K = max(cv) + 1 if cv else 0
    for k in range(K):
        pts = sorted(((ip[i], x[i]) for i in range(len(cv)) if cv[i] == k), key=lambda p: p[0])
        col = []
        for t in bins:
            if len(pts) < 2:
                col.append(None)
                continue
            idx = sum(1 for p in pts if p[0] < t)
            idx = min(max(idx, 1), len(pts) - 1)
            (x0, y0), (x1, y1) = pts[idx - 1], pts[idx]
            col.append(None if x1 == x0 else (y1 - y0) / (x1 - x0) * (t - x0) + y0)
        cols.append(col)
    return cols


class Align(Stream):
    name = 'phase_align'

    def corpus(self):
        return [
            {'lengths': [9, 14, 5], 'seed': 1, 'gaps': False, 'cycles': 'default', 'npoints': 4,
             'quantity': {'kind': 'affine', 'a': 3.0, 'b': 1.0}},
            {'lengths': [8, 400], 'seed': 2, 'gaps': True, 'cycles': 'vector', 'npoints': 48,
             'quantity': {'kind': 'affine', 'a': -0.5, 'b': 2.0}},
            {'lengths': [8, 40, 9], 'seed': 21, 'gaps': False, 'cycles': 'default', 'npoints': 48, 'sharp': True,
             'quantity': {'kind': 'affine', 'a': 3.0, 'b': -1.0}, 'kind': 'linear'},
            {'lengths': [8, 12], 'seed': 22, 'gaps': True, 'cycles': 'vector', 'npoints': 64, 'sharp': True,
             'quantity': {'kind': 'affine', 'a': 3.0, 'b': -1.0}, 'kind': 'linear'},
            {'lengths': [9, 13, 40], 'seed': 23, 'gaps': False, 'cycles': 'vector', 'npoints': 24, 'kind': 'nearest',
             'quantity': {'kind': 'smooth', 'name': 'sin'}},
            {'lengths': [8, 12], 'seed': 24, 'gaps': True, 'cycles': 'default', 'npoints': 16, 'kind': 'previous',
             'quantity': {'kind': 'smooth', 'name': 'sin'}},
            {'lengths': [2, 3], 'seed': 3, 'gaps': True, 'cycles': 'vector', 'npoints': 2,
             'quantity': {'kind': 'affine', 'a': 1.0, 'b': 0.0}},
            {'lengths': [40, 80], 'seed': 4, 'gaps': False, 'cycles': 'default', 'npoints': 64,
             'quantity': {'kind': 'smooth', 'name': 'sin'}},
            # round 3, C14 patch 2: second call on the same (refilled) phase / observation arrays, cycles detected by default / given
            {'lengths': [9, 14, 5, 30, 12], 'seed': 5, 'gaps': False, 'cycles': 'default', 'npoints': 4, 'prior': 11,
             'quantity': {'kind': 'affine', 'a': 3.0, 'b': 1.0}},
            {'lengths': [20, 25, 15], 'seed': 6, 'gaps': False, 'cycles': 'default', 'npoints': 8, 'prior': 12,
             'quantity': {'kind': 'smooth', 'name': 'sin'}},
            {'lengths': [9, 14, 5, 30, 12], 'seed': 7, 'gaps': True, 'cycles': 'vector', 'npoints': 4, 'prior': 13,
             'quantity': {'kind': 'affine', 'a': -2.0, 'b': 0.5}},
        ]

    def generate(self, rng, tier):
        for _ in range(600 if tier == 'thorough' else 90):
            fam = rng.choice(['normal', 'normal', 'long', 'short'])
            ncyc = rng.randint(1, 12 if fam != 'long' else 3)
            if fam == 'short':
                lengths = [rng.randint(2, 7) for _ in range(ncyc)]
            elif fam == 'long':
                lengths = [rng.randint(150, 400) for _ in range(ncyc)]
            else:
                lengths = [rng.randint(8, 120) for _ in range(ncyc)]
            cycles = rng.choice(['vector', 'default']) if fam != 'short' else 'vector'
            if rng.random() < 0.5:
                q = {'kind': 'affine', 'a': rng.randint(-40, 40) / 8.0, 'b': rng.randint(-40, 40) / 4.0}
            else:
                q = {'kind': 'smooth', 'name': rng.choice(sorted(SMOOTH))}
            kind = 'linear' if (fam == 'short' or rng.random() < 0.6) else rng.choice(['slinear', 'quadratic', 'cubic'])
            case = {'lengths': lengths, 'seed': rng.getrandbits(32), 'gaps': cycles == 'vector' and rng.random() < 0.6,
                    'cycles': cycles, 'npoints': rng.choice([2, 3, 4, 8, 24, 48, 64]) if rng.random() < 0.7 else rng.randint(2, 64),
                    'quantity': q, 'kind': kind}
            if fam != 'short' and rng.random() < (0.35 if cycles == 'default' else 0.15):
                case['prior'] = rng.getrandbits(32)     # seed of the phase the arrays held during a first call
            if fam != 'short' and not case.get('prior') and rng.random() < 0.15:
                # piecewise-constant interpolation kinds: every aligned value inside the sampled phase range is an OBSERVED value
                # of that cycle (round 5, C14 patch 2: the requested kind silently replaced by linear interpolation)
                case['kind'] = rng.choice(['nearest', 'previous', 'next', 'zero'])
                case['quantity'] = {'kind': 'smooth', 'name': rng.choice(sorted(SMOOTH))}
            elif fam == 'normal' and rng.random() < 0.25:
                case['sharp'] = True                    # one step > pi inside some cycles; exactness claimed for linear quantities
                case['quantity'] = {'kind': 'affine', 'a': rng.randint(-40, 40) / 8.0, 'b': rng.randint(-40, 40) / 4.0}
                case['kind'] = 'linear'
            yield case

    def _data(self, case):
        import random
        r = random.Random(case['seed'])
        ip, cv = build_phase(r, case['lengths'], case['gaps'], case.get('sharp', False))
        return ip, quantity(case, ip), cv

    def _prior(self, case, n):
        """another recording of the same length n (a different division into cycles): what the arrays held during the first call"""
        import random
        if case.get('prior') is None:
            return None
        r = random.Random(case['prior'])
        lengths, left = [], n
        while left > 0:
            k = min(left, r.randint(8, 60))
            if 0 < left - k < 2:
                k = left
            lengths.append(k)
            left -= k
        ip0, cv0 = build_phase(r, lengths, False)
        return ip0[:n], quantity(case, ip0[:n]), cv0[:n]

    def impl(self, case):
        ip, x, cv = self._data(case)
        return run_align(ip, x, None if case['cycles'] == 'default' else cv, case['npoints'], case.get('kind', 'linear'),
                         prior=self._prior(case, len(ip)))

    def ops(self, case, out):
        if isinstance(out, ImplError) or case.get('kind', 'linear') != 'linear':
            return []          # spline kinds are library numerics: instance check only
        ip, x, cv = self._data(case)
        if case['cycles'] == 'default':
            # cycles=None: the MODEL detects the cycles of the phase supplied (CycleStats.phaseAlignDefault, theorem
            # C14.phaseAlign_default_cycles); the harness's own detection out['cv'] only serves the scipy reference below
            e = np.pi / 12
            return [proto.op('PALIGND', {'dstep': 1.5 * np.pi, 'edge': e, 'twopi': TWO_PI, 'endlo': TWO_PI - e},
                             [ip, x, out['bins']])]
        return [proto.op('PALIGN', {}, [ip, x, out['cv'], out['bins']])]

    def compare(self, case, out, results):
        if isinstance(out, ImplError):
            return 'implementation raised %s: %s' % (out['error'], out['msg'])
        if case.get('kind', 'linear') != 'linear':
            return None
        r = results[0]
        if not r.ok:
            return 'model answered %s' % r.raw[:80]
        ip, x, cv = self._data(case)
        sc = scale_of(x, ip)
        if int(r.args.get('n', -1)) != len(out['cols']):
            return 'columns: impl %d, model %s' % (len(out['cols']), r.args.get('n'))
        ref = scipy_reference(ip, x, out['cv'], out['bins'])
        for k, (a, b) in enumerate(zip(out['cols'], r.vecs)):
            d = vec_diff(a, b, sc, 'cycle %d' % k)
            if d:
                return d
            for j, (u, w) in enumerate(zip(a, ref[k])):
                if (u is None) != (w is None) or (u is not None and abs(u - w) > 1e-9 * float(sc)):
                    return 'assumption interp1d-linear-extrapolate broken: cycle %d point %d scipy=%r reference=%r' % (k, j, u, w)
        return None

    @guarded
    def holds(self, case, out):
        short = min(case['lengths']) < 8           # outside "cycle lengths 8..400": mechanism-level verdicts only
        if isinstance(out, ImplError):
            return [Failure('align:raises:' + out['error'], out['msg'], literal=not short and out['error'] != 'Timeout')]
        ip, x, cv = self._data(case)
        how = ' [second call on the same arrays, refilled in place after a first call on another phase]' if case.get('prior') is not None else ''
        used = out['cv']
        K = max(used) + 1 if used else 0
        default = case['cycles'] == 'default'
        npts = case['npoints']
        ncols = out['shape'][1] if len(out['shape']) == 2 else -1
        if len(out['shape']) != 2 or out['shape'][0] != npts:
            return [Failure('align:wrong-shape', '%s for %d points x %d cycles%s' % (out['shape'], npts, K, how), literal=not short)]
        if not default and ncols != K:
            return [Failure('align:wrong-shape', '%s for %d points x %d cycles%s' % (out['shape'], npts, K, how), literal=not short)]
        if default and ncols not in (K, out.get('ngood', K)):
            # "for every cycle": which cycles a call WITHOUT a cycles argument aligns is not spelled out (the code: all of them);
            # one column per cycle or per good cycle of the phase SUPPLIED are both readings, any other number is neither
            return [Failure('align:default-cycles-not-those-of-the-phase',
                            'the phase holds %d cycles (%d good ones), %d columns returned%s' % (K, out.get('ngood', K), ncols, how),
                            literal=not short)]
        fs = []
        if out.get('modified'):
            fs.append(Failure('align:input-modified', 'ip / x no longer hold their values after the call', literal=False))
        bins = out['bins']
        if len(bins) != npts or any(abs(t - (j + 0.5) * TWO_PI / npts) > 1e-12 for j, t in enumerate(bins)):
            # the property says "the phase grid": WHICH grid is the mechanism (bin centres of define_hist_bins(0, 2pi, npoints))
            fs.append(Failure('align:phase-grid-not-bin-centres', 'npoints=%d grid=%s' % (npts, bins[:6]), literal=False))
        if len(bins) != npts:
            return fs
        q = case['quantity']
        # per-cycle sample sets: known when the labels were given (or the default produced one column per cycle)
        per_cycle = (not default) or ncols == K
        cyc = []
        for k in range(K):
            ph = [ip[i] for i in range(len(used)) if used[i] == k]
            ok = len(ph) >= 2 and all(b > a for a, b in zip(ph, ph[1:]))      # the property speaks of monotone phase with >= 2 samples
            cyc.append((ph, ok))
        if not per_cycle and not all(ok for _, ok in cyc):
            return fs
        good = [ph for ph, ok in cyc if ok]
        for k in range(ncols):
            if per_cycle:
                ph, ok = cyc[k]
                if not ok:
                    continue
                hmax = max(b - a for a, b in zip(ph, ph[1:]))
                lo, hi = ph[0], ph[-1]
            else:
                # a column of SOME cycle of the phase: the loosest bound over the cycles
                hmax = max(max(b - a for a, b in zip(ph, ph[1:])) for ph in good)
                lo, hi = max(ph[0] for ph in good), min(ph[-1] for ph in good)
            col = out['cols'][k]
            if case.get('kind') in STEP_KINDS:
                if per_cycle:
                    seen = [x[i] for i in range(len(used)) if used[i] == k]
                    for j, t in enumerate(bins):
                        if lo <= t <= hi and col[j] is not None and not any(abs(col[j] - v) <= 1e-12 * max(1.0, abs(v)) for v in seen):
                            fs.append(Failure('align:step-kind-returns-unobserved-value',
                                              'interp_kind=%s cycle %d bin %d (phase %.4f): %r is none of the %d values observed in that cycle%s'
                                              % (case['kind'], k, j, t, col[j], len(seen), how), literal=not short))
                            return fs
                continue
            for j, t in enumerate(bins):
                if q['kind'] == 'affine':
                    want = q['a'] * t + q['b']
                    tol = 1e-9 * max(1.0, abs(q['a']) * 7 + abs(q['b']))
                else:
                    g, m2 = SMOOTH[q['name']]
                    want = g(t)
                    e = max(0.0, lo - t, t - hi)
                    tol = m2 * (hmax + e) ** 2 + 1e-9
                if col[j] is None or abs(col[j] - want) > tol:
                    kind = 'align:affine-not-exact' if q['kind'] == 'affine' else 'align:not-the-function-of-phase'
                    fs.append(Failure(kind, 'cycle %d bin %d (phase %.4f): got %r expected %.6g tol %.3g%s'
                                      % (k, j, t, col[j], want, tol, how), literal=not short))
                    return fs
        return fs

    def tags(self, case, out):
        t = ['cycles=' + case['cycles'], 'quantity=' + (case['quantity'].get('name') or 'affine'), 'kind=' + case.get('kind', 'linear'),
             'npoints=%s' % ('2-4' if case['npoints'] <= 4 else '5-32' if case['npoints'] <= 32 else '33-64')]
        L = case['lengths']
        t.append('len<8' if min(L) < 8 else 'len>=150' if max(L) >= 150 else 'len 8-149')
        if case['gaps']:
            t.append('gaps')
        if case.get('prior') is not None:
            t.append('second-call-on-refilled-arrays')
        if min(L) < 8:
            t.append('outside-domain:cycle-shorter-than-8-samples')
        return t

    def nontrivial(self, case, out):
        return len(set(case['lengths'])) >= 2

    def shrink(self, case):
        L = case['lengths']
        if len(L) > 1:
            yield dict(case, lengths=L[:len(L) // 2] or L[:1])
            yield dict(case, lengths=L[1:])
        if max(L) > 8:
            yield dict(case, lengths=[max(2, n // 2) for n in L])
        if case['npoints'] > 2:
            yield dict(case, npoints=max(2, case['npoints'] // 2))
        if case['gaps']:
            yield dict(case, gaps=False)
        if case['quantity']['kind'] != 'affine':
            yield dict(case, quantity={'kind': 'affine', 'a': 1.0, 'b': 0.0})


# ----------------------------------------------------------------------------- bin_by_phase

def run_bin(ip, x, nbins, edges, weights=None):
    import emd
    a = np.array(ip, dtype=float)          # writable arrays: the property speaks about values, not numpy flags
    b = np.array(x, dtype=float)
    kw = {}
    if weights is not None:
        kw['weights'] = np.array(weights, dtype=float)
    if edges is None:
        avg, var, centres = emd.cycles.bin_by_phase(a, b, nbins=nbins, **kw)
        e, _ = emd.spectra.define_hist_bins(0, 2 * np.pi, nbins)
    else:
        e = np.array(edges, dtype=float)
        avg, var, centres = emd.cycles.bin_by_phase(a, b, bin_edges=e.copy(), **kw)
    avg, var = np.asarray(avg, dtype=float), np.asarray(var, dtype=float)
    if avg.ndim == 1:
        avg, var = avg[:, None], var[:, None]
    return {'edges': [float(v) for v in e], 'centres': [float(v) for v in centres],
            'digitize': [int(v) for v in np.digitize(np.array(ip, dtype=float), e)],
            'avg': [fl(avg[:, c]) for c in range(avg.shape[1])], 'var': [fl(var[:, c]) for c in range(var.shape[1])]}


def on_edge(p, e):
    """is phase p (within rounding) ON bin edge e? C14 says "fills every phase bin that contains samples with their mean": which of
    the two neighbouring bins CONTAINS a sample lying exactly on their common edge (np.digitize: the upper one; np.histogram /
    binned_statistic: the upper one except at the last edge), and whether a phase of exactly 2pi - outside wrapped phase [0, 2pi) -
    belongs to the last bin, is not said and not documented by bin_by_phase. Bins touched by such a sample are not judged."""
    return abs(p - e) <= 1e-9 * max(1.0, abs(e))


def touched_bins(ip, e):
    """indices of the bins that have a sample on one of their two edges"""
    t = set()
    for p in ip:
        for i, v in enumerate(e):
            if on_edge(p, v):
                # a sample on the FIRST edge (phase 0 of a wrapped phase) has only one bin whose closure contains it: the
                # first bin contains it under every reading, so that bin stays judged
                t.update((i - 1, i) if i > 0 else ())
    return t


class Binning(Stream):
    name = 'bin_by_phase'

    def corpus(self):
        return [
            # D18 witness: a sample in the last bin
            {'ip': [0.5, 2.0, 4.0, 6.0], 'x': [[1.0, 2.0, 3.0, 4.0]], 'nbins': 4, 'edges': None},
            {'ip': [0.1, 1.0, 2.0, 3.0, 4.0, 5.0, 6.0, 6.2, 0.2, 3.0, 6.1], 'x': [[float(i) for i in range(11)]], 'nbins': 2, 'edges': None},
            {'ip': [0.0, TWO_PI, np.pi, np.pi / 2], 'x': [[1.0, 2.0, 3.0, 4.0]], 'nbins': 2, 'edges': None},   # exact edge values
            {'ip': [0.5, 0.7, 2.5, 9.0], 'x': [[1.0, 3.0, 5.0, 7.0]], 'nbins': 3, 'edges': [0.0, 1.0, 3.0, 7.0]},
            {'ip': [0.5, 2.0, 4.0, 6.0], 'x': [[1.0, 2.0, 3.0, 4.0], [2.0, 0.0, -2.0, 8.0]], 'nbins': 4, 'edges': None},
            {'ip': [0.5, 0.6, 4.0, 6.0, 6.1], 'x': [[1.0, 2.0, 3.0, 4.0, 8.0], [2.0, 0.0, -2.0, 8.0, 1.0]], 'nbins': 4, 'edges': None,
             'weights': [1.0, 3.0, 2.0, 0.5, 1.5]},
        ]

    def generate(self, rng, tier):
        for _ in range(800 if tier == 'thorough' else 120):
            n = rng.choice([1, 2, 5, 20, 100, 400])
            nbins = rng.choice([2, 3, 4, 8, 24, 64]) if rng.random() < 0.7 else rng.randint(2, 64)
            edges = None
            if rng.random() < 0.25:
                cuts = sorted(set(rng.randint(0, 64) / 8.0 for _ in range(rng.randint(2, 10))))
                if len(cuts) >= 2:
                    edges = cuts
                    nbins = len(cuts) - 1
            grid = list(np.linspace(0, TWO_PI, nbins + 1)) if edges is None else edges
            ip = []
            # edge-valued phases (compared with the model's digitize rule, not judged by the instance check) in a third of the cases
            p_edge, p_2pi = rng.choice([(0.0, 0.0), (0.0, 0.0), (0.03, 0.01), (0.15, 0.05)])
            for _ in range(n):
                u = rng.random()
                if u < p_edge:
                    ip.append(float(rng.choice(grid)))               # exactly on an edge
                elif u < p_edge + p_2pi:
                    ip.append(TWO_PI)
                elif u < p_edge + p_2pi + 0.1:
                    ip.append(float(rng.choice(grid[1:])) - 1e-7)                  # just below an edge: decided under every reading
                else:
                    ip.append(rng.uniform(0, TWO_PI))
            if rng.random() < 0.3:           # a phase ramp that starts at exactly 0: the first bin contains that sample
                ip[rng.randrange(n)] = float(grid[0])
            ncol = rng.choice([1, 1, 1, 2])
            case = {'ip': ip, 'nbins': nbins, 'edges': edges}
            if rng.random() < 0.25:          # weighted branch (needs 2-d observations)
                ncol = rng.choice([1, 2, 3])
                case['weights'] = [rng.randint(1, 16) / 4.0 for _ in range(n)]
            case['x'] = [[float(rng.randint(-20, 20)) for _ in range(n)] for _ in range(ncol)]
            yield case

    def impl(self, case):
        x = np.array(case['x'], dtype=float).T
        if x.shape[1] == 1 and case.get('weights') is None:
            x = x[:, 0]
        return run_bin(case['ip'], x, case['nbins'], case['edges'], case.get('weights'))

    def ops(self, case, out):
        if isinstance(out, ImplError):
            return []
        if case.get('weights') is not None:
            return [proto.op('BINPHW', {}, [out['edges'], case['ip'], case['weights'], col]) for col in case['x']]
        return [proto.op('BINPH', {}, [out['edges'], case['ip'], col]) for col in case['x']]

    def compare(self, case, out, results):
        if isinstance(out, ImplError):
            return 'implementation raised %s: %s' % (out['error'], out['msg'])
        # assumption: digitize = number of edges <= value
        for p, d in zip(case['ip'], out['digitize']):
            if d != sum(1 for e in out['edges'] if e <= p):
                return 'assumption digitize-counts-edges broken at phase %r: numpy %d' % (p, d)
        # bins with a sample exactly on one of their edges: the owner of that sample is nobody's promise - not compared
        open_bins = touched_bins(case['ip'], out['edges'])
        keep = [b for b in range(len(out['edges']) - 1) if b not in open_bins]
        sel = lambda v: [v[b] for b in keep] if len(v) == len(out['edges']) - 1 else v      # noqa: E731
        for c, (col, r) in enumerate(zip(case['x'], results)):
            if not r.ok:
                return 'model answered %s' % r.raw[:80]
            sc = scale_of(col)
            d = vec_diff(sel(out['avg'][c]), sel(r.vecs[0]), sc, 'avg column %d (bins %s)' % (c, keep[:12]))
            if case.get('weights') is None:      # the weighted variance is not part of the property (see report)
                d = d or vec_diff(sel(out['var'][c]), sel(r.vecs[1]), sc * sc, 'var column %d (bins %s)' % (c, keep[:12]))
            if d:
                return d
        return None

    @guarded
    def holds(self, case, out):
        if isinstance(out, ImplError):
            return [Failure('bin:raises:' + out['error'], out['msg'], literal=out['error'] != 'Timeout')]
        e = out['edges']
        nb = len(e) - 1
        fs = {}
        if len(out['centres']) != nb or any(abs(c - (e[b] + e[b + 1]) / 2) > 1e-12 * max(1, abs(e[-1])) for b, c in enumerate(out['centres'])):
            # the third return value: the property speaks of the bin means only
            fs['bin:centres'] = Failure('bin:centres-not-midpoints', '', literal=False)
        open_bins = touched_bins(case['ip'], e)
        for c, col in enumerate(case['x']):
            avg = out['avg'][c]
            if len(avg) != nb:
                fs.setdefault('bin:wrong-length', Failure('bin:wrong-length', '%d entries for %d bins' % (len(avg), nb)))
                continue
            for b in range(nb):
                w = case.get('weights') or [1.0] * len(col)
                # the samples bin b contains under EVERY reading: strictly between its edges
                # (+ for the first bin the samples on its lower edge: no other bin could contain them)
                members = [(v, wi) for p, v, wi in zip(case['ip'], col, w)
                           if (e[b] < p < e[b + 1] and not on_edge(p, e[b]) and not on_edge(p, e[b + 1]))
                           or (b == 0 and on_edge(p, e[0]))]
                if not members:
                    continue
                if avg[b] is None:
                    kind = 'bin:last-bin-not-filled' if b == nb - 1 else 'bin:bin-with-samples-is-empty'
                    fs.setdefault(kind, Failure(kind, 'bin %d of %d (%.4f, %.4f) holds %d samples, got %r'
                                                % (b, nb, e[b], e[b + 1], len(members), avg[b])))
                    continue
                if b in open_bins:
                    continue            # a sample on one of its edges may or may not be averaged in: value not judged
                want = sum(v * wi for v, wi in members) / sum(wi for v, wi in members)
                if abs(avg[b] - want) > 1e-9 * max(1.0, max(abs(v) for v in col)):
                    kind = 'bin:not-the-mean-of-its-samples'
                    fs.setdefault(kind, Failure(kind, 'bin %d of %d (%.4f, %.4f) holds %d samples with mean %.6g, got %r'
                                                % (b, nb, e[b], e[b + 1], len(members), want, avg[b])))
        return list(fs.values())

    def tags(self, case, out):
        t = ['edges=' + ('custom' if case['edges'] else 'default'), 'cols=%d' % len(case['x']),
             'weighted' if case.get('weights') is not None else 'unweighted',
             'nbins=%s' % ('2-4' if case['nbins'] <= 4 else '5-32' if case['nbins'] <= 32 else '33-64')]
        if not isinstance(out, ImplError):
            nb = len(out['edges']) - 1
            if nb in out['digitize']:
                t.append('sample-in-last-bin')
            if any(d == 0 or d == nb + 1 for d in out['digitize']):
                t.append('sample-outside-all-bins')
            if any(p in out['edges'] for p in case['ip']):
                t.append('phase-exactly-on-edge')
                t.append('not-judged:bins-with-a-sample-on-their-edge')
            if len(set(out['digitize'])) < nb:
                t.append('has-empty-bin')
        return t

    def nontrivial(self, case, out):
        return (not isinstance(out, ImplError)) and (len(out['edges']) - 1) in out['digitize']

    def shrink(self, case):
        ip, x = case['ip'], case['x']
        n = len(ip)
        w = case.get('weights')
        if len(x) > 1:
            yield dict(case, x=x[:1])
        if w is not None:
            yield {k: v for k, v in case.items() if k != 'weights'}
        for cut in (n // 2, n // 4, 1):
            if 0 < cut < n:
                yield dict(case, ip=ip[cut:], x=[c[cut:] for c in x], **({'weights': w[cut:]} if w is not None else {}))
                yield dict(case, ip=ip[:n - cut], x=[c[:n - cut] for c in x], **({'weights': w[:n - cut]} if w is not None else {}))
        if case['edges'] is None and case['nbins'] > 2:
            yield dict(case, nbins=max(2, case['nbins'] // 2))


# ----------------------------------------------------------------------------- malformed

class Malformed(Stream):
    """Rejected / degenerate inputs: the only expectation is that model and code agree."""
    name = 'c14_malformed'

    def corpus(self):
        return [
            {'op': 'stat', 'cv': [0, 0, 1], 'vals': [1.0, 2.0], 'f': 'mean', 'out': 'cycles'},      # length mismatch
            {'op': 'stat', 'cv': [], 'vals': [], 'f': 'mean', 'out': 'cycles'},                      # empty
            {'op': 'stat', 'cv': [0, 1], 'vals': [1.0, 2.0, 3.0], 'f': 'sum', 'out': 'samples'},
            {'op': 'align', 'ip': [0.1, 3.0, 6.0, 0.2, 0.3, 3.0], 'x': [1.0, 2.0, 3.0, 4.0, 5.0, 6.0], 'cv': [0, 0, 0, 1, 3, 3], 'npoints': 3},  # one-sample + skipped
            {'op': 'align', 'ip': [0.1, 3.0, 6.0, 0.2], 'x': [1.0, 2.0, 3.0, 4.0], 'cv': [0, 0, 0, 1], 'npoints': 3},   # one-sample cycle -> NaN column
            {'op': 'align', 'ip': [1.0, 1.0, 2.0, 2.0], 'x': [2.0, 3.0, 7.0, 9.0], 'cv': [0, 0, 0, 0], 'npoints': 4},   # repeated phases
            {'op': 'align', 'ip': [3.0, 1.0, 2.0, 0.5], 'x': [2.0, 3.0, 7.0, 9.0], 'cv': [0, 0, 0, 0], 'npoints': 5},   # decreasing phase: sorted first
            {'op': 'align', 'ip': [0.1, 3.0], 'x': [1.0, 2.0, 3.0], 'cv': [0, 0], 'npoints': 3},
            # the four clauses of C14.AlignAccepts, one at a time
            {'op': 'align', 'ip': [], 'x': [], 'cv': [], 'npoints': 3},                                                  # empty -> ValueError
            {'op': 'align', 'ip': [0.1, 3.0, 6.0, 0.2], 'x': [1.0, 2.0, 3.0, 4.0], 'cv': [0, 0, 0], 'npoints': 3},       # labels shorter than phase
            {'op': 'align', 'ip': [0.1, 3.0, 6.0], 'x': [1.0, 2.0, 3.0], 'cv': [0, 0, 0, 0], 'npoints': 3},              # labels longer than phase
            {'op': 'align', 'ip': [0.1, 3.0, 6.0, 0.2, 0.3, 3.0], 'x': [1.0, 2.0, 3.0, 4.0, 5.0, 6.0], 'cv': [0, 0, 0, 2, 2, 2], 'npoints': 3},  # label 1 skipped
            {'op': 'align', 'ip': [0.1, 3.0, 6.0, 0.2], 'x': [1.0, 2.0, 3.0, 4.0], 'cv': [-1, -1, -1, -1], 'npoints': 3},  # no cycle at all: returns 0 columns
            {'op': 'align', 'ip': [1.0, 1.0, 1.0], 'x': [2.0, 3.0, 7.0], 'cv': [0, 0, 0], 'npoints': 4},                # one abscissa: accepted, NaN
        ]

    def generate(self, rng, tier):
        for _ in range(300 if tier == 'thorough' else 60):
            if rng.random() < 0.4:
                cv = gen_labels(rng, rng.randint(1, 12), 'arbitrary')
                vals = [float(rng.randint(-9, 9)) for _ in range(max(0, len(cv) + rng.choice([-1, 1, 2])))]
                yield {'op': 'stat', 'cv': cv, 'vals': vals, 'f': rng.choice(FUNCS), 'out': rng.choice(['cycles', 'samples'])}
            else:
                n = rng.randint(2, 14)
                cv = gen_labels(rng, n, rng.choice(['arbitrary', 'skipping', 'contiguous']))
                n = len(cv)
                ip = [rng.randint(0, 12) / 2.0 for _ in range(n)]        # coarse grid: repeated phases are common
                x = [float(rng.randint(-9, 9)) for _ in range(n)]
                yield {'op': 'align', 'ip': ip, 'x': x, 'cv': cv, 'npoints': rng.randint(2, 6)}

    def impl(self, case):
        if case['op'] == 'stat':
            return run_stat(case['cv'], case['vals'], case['f'], case['out'])
        return run_align(case['ip'], case['x'], case['cv'], case['npoints'])

    def ops(self, case, out):
        if case['op'] == 'stat':
            return [stat_op(case['cv'], case['vals'], case['f'], case['out'])]
        import emd
        bins = [float(v) for v in emd.spectra.define_hist_bins(0, 2 * np.pi, case['npoints'])[1]]
        return [proto.op('PALIGN', {}, [case['ip'], case['x'], case['cv'], bins])]

    def compare(self, case, out, results):
        r = results[0]
        if case['op'] == 'stat':
            o = {'error': out['error']} if isinstance(out, ImplError) else out
            return compare_stat(case['cv'], case['vals'], case['f'], case['out'], o, r)
        if isinstance(out, ImplError):
            if r.status == 'err' and r.words and r.words[0] == out['error']:
                return None
            return 'implementation raised %s (%s), model: %s' % (out['error'], out['msg'][:80], r.raw[:80])
        if not r.ok:
            return 'model answered %s, implementation returned columns' % r.raw[:60]
        sc = scale_of(case['x'], case['ip']) * 100
        for k, (a, b) in enumerate(zip(out['cols'], r.vecs)):
            d = vec_diff(a, b, sc, 'cycle %d' % k)
            if d:
                return d
        return None

    def tags(self, case, out):
        t = ['op=' + case['op']]
        t.append('raises:' + out['error'] if isinstance(out, ImplError) else 'returns')
        return t


class BinOutside(Stream):
    """bin_by_phase behaviours OUTSIDE the property (it promises the bin means): observed and recorded as tags, never a failure.
    The means returned alongside are still checked against a direct per-bin computation when the call returns."""
    name = 'bin_by_phase_outside'
    exhaustive = True

    IP = [0.1, 0.2, 3.3, 3.4, 6.0, 6.1]
    X = [1.0, 3.0, 10.0, 20.0, 5.0, 7.0]

    def generate(self, rng, tier):
        return [{'what': w} for w in ('sem', 'std', 'weights-1d-x', 'weights-2d-x-variance')]

    def impl(self, case):
        import emd
        ip, x = np.array(self.IP), np.array(self.X)
        w = case['what']
        try:
            if w in ('sem', 'std'):
                avg, var, _ = emd.cycles.bin_by_phase(ip, x, nbins=3, variance_metric=w)
            elif w == 'weights-1d-x':
                avg, var, _ = emd.cycles.bin_by_phase(ip, x, nbins=3, weights=np.ones(6))
            else:
                avg, var, _ = emd.cycles.bin_by_phase(ip, x[:, None], nbins=3, weights=np.ones(6))
        except Exception as e:  # noqa
            return {'raised': type(e).__name__}
        return {'avg': fl(avg), 'var': fl(var)}

    def holds(self, case, out):
        if isinstance(out, ImplError) or 'raised' in out:
            return []
        if out['avg'] != [2.0, 15.0, 6.0]:
            return [Failure('bin-mean-wrong', str(out['avg']))]
        return []

    def tags(self, case, out):
        if isinstance(out, ImplError):
            return ['impl-error']
        if 'raised' in out:
            return ['%s:raises:%s' % (case['what'], out['raised'])]
        return ['%s:returns:var=%s' % (case['what'], out['var'])]


STREAMS = [StatExhaustive(), StatRandom(), Align(), Binning(), Malformed(), BinOutside()]
