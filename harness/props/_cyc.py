"""Shared pieces of the cycle-detection checks (C12, C13)."""
import itertools
import math

import numpy as np

from common import proto
from common.framework import Failure, ImplError, Stream

TWO_PI = 2 * np.pi
ALPHABET = [0.1, 1.0, 3.1, 6.0, 6.2]      # start-good / start-bad / middle / end-bad / end-good
DEFAULT_STEP = 1.5 * np.pi
DEFAULT_EDGE = np.pi / 12


_RESOLVED = object()


def cv_op(phase_col, step, good, edge, mask_col, arg=_RESOLVED):
    """The model's CV op. With `arg` (the phase_step argument exactly as the caller of get_cycle_vector wrote it; None = omitted)
    the option is resolved BY THE MODEL (Cycles.resolveStep: `dstep=` carries the documented default, `step=` is sent only for an
    explicit value - 0 is explicit): the theorems C12.explicit_step_used_as_given / partition_every_step speak about that route.
    Without `arg` the already resolved `step` is sent (C13's streams)."""
    args = {'good': int(bool(good)), 'edge': edge, 'twopi': TWO_PI, 'endlo': TWO_PI - edge}
    if arg is _RESOLVED:
        args['step'] = step
    else:
        args['dstep'] = DEFAULT_STEP
        if arg is not None:
            args['step'] = arg
    return proto.op('CV', args,
                    [list(map(float, phase_col)), None if mask_col is None else [int(bool(m)) for m in mask_col]])


def wraps_of(col, step):
    d = np.abs(np.diff(np.asarray(col, dtype=float)))
    return [i + 1 for i in range(len(d)) if d[i] > step]


def tie_margin(col, step):
    d = np.abs(np.diff(np.asarray(col, dtype=float)))
    if len(d) == 0:
        return 1.0
    return float(np.min(np.abs(d - step)))


def step_of(case):
    """phase_step of a case: None = the default; 0 is a value like any other (NOT `case.get('step') or DEFAULT`)"""
    st = case.get('step')
    return DEFAULT_STEP if st is None else st


def edge_of(case):
    e = case.get('edge')
    return DEFAULT_EDGE if e is None else e


CALLS = ('kw', 'pos', 'posall', 'alias')


def call_cv(phase, good, mask, step, edge, call='kw', readonly=False, report=None):
    """emd.cycles.get_cycle_vector through its documented signature
        get_cycle_vector(phase, return_good=True, mask=None, imf=None, phase_step=1.5*pi, phase_edge=pi/12)
    call='kw': options by keyword; 'pos': return_good (and the mask, when there is one) positionally; 'posall': every argument
    positionally; 'alias': the deprecated pass-through emd.cycles.get_cycle_inds with positional return_good / mask.
    The implementation is handed WRITABLE arrays (the properties speak about phase values, not numpy flags) unless readonly=True;
    `report` (a dict) receives 'modified': True when the phase / mask array no longer holds its values after the call."""
    import emd
    ph0 = np.array(phase, dtype=float)
    m0 = None if mask is None else np.array(mask, dtype=bool)
    ph = ph0.copy()
    m = None if m0 is None else m0.copy()
    if readonly:
        ph.setflags(write=False)
        if m is not None:
            m.setflags(write=False)
    kw = {}
    if step is not None:
        kw['phase_step'] = step
    if edge is not None:
        kw['phase_edge'] = edge
    fn = emd.cycles.get_cycle_inds if call == 'alias' else emd.cycles.get_cycle_vector
    if call == 'posall':
        out = fn(ph, bool(good), m, None, DEFAULT_STEP if step is None else step, DEFAULT_EDGE if edge is None else edge)
    elif call in ('pos', 'alias'):
        out = fn(ph, bool(good), m, **kw) if m is not None else fn(ph, bool(good), **kw)
    else:
        out = fn(ph, return_good=bool(good), mask=m, **kw)
    if report is not None:
        report['modified'] = bool(not np.array_equal(ph, ph0) or (m is not None and not np.array_equal(m, m0)))
    out = np.asarray(out)
    if out.ndim == 1:
        out = out[:, None]
    return out


def check_partition(col, labels, step, good, masked, prefix=''):
    """C12's own words on one column. Returns list[Failure]."""
    n = len(col)
    fs = []
    labels = [int(v) for v in labels]
    if len(labels) != n:
        return [Failure(prefix + 'wrong-length', '%d labels for %d samples' % (len(labels), n))]
    w = set(wraps_of(col, step))
    # runs of equal consecutive labels
    runs = []
    for i, l in enumerate(labels):
        if runs and runs[-1][0] == l and runs[-1][2] == i - 1 and (i not in w or l == -1):
            runs[-1][2] = i
        else:
            runs.append([l, i, i])
    seen = [r[0] for r in runs if r[0] != -1]
    if seen != list(range(len(seen))):
        # either a label is split over several runs / a run contains a wrap, or numbering is not 0..K-1 in order
        fs.append(Failure(prefix + 'labels-not-consecutive-runs', 'run labels in temporal order: %s' % seen[:20]))
    if any(l < -1 for l in labels):
        fs.append(Failure(prefix + 'label-below-minus-one', ''))
    for l, s, e in runs:
        if l == -1:
            continue
        if not (s == 0 or s in w):
            fs.append(Failure(prefix + 'run-start-not-at-wrap', 'label %d starts at %d' % (l, s)))
        if not (e == n - 1 or (e + 1) in w):
            if e == n - 2:
                fs.append(Failure(prefix + 'last-sample-unlabelled', 'label %d ends at %d of %d samples' % (l, e, n)))
            else:
                fs.append(Failure(prefix + 'run-end-not-at-wrap', 'label %d ends at %d' % (l, e)))
    if not w and any(l != -1 for l in labels):
        fs.append(Failure(prefix + 'cycles-without-wrap', ''))
    if w and not good and not masked and any(l == -1 for l in labels):
        if labels[-1] == -1 and all(l != -1 for l in labels[:-1]):
            fs.append(Failure(prefix + 'last-sample-unlabelled', 'all cycles requested, last sample is -1'))
        else:
            fs.append(Failure(prefix + 'not-all-covered', 'all cycles requested but %d samples are -1'
                              % sum(1 for l in labels if l == -1)))
    return fs


TIE = 1e-9


def good_oracle(seg, edge):
    """The documented criteria on one wrap-delimited segment (control points are True without a waveform), THREE-valued:
    True / False, or None when the verdict hinges on a value lying exactly AT a tolerance bound. C13 says "starts within the edge
    tolerance above 0, ends within the edge tolerance below 2pi": that fixes every value strictly inside and strictly outside the
    tolerance, it does not say whether a start of exactly phase_edge (or exactly 0), or an end of exactly 2pi - phase_edge, counts
    (the code uses closed intervals, the docstring of is_good strict ones: "0 < x < phase_edge"). Such segments are not judged."""
    seg = [float(v) for v in seg]
    inc = all(b > a for a, b in zip(seg, seg[1:]))

    def within(x, lo, hi):
        if abs(x - lo) <= TIE or abs(x - hi) <= TIE:
            return None
        return lo < x < hi
    start = within(seg[0], 0.0, edge)
    end = within(seg[-1], TWO_PI - edge, TWO_PI)
    if not inc or start is False or end is False:
        return False
    if start is None or end is None:
        return None
    return True


def has_boundary_tie(col, step, edge):
    return any(good_oracle(col[a:b], edge) is None for a, b in segments_of(col, step))


def segments_of(col, step):
    n = len(col)
    w = wraps_of(col, step)
    if not w:
        return []
    b = [0] + w + [n]
    return [(b[i], b[i + 1]) for i in range(len(b) - 1)]


def synth_phase(rng, n, reversing=True):
    """Wrapped phase with variable, noisy and occasionally reversing frequency."""
    f = rng.uniform(0.02, 0.2)
    ph = rng.uniform(0, TWO_PI)
    out = []
    for i in range(n):
        out.append(ph % TWO_PI)
        f = min(0.45, max(0.005, f * math.exp(rng.gauss(0, 0.08))))
        dph = TWO_PI * f * (1 + rng.gauss(0, 0.15))
        if reversing and rng.random() < 0.03:
            dph = -dph * rng.random()
        ph += dph
    return out


def fast_phase(rng, ncycles):
    """A very fast / coarsely sampled oscillation: 2-4 samples per cycle, so that steps INSIDE a cycle lie between pi and the wrap
    threshold (an advance of more than pi is still an advance: round-2 seed C13-4 np.unwrap-ed it into a decrease)."""
    out = []
    for _ in range(ncycles):
        k = rng.choice([2, 3, 3, 4])
        s, e = rng.uniform(0.02, 0.5), rng.uniform(TWO_PI - 0.5, TWO_PI - 0.02)
        out += [s] + sorted(rng.uniform(s + 0.05, e - 0.05) for _ in range(k - 2)) + [e]
    return out


def enum_block(length, prefix):
    rest = length - len(prefix)
    for tail in itertools.product(range(len(ALPHABET)), repeat=rest):
        yield [ALPHABET[i] for i in tuple(prefix) + tail]
