"""C05 — extrema are exact and envelopes interpolate them on the sample grid."""
import numpy as np

from common import proto
from common.framework import Failure, ImplError, Stream
from props import _ext

ID = 'C05'
LEAN_MODULES = ['Proofs.C05']
REQUIRED = ['C05.mem_findPeaks', 'C05.mem_findTroughs', 'C05.findPeaks_sorted', 'C05.findPeaks_not_adjacent',
            'C05.paddedExtrema_none_iff', 'C05.parabolic_within_half', 'C05.parabolic_vertex_any_amplitude', 'C05.parabolic_strictMono',
            'C05.padOdd_strictMono', 'C05.padOdd_interior', 'C05.padOddOnce_mirror',
            'C05.paddedExtrema_structure', 'C05.paddedExtrema_covers', 'C05.paddedExtrema_terminates',
            'C05.envGrid_eq_range', 'C05.envGridPinned_offsets', 'C05.envGridPinned_fractional_witness',
            'C05.interpEnvelope_never_raises', 'C05.interpEnvelope_at_sample', 'C05.interpEnvelope_none_iff',
            'C05.upper_passes_through_peaks', 'C05.lower_passes_through_troughs',
            'C05.combined_passes_through_abs_peaks',
            'C05.paddedExtrema_rounds', 'C05.needsMore_false_iff_covered', 'C05.paddedExtrema_min_knots',
            'C05.paddedExtrema_pad0', 'C05.interpEnvelope_pad0_raises']
TRUSTED = ['the interpolant (scipy splrep/splev, PchipInterpolator, pchip) is an oracle: the model receives its values at the sample '
           'indices 0..n-1 as a table, rebuilt by the harness with the same scipy constructor from the extrema that the real '
           'interp_envelope(ret_extrema=True) returned on the same run',
           'numpy np.pad(reflect/odd) and np.pad(median, stat_length=1) are modelled (padOdd, padEdge); the model of np.pad is itself '
           'compared with the real np.pad for every width 0..3*len+2 (stream numpy_pad_model)',
           'with parabolic refinement locations/magnitudes are floats: compared with the exact rational model within 1e-9*max(1,|x|,n); '
           'cases whose refinement is ill-conditioned (|curvature| < 1e-6 relative) or whose loop decision margin is < 1e-7 are skipped and counted']
ASSUMPTIONS = ['Interpolates: the interpolant passes through its knots (validated each run: rebuilt interpolant evaluated at the returned '
               'locations equals the returned magnitudes, failure kind oracle:interpolant-misses-knot)',
               'default loc_pad_opts / mag_pad_opts (custom np.pad option dictionaries are outside the model)']
RULE = ('extrema_exhaustive: every sequence of length 0..L over the alphabet %s (L=7 quick, 9 thorough) x pad_width 0..5 x '
        '{peaks, troughs, abs_peaks}, exact integer equality with the model, None <-> none. extrema_random: long signals from 6 families '
        '(integer levels with ties/plateaus, sinusoid sums, quantised, scaled, trend) x pad_width in {0..5, 8, 50} x 3 modes x parabolic on/off. '
        'envelope: deterministic sweep over every alphabet sequence of length 5..L with >= 2 extrema (options cycled through parabolic on/off x '
        '{splrep, pchip, mono_pchip} x {upper, lower, combined} x pad 1..5), plus random short alphabet sequences and long signals (9 families incl. data in small physical units, 3e-13 .. 1e-9, '
        'bursts separated by quiet stretches, and ripples of a few units in the last place on a large offset) x the same options x pad 0..5, 8, 50 (8 and 50: outside the quantifier, mechanism-level verdicts only), '
        '2-D column input; a block of burst/gap signals under the combined cubic-spline envelope and of small-unit signals with refinement; a further block stores the signal as int64 / int32 (integer levels, integer random walks, quantised sinusoid sums) '
        'or float32 (all families) instead of float64. Each implementation call has a 4 s budget (a re-padding loop that never covers the edges is reported as raises:Timeout, mechanism-level). '
        'Magnitude / envelope tolerance 1e-9*max(1,n)*amplitude for amplitudes below one (homogeneity), 1e-9*max(1,n,|x|) otherwise. '
        'A case is non-trivial when the (mode-transformed) signal has at least two strict extrema, so that padding/interpolation happens; '
        'distinct by content hash.' % (_ext.LEVELS,))

TOL = 1e-9


def _scale(x, n=0):
    return max([1.0, float(n)] + [abs(float(v)) for v in x])


def _mscale(x, n=0):
    """scale of the MAGNITUDE / envelope tolerance of the instance checks: as _scale, but relative to the signal's own amplitude
    when that is below one (extrema refinement and interpolation are homogeneous in the signal values: data in small physical
    units must be reproduced to the same relative accuracy as order-one data; an absolute 1e-9 would make the check vacuous)"""
    amp = max([abs(float(v)) for v in x] + [0.0])
    if 0.0 < amp < 1.0:
        return max(1.0, float(n)) * amp
    return _scale(x, n)


def _lit(fs, literal):
    """downgrade every failure of the list to mechanism level unless `literal`"""
    if not literal:
        for f in fs:
            f.literal = False
    return fs


# ---------------------------------------------------------------------------------------------


class ExtremaExhaustive(Stream):
    """All alphabet sequences of a block (length, prefix) x pads x modes, parabolic off: exact comparison."""
    name = 'extrema_exhaustive'
    exhaustive = True

    def generate(self, rng, tier):
        import itertools
        L = 9 if tier == 'thorough' else 7
        yield {'len': 0, 'prefix': []}
        for length in range(1, L + 1):
            npre = min(length, 3 if length >= 8 else 2 if length >= 6 else 0)
            for prefix in itertools.product(range(len(_ext.LEVELS)), repeat=npre):
                yield {'len': length, 'prefix': list(prefix)}

    @staticmethod
    def _combos(case):
        for seq in _ext.enum_block(case['len'], case['prefix']):
            for mode in _ext.MODES:
                for w in _ext.PADS:
                    yield seq, mode, w

    def impl(self, case):
        res, fails = [], {}
        hung = False
        for seq, mode, w in self._combos(case):
            if hung:     # one call of this block already exceeded its budget: do not wait for the others
                res.append({'error': 'NotRun'})
                continue
            try:
                r = _ext.call_gpe(seq, w, mode)
            except _ext.Timeout as e:
                hung = True
                res.append({'error': 'Timeout'})
                # termination is proved about the model (C05.paddedExtrema_terminates) but is not in the statement: mechanism-level
                fails.setdefault('raises:Timeout', ['x=%s pad=%d mode=%s: %r' % (seq, w, mode, e), False])
                continue
            except Exception as e:  # noqa
                res.append({'error': type(e).__name__})
                # fewer than 3 samples: there is no interior sample, hence no strict extremum; rejecting such an input
                # instead of answering None does not contradict the statement
                fails.setdefault('raises:' + type(e).__name__, ['x=%s pad=%d mode=%s: %r' % (seq, w, mode, e), len(seq) >= 3])
                continue
            if r is None:
                res.append(None)
                fs = _ext.check_padded(seq, w, mode, False, None, None)
            else:
                res.append([r['locs'], r['mags']])
                fs = _ext.check_padded(seq, w, mode, False, r['locs'], r['mags'])
                if not r['int']:
                    fs.append(Failure('locations-not-integer', 'unrefined locations %s are not sample indices' % (r['locs'][:8],)))
            for f in fs:
                key = f.kind if f.literal else f.kind + '#mechanism'
                fails.setdefault(key, ['x=%s pad=%d mode=%s: %s' % (seq, w, mode, f.detail), bool(f.literal)])
        return {'res': res, 'fails': sorted([k.split('#')[0], d, lit] for k, (d, lit) in fails.items())}

    def ops(self, case, out):
        return [_ext.padext_op(seq, w, mode, False) for seq, mode, w in self._combos(case)]

    def compare(self, case, out, results):
        if isinstance(out, ImplError):
            return 'implementation raised %s' % out['error']
        for (seq, mode, w), o, r in zip(self._combos(case), out['res'], results):
            where = 'x=%s pad=%d mode=%s' % (seq, w, mode)
            if isinstance(o, dict):
                if len(seq) < 3 and o['error'] not in ('Timeout', 'NotRun'):
                    continue        # an input without interior samples was rejected instead of answered with None
                return '%s: implementation raised %s, model %s' % (where, o['error'], r.raw[:120])
            if o is None:
                if r.status != 'none':
                    return '%s: implementation None, model %s' % (where, r.raw[:120])
                continue
            if not r.ok:
                return '%s: implementation %s, model %s' % (where, o, r.raw[:120])
            ml = [int(v) if v.denominator == 1 else v for v in (r.vecs[0] or [])]
            mm = [float(v) for v in (r.vecs[1] or [])]
            if ml != o[0] or mm != o[1]:
                return '%s: implementation %s, model locs=%s mags=%s' % (where, o, ml, mm)
        return None

    def holds(self, case, out):
        if isinstance(out, ImplError):
            return [Failure('raises:' + out['error'], out['msg'], literal=out['error'] != 'Timeout')]
        return [Failure(k, d, literal=lit) for k, d, lit in out['fails']]

    def tags(self, case, out):
        t = ['len=%d' % case['len']]
        if not isinstance(out, ImplError):
            nn = sum(1 for o in out['res'] if o is None)
            t.append('block:none=%d,padded=%d' % (nn, len(out['res']) - nn) if case['len'] <= 3 else
                     'blocks-with-padding' if nn < len(out['res']) else 'blocks-all-none')
        return t

    def nontrivial(self, case, out):
        return not isinstance(out, ImplError) and any(o is not None for o in out['res'])


class ExtremaSingle(Stream):
    """One explicit signal; also the replay format of the extrema half."""
    name = 'extrema_random'

    def corpus(self):
        return [
            {'x': [0, 1, 0, 1, 0], 'pad': 5, 'mode': 'peaks', 'parab': 0},            # width clipped to len: two reflection chunks
            {'x': [0, 1, 1, 0, 1, 0, 2, 0], 'pad': 1, 'mode': 'peaks', 'parab': 0},   # plateau; loop re-pads three times
            {'x': [0, 1, 0, 0, 1, 0], 'pad': 2, 'mode': 'troughs', 'parab': 0},       # plateau trough is no trough -> None
            {'x': [0, 1, -1, 0, 1, -1, 0], 'pad': 2, 'mode': 'abs_peaks', 'parab': 0},  # |x| plateaus
            {'x': [0, 1, 0], 'pad': 2, 'mode': 'peaks', 'parab': 0},                  # single extremum -> None
            {'x': [], 'pad': 2, 'mode': 'peaks', 'parab': 0},
            {'x': [3.0], 'pad': 0, 'mode': 'troughs', 'parab': 0},
            {'x': [0, 1, 0, 2, 0, 1, 0, 3, 1, 2, 0.5], 'pad': 3, 'mode': 'peaks', 'parab': 1},
            {'x': [0, 1, 0, 2, 0, 1, 0, 3, 1, 2, 0.5], 'pad': 0, 'mode': 'troughs', 'parab': 1},
            {'x': [0, 2, 1, 3, 0, 1, 0], 'pad': 2, 'mode': 'peaks', 'parab': 0, 'col2d': 1},
            # data in small physical units (round-3 seeded change: curvature below an ABSOLUTE 1e-12 treated as flat -> unrefined)
            {'x': [v * 3e-13 for v in (0, 1, 0.25, 2, 0.5, 1.5, 0.1, 3, 1.2, 2.2, 0.5)], 'pad': 2, 'mode': 'peaks', 'parab': 1, 'family': 'tiny'},
            {'x': [v * 2.5e-15 for v in (0, 1, 0.25, 2, 0.5, 1.5, 0.1, 3, 1.2, 2.2, 0.5)], 'pad': 1, 'mode': 'troughs', 'parab': 1, 'family': 'tiny'},
            # ripples of 1-3 units in the last place on an offset of 1024: every strict extremum counts (round-2 seeded change: prominence filter)
            {'x': [1024.0 + 2.2737367544323206e-13 * k for k in (0, 2, 1, 3, 0, 1, 0, 2, 1, 3, 2)], 'pad': 2, 'mode': 'peaks', 'parab': 0, 'family': 'ripple'},
            {'x': [-4096.0 + 9.094947017729282e-13 * k for k in (0, 2, 1, 3, 0, 1, 0, 2, 1, 3, 2)], 'pad': 1, 'mode': 'troughs', 'parab': 0, 'family': 'ripple'},
        ]

    def generate(self, rng, tier):
        n_cases = 4000 if tier == 'thorough' else 400
        for _ in range(n_cases):
            fam = rng.choice(_ext.FAMILIES)
            n = rng.choice([3, 4, 5, 8, 16, 33, 64, 128, 300]) if rng.random() < 0.7 else rng.randint(0, 400)
            yield {'x': _ext.synth_signal(rng, n, fam), 'pad': rng.choice(_ext.PADS + [8, 50]),
                   'mode': rng.choice(_ext.MODES), 'parab': int(rng.random() < 0.5), 'col2d': int(rng.random() < 0.1 and n > 0),
                   'family': fam}

    def impl(self, case):
        return _ext.call_gpe(case['x'], case['pad'], case['mode'], case['parab'], case.get('col2d', 0))

    def ops(self, case, out):
        return [_ext.padext_op(case['x'], case['pad'], case['mode'], case['parab'])]

    def _illcond(self, case):
        return bool(case['parab']) and _ext.parab_condition(case['x'], case['mode']) < 1e-6

    def compare(self, case, out, results):
        r = results[0]
        if isinstance(out, ImplError):
            if len(case['x']) < 3 and out['error'] != 'Timeout' and r.status == 'none':
                return 'skip:short-input-rejected'      # no interior sample: rejecting instead of None is not judged
            return 'implementation raised %s (%s); model %s' % (out['error'], out['msg'][-120:], r.raw[:120])
        if self._illcond(case):
            return 'skip:ill-conditioned-refinement'
        if out is None:
            return None if r.status == 'none' else 'implementation None, model %s' % r.raw[:160]
        if not r.ok:
            return 'implementation returned %d locations, model %s' % (len(out['locs']), r.raw[:160])
        ml, mm = r.vecs[0] or [], r.vecs[1] or []
        if case['parab']:
            if float(r.args.get('margin', 1)) < 1e-7:
                return 'skip:near-tie-loop-decision'
            tol = TOL * _scale(case['x'], len(case['x']))
            if len(ml) != len(out['locs']) or any(abs(float(a) - b) > tol for a, b in zip(ml, out['locs'])) \
                    or any(abs(float(a) - b) > tol for a, b in zip(mm, out['mags'])):
                return 'implementation locs=%s mags=%s, model locs=%s mags=%s' % (
                    out['locs'][:10], out['mags'][:10], [float(v) for v in ml[:10]], [float(v) for v in mm[:10]])
            return None
        if not out['int']:
            return 'implementation returned non-integer locations without refinement'
        if [int(v) for v in ml] != out['locs'] or any(v.denominator != 1 for v in ml) or [float(v) for v in mm] != out['mags']:
            return 'implementation locs=%s mags=%s, model %s' % (out['locs'][:12], out['mags'][:12], r.raw[:200])
        return None

    def holds(self, case, out):
        inq = case['pad'] <= 5          # the quantifier: pad widths 0..5 (8 and 50 are run for the correspondence only)
        if isinstance(out, ImplError):
            if len(case['x']) < 3 and out['error'] != 'Timeout':
                return []               # no interior sample, no strict extremum: an input-validation error is not judged
            return [Failure('raises:' + out['error'], out['msg'], literal=inq and out['error'] != 'Timeout')]
        if self._illcond(case):
            return []
        n = len(case['x'])
        tol = TOL * _scale([], n) if case['parab'] else 0.0
        mtol = TOL * _mscale(case['x'], n) if case['parab'] else 0.0
        if out is None:
            return _lit(_ext.check_padded(case['x'], case['pad'], case['mode'], case['parab'], None, None), inq)
        fs = _ext.check_padded(case['x'], case['pad'], case['mode'], case['parab'], out['locs'], out['mags'], tol, mtol=mtol)
        if not case['parab'] and not out['int']:
            fs.append(Failure('locations-not-integer', 'unrefined locations %s are not sample indices' % (out['locs'][:8],)))
        return _lit(fs, inq)

    def tags(self, case, out):
        t = ['mode=' + case['mode'], 'pad=%d' % case['pad'], 'parabolic=%d' % case['parab'], 'family=' + case.get('family', 'corpus')]
        n = len(case['x'])
        t.append('n<8' if n < 8 else 'n<64' if n < 64 else 'n>=64')
        if isinstance(out, ImplError):
            t.append('raises')
        elif out is None:
            t.append('result=None')
        else:
            m = len(_ext.strict_extrema(case['x'], case['mode']))
            weff = min(case['pad'], m)
            t.append('width-clipped-to-extrema-count' if case['pad'] > m else 'width-as-given')
            if weff:
                rounds = (len(out['locs']) - m) // (2 * weff)
                t.append('pad-rounds=%s' % (rounds if rounds < 4 else '4+'))
            if case.get('col2d'):
                t.append('2d-column-input')
        return t

    def nontrivial(self, case, out):
        return len(_ext.strict_extrema(case['x'], case['mode'])) >= 2

    def shrink(self, case):
        x = case['x']
        n = len(x)
        for cut in (n // 2, n // 4, 2, 1):
            if 0 < cut < n:
                yield dict(case, x=x[cut:])
                yield dict(case, x=x[:n - cut])
        if any(v != round(v, 1) for v in x):
            yield dict(case, x=[round(v, 1) for v in x])
        if case.get('col2d'):
            yield dict(case, col2d=0)


class NumpyPad(Stream):
    """Validation of the modelled library routine: padOdd / padEdge against the real np.pad, all widths."""
    name = 'numpy_pad_model'
    exhaustive = True
    parallel = False

    def generate(self, rng, tier):
        bases = [[1, 3], [2, 5, 6], [1, 4, 6, 11], [0, 2, 3, 7, 12], [5], [1, 2, 4, 8, 16, 32]]
        for b in bases:
            for w in range(0, 3 * len(b) + 3):
                yield {'l': b, 'w': w}
        yield {'l': [0.5, 1.75, 4.0], 'w': 5}

    def impl(self, case):
        a = np.array(case['l'])
        odd = np.pad(a, case['w'], 'reflect', reflect_type='odd')
        med = np.pad(a.astype(float), case['w'], 'median', stat_length=1)
        return {'odd': [float(v) for v in odd], 'edge': [float(v) for v in med]}

    def ops(self, case, out):
        return [proto.op('PADODD', {'w': case['w']}, [[float(v) for v in case['l']]])]

    def compare(self, case, out, results):
        r = results[0]
        if isinstance(out, ImplError):
            return 'np.pad raised %s, model %s' % (out['error'], r.raw[:100])
        if not r.ok or [float(v) for v in (r.vecs[0] or [])] != out['odd'] or [float(v) for v in (r.vecs[1] or [])] != out['edge']:
            return 'np.pad odd=%s edge=%s, model %s' % (out['odd'], out['edge'], r.raw[:200])
        return None

    def tags(self, case, out):
        m = len(case['l'])
        return ['width<len' if case['w'] < m else 'width=len' if case['w'] == m else 'width>len']


class Envelope(Stream):
    """interp_envelope(ret_extrema=True) against the model fed with the rebuilt interpolant's sample-grid table."""
    name = 'envelope'

    def corpus(self):
        d17 = [0, 1, 0, 2, 0, 1, 0, 3, 1, 2, 0.5]
        out = [
            # D17 witnesses (pinned tree): fractional first location -> interpolant evaluated at locs[0]+k
            {'x': d17, 'emode': 'upper', 'method': 'splrep', 'pad': 3, 'parab': 1},
            {'x': d17, 'emode': 'upper', 'method': 'pchip', 'pad': 3, 'parab': 1},
            {'x': [0, 2, 1, 3, 0, 1, 0, 2, 1], 'emode': 'upper', 'method': 'mono_pchip', 'pad': 2, 'parab': 1},
            {'x': [0, -2, -1, -3, 0, -1, 0, -2, -1], 'emode': 'lower', 'method': 'splrep', 'pad': 2, 'parab': 1},
            {'x': [0, -2, 1, -3, 0, 1, 0, -2, 1], 'emode': 'combined', 'method': 'splrep', 'pad': 1, 'parab': 1},
            # same signals without refinement
            {'x': d17, 'emode': 'upper', 'method': 'splrep', 'pad': 3, 'parab': 0},
            {'x': d17, 'emode': 'lower', 'method': 'pchip', 'pad': 5, 'parab': 0},
            # pad_width 0: rejected input (ValueError), not a wrong envelope
            {'x': d17, 'emode': 'upper', 'method': 'splrep', 'pad': 0, 'parab': 0},
            {'x': d17, 'emode': 'upper', 'method': 'splrep', 'pad': 0, 'parab': 1},
            {'x': [1.0, 0.0, 1.0, 1.0, 1.0, -1.0, 1.0], 'emode': 'lower', 'method': 'splrep', 'pad': 0, 'parab': 1},  # 2 knots: scipy TypeError
            {'x': [0, 3, 1, 2, 0.5], 'emode': 'upper', 'method': 'pchip', 'pad': 3, 'parab': 1},   # minimised D17 replay
            # fewer than two extrema -> None
            {'x': [0, 1, 0], 'emode': 'upper', 'method': 'splrep', 'pad': 2, 'parab': 0},
            {'x': [0, 1, 0, 1, 0], 'emode': 'lower', 'method': 'pchip', 'pad': 2, 'parab': 1},
            # two extrema, width clipped
            {'x': [0, 1, 0, 1, 0], 'emode': 'upper', 'method': 'splrep', 'pad': 5, 'parab': 0},
            {'x': [0, 1, 0, 2, 0], 'emode': 'upper', 'method': 'splrep', 'pad': 2, 'parab': 1, 'col2d': 1},
        ]
        # the same property for signals stored as integers / single precision: the envelope is still the (real-valued)
        # interpolant at each sample (round-2 seeded change: envelope cast back to the dtype of the input, i.e. truncated)
        ints = [0, 2, 1, 3, 0, 1, 0, 2, 1, 4, 2, 3, 1]
        for dt in ('int64', 'int32'):
            for emode, method, parab in (('upper', 'splrep', 0), ('lower', 'pchip', 0), ('combined', 'mono_pchip', 0),
                                         ('upper', 'pchip', 1), ('lower', 'splrep', 1)):
                out.append({'x': ints, 'emode': emode, 'method': method, 'pad': 2, 'parab': parab, 'dtype': dt,
                            'family': 'corpus-dtype'})
        out.append({'x': [0, -2, 1, -3, 0, 1, 0, -2, 1], 'emode': 'combined', 'method': 'splrep', 'pad': 1, 'parab': 0,
                    'dtype': 'int64', 'family': 'corpus-dtype'})
        out.append({'x': [0, 5, 0, 7, 0], 'emode': 'upper', 'method': 'splrep', 'pad': 5, 'parab': 0, 'dtype': 'int32',
                    'col2d': 1, 'family': 'corpus-dtype'})
        # unsigned storage: troughs are "peaks of the negated signal" - negation must not wrap around
        # (defect found with these inputs: uint8 [3,1,2,0,2,1,3] lost its trough of value 0; repaired in /repo)
        uns = [3, 1, 2, 0, 2, 1, 3, 0, 2, 1, 3, 1, 2]
        for dt in ('uint8', 'uint16'):
            for emode, method, parab in (('lower', 'splrep', 0), ('lower', 'pchip', 0), ('upper', 'splrep', 0),
                                         ('combined', 'pchip', 0), ('lower', 'splrep', 1)):
                out.append({'x': uns, 'emode': emode, 'method': method, 'pad': 2, 'parab': parab, 'dtype': dt,
                            'family': 'corpus-dtype'})
        # round-3 seeded changes: small physical units with refinement; 'combined' cubic spline undershooting zero in a quiet stretch
        tiny = [v * 3e-13 for v in (0, 1, 0.25, 2, 0.5, 1.5, 0.1, 3, 1.2, 2.2, 0.5, 1.9, 0.3)]
        for emode, method in (('upper', 'splrep'), ('lower', 'pchip'), ('combined', 'mono_pchip')):
            out.append({'x': tiny, 'emode': emode, 'method': method, 'pad': 2, 'parab': 1, 'family': 'tiny'})
        import math
        gap = [(1.0 if (i // 16) % 2 == 0 else 0.01) * math.sin(2 * math.pi * 0.21 * i + 0.4) for i in range(96)]
        for pad in (1, 2, 3):
            out.append({'x': gap, 'emode': 'combined', 'method': 'splrep', 'pad': pad, 'parab': 0, 'family': 'bursts'})
        f32 = _ext.as_dtype([0.1, 1.3, 0.2, 2.7, -0.4, 1.1, 0.3, 3.9, 1.2, 2.2, 0.6], 'float32')
        for emode, method, parab in (('upper', 'splrep', 0), ('lower', 'pchip', 1), ('combined', 'splrep', 1)):
            out.append({'x': f32, 'emode': emode, 'method': method, 'pad': 2, 'parab': parab, 'dtype': 'float32',
                        'family': 'corpus-dtype'})
        return out

    def generate(self, rng, tier):
        # deterministic sweep: every alphabet sequence (length 5..L) with >= 2 extrema of the requested kind,
        # options cycled so that each (parabolic, method, mode, pad 1..5) combination recurs
        import itertools
        combos = list(itertools.product([0, 1], _ext.METHODS, list(_ext.EMODES), [1, 2, 3, 4, 5]))
        k = 0
        for length in range(5, (9 if tier == 'thorough' else 7) + 1):
            for seq in _ext.enum_block(length, []):
                par, method, emode, pad = combos[k % len(combos)]
                if len(_ext.strict_extrema(seq, _ext.EMODES[emode])) >= 2:
                    k += 1
                    yield {'x': seq, 'emode': emode, 'method': method, 'pad': pad, 'parab': par, 'family': 'alphabet-sweep'}
        n_cases = 3000 if tier == 'thorough' else 330
        for i in range(n_cases):
            u = rng.random()
            if u < 0.3:
                n = rng.randint(3, 9)
                x = [rng.choice(_ext.LEVELS) for _ in range(n)]
                fam = 'alphabet'
            else:
                fam = rng.choice(_ext.FAMILIES)
                n = rng.choice([5, 8, 16, 33, 64, 128]) if rng.random() < 0.7 else rng.randint(3, 250)
                x = _ext.synth_signal(rng, n, fam)
            yield {'x': x, 'emode': rng.choice(list(_ext.EMODES)), 'method': rng.choice(_ext.METHODS),
                   'pad': rng.choice(_ext.PADS if rng.random() < 0.9 else [8, 50]),
                   'parab': int(rng.random() < 0.5), 'col2d': int(rng.random() < 0.1), 'family': fam}
        # bursts separated by quiet stretches, 'combined' cubic spline (undershoots zero in the gaps) and data in small physical
        # units with parabolic refinement: the two corners of the quantifier that the uniform draw above reaches too rarely
        for i in range(300 if tier == 'thorough' else 40):
            if i % 2:
                x = _ext.synth_signal(rng, rng.choice([64, 128, 200, 256]), 'bursts')
                yield {'x': x, 'emode': 'combined' if rng.random() < 0.7 else rng.choice(['upper', 'lower']),
                       'method': 'splrep' if rng.random() < 0.8 else rng.choice(_ext.METHODS), 'pad': rng.choice([1, 2, 3, 4, 5]),
                       'parab': int(rng.random() < 0.3), 'family': 'bursts'}
            else:
                x = _ext.synth_signal(rng, rng.choice([16, 33, 64, 128]), 'tiny')
                yield {'x': x, 'emode': rng.choice(list(_ext.EMODES)), 'method': rng.choice(_ext.METHODS),
                       'pad': rng.choice([1, 2, 3, 4, 5]), 'parab': int(rng.random() < 0.8), 'family': 'tiny'}
        # input stored as int64 / int32 / float32 (case['x'] holds exactly the stored values)
        for i in range(1500 if tier == 'thorough' else 160):
            dt = rng.choice(_ext.DTYPES)
            n = rng.choice([5, 8, 16, 33, 64]) if rng.random() < 0.7 else rng.randint(3, 120)
            if dt == 'float32':
                fam = rng.choice(_ext.FAMILIES)
                x = _ext.synth_signal(rng, n, fam)
            else:
                fam = rng.choice(['levels', 'signed-levels', 'int-walk', 'int-quantised', 'int-quantised'])
                if fam == 'int-walk':
                    x, v = [], 0
                    for _ in range(n):
                        v += rng.randint(-3, 3)
                        x.append(v)
                elif fam == 'int-quantised':
                    q = rng.choice([2, 5, 10, 100, 1000])
                    x = [q * v for v in _ext.synth_signal(rng, n, rng.choice(['smooth', 'trend']))]
                else:
                    x = _ext.synth_signal(rng, n, fam)
            yield {'x': _ext.as_dtype(x, dt), 'emode': rng.choice(list(_ext.EMODES)), 'method': rng.choice(_ext.METHODS),
                   'pad': rng.choice(_ext.PADS if rng.random() < 0.9 else [8, 50]),
                   'parab': int(rng.random() < 0.4), 'col2d': int(rng.random() < 0.1), 'family': fam, 'dtype': dt}

    def impl(self, case):
        return _ext.call_env(case['x'], case['emode'], case['method'], case['pad'], case['parab'],
                             case.get('col2d', 0), dtype=case.get('dtype'))

    def ops(self, case, out):
        tab = None if (isinstance(out, ImplError) or out.get('none')) else out['tab']
        return [_ext.env_op(case['x'], case['emode'], case['pad'], case['parab'], tab)]

    def _illcond(self, case):
        return bool(case['parab']) and _ext.parab_condition(case['x'], _ext.EMODES[case['emode']]) < 1e-6

    def _rejected(self, case):
        """pad_width=0 with at least two extrema: the extrema do not span the signal; documented to raise"""
        return case['pad'] == 0 and len(_ext.strict_extrema(case['x'], _ext.EMODES[case['emode']])) >= 2

    def compare(self, case, out, results):
        r = results[0]
        if self._illcond(case):
            return 'skip:ill-conditioned-refinement'
        if isinstance(out, ImplError):
            if r.status == 'err' and r.words == [out['error']]:
                return None
            if r.status == 'err' and self._rejected(case) and out['error'] != 'Timeout':
                return None    # pad_width=0: rejected, by whichever layer refuses first (e.g. scipy's spline constructor: TypeError)
            if len(case['x']) < 3 and out['error'] != 'Timeout' and r.status == 'none':
                return 'skip:short-input-rejected'
            return 'implementation raised %s (%s); model %s' % (out['error'], out['msg'][-120:], r.raw[:120])
        if out.get('none'):
            return None if r.status == 'none' else 'implementation None, model %s' % r.raw[:160]
        if not r.ok:
            return 'implementation returned an envelope of %d values, model %s' % (len(out['env']), r.raw[:160])
        tol = TOL * _scale(case['x'] + out['mags'], len(case['x']))
        env, ml, mm = r.vecs[0] or [], r.vecs[1] or [], r.vecs[2] or []
        if len(ml) != len(out['locs']):
            return 'skip:near-tie-loop-decision' if case['parab'] and self._loop_margin(case, out) < 1e-7 else \
                'implementation %d extrema, model %d' % (len(out['locs']), len(ml))
        if any(abs(float(a) - b) > tol for a, b in zip(ml, out['locs'])) or any(abs(float(a) - b) > tol for a, b in zip(mm, out['mags'])):
            return 'extrema differ: implementation locs=%s mags=%s, model locs=%s mags=%s' % (
                out['locs'][:10], out['mags'][:10], [float(v) for v in ml[:10]], [float(v) for v in mm[:10]])
        if len(env) != len(out['env']):
            return 'envelope length: implementation %d, model %d' % (len(out['env']), len(env))
        bad = [i for i, (a, b) in enumerate(zip(env, out['env'])) if abs(float(a) - b) > tol]
        if bad:
            i = bad[0]
            return 'envelope differs at %d of %d samples, first at %d: implementation %r, model (interpolant at sample %d) %r' % (
                len(bad), len(env), i, out['env'][i], i, float(env[i]))
        return None

    @staticmethod
    def _loop_margin(case, out):
        n = len(case['x'])
        return min(min(abs(v), abs(v - n)) for v in out['locs'])

    def holds(self, case, out):
        x = case['x']
        n = len(x)
        inq = case['pad'] <= 5          # the quantifier: pad widths 0..5 (8 and 50 are run for the correspondence only)
        if isinstance(out, ImplError):
            if out['error'] != 'Timeout' and (self._rejected(case) or n < 3):
                return []               # "rejected": any error class will do (pad_width=0 cannot give one value per sample)
            return [Failure('raises:' + out['error'], out['msg'], literal=inq and out['error'] != 'Timeout')]
        return _lit(self._holds(case, out), inq)

    def _holds(self, case, out):
        x = case['x']
        n = len(x)
        mode = _ext.EMODES[case['emode']]
        ext = _ext.strict_extrema(x, mode)
        if out.get('none'):
            return [Failure('envelope-missing', '%d strict extrema but None returned' % len(ext))] if len(ext) >= 2 else []
        if len(ext) < 2:
            # what is returned when there is nothing to interpolate is the code's convention (None), not the statement's
            return [Failure('envelope-with-fewer-than-two-extrema', '', literal=False)]
        fs = []
        tol = TOL * _mscale(x, n)
        ltol = TOL * _scale([], n)
        par = ':parabolic' if case['parab'] else ':integer-extrema'
        if len(out['env']) != n:
            return [Failure('envelope-length' + par, '%d values for %d samples' % (len(out['env']), n))]
        # validated assumption: the rebuilt interpolant passes through its knots
        if any(abs(a - b) > tol for a, b in zip(out['knots'], out['mags'])):
            fs.append(Failure('oracle:interpolant-misses-knot', 'method %s' % case['method'], literal=False))
        # the envelope is the interpolant through the returned extrema at each sample's own integer index
        bad = [i for i in range(n) if abs(out['env'][i] - out['tab'][i]) > tol]
        if bad:
            i = bad[0]
            fs.append(Failure('envelope-not-on-sample-grid' + par,
                              '%d of %d samples differ; sample %d: envelope %r, interpolant(%d) %r; first location %r'
                              % (len(bad), n, i, out['env'][i], i, out['tab'][i], out['locs'][0])))
        # passes through every unrefined extremum
        if not case['parab']:
            miss = [i for i in ext if abs(out['env'][i] - x[i] if mode != 'abs_peaks' else out['env'][i] - abs(x[i])) > tol]
            if miss:
                fs.append(Failure('envelope-misses-extremum', 'sample %d: envelope %r, signal %r' % (miss[0], out['env'][miss[0]], x[miss[0]])))
        if not self._illcond(case):
            fs += _ext.check_padded(x, case['pad'], mode, case['parab'], out['locs'], out['mags'], ltol if case['parab'] else 0.0,
                                    prefix='env:', mtol=tol if case['parab'] else 0.0, need_cover=True)
        return fs

    def tags(self, case, out):
        t = ['emode=' + case['emode'], 'method=' + case['method'], 'pad=%d' % case['pad'], 'parabolic=%d' % case['parab'],
             'family=' + case.get('family', 'corpus'), 'dtype=' + (case.get('dtype') or 'float64')]
        if isinstance(out, ImplError):
            t.append('raises:' + out['error'] + (':pad0-rejected' if self._rejected(case) else ''))
        elif out.get('none'):
            t.append('result=None')
        else:
            t.append('envelope')
            frac = abs(out['locs'][0] - round(out['locs'][0])) > 1e-9
            t.append('first-location-fractional' if frac else 'first-location-integral')
        if case.get('col2d'):
            t.append('2d-column-input')
        return t

    def nontrivial(self, case, out):
        return len(_ext.strict_extrema(case['x'], _ext.EMODES[case['emode']])) >= 2 and case['pad'] > 0

    def shrink(self, case):
        x = case['x']
        n = len(x)
        for cut in (n // 2, n // 4, 2, 1):
            if 0 < cut < n:
                yield dict(case, x=x[cut:])
                yield dict(case, x=x[:n - cut])
        if any(v != round(v, 1) for v in x):
            yield dict(case, x=_ext.as_dtype([round(v, 1) for v in x], case.get('dtype')))
        if case.get('col2d'):
            yield dict(case, col2d=0)
        if case['method'] != 'pchip':
            yield dict(case, method='pchip')


STREAMS = [ExtremaExhaustive(), ExtremaSingle(), NumpyPad(), Envelope()]
