"""C12 — cycle detection partitions the phase series at its phase wraps."""
import numpy as np

from common.framework import Failure, ImplError, Stream
from props import _cyc

ID = 'C12'
LEAN_MODULES = ['Proofs.C12']
REQUIRED = ['C12.segs_partition', 'C12.segs_nonempty', 'C12.segs_no_internal_wrap',
            'C12.segs_boundaries_are_wraps', 'C12.labels_sequential', 'C12.cv_length',
            'C12.cv_values', 'C12.cv_all_cover', 'C12.cv_no_wrap_none', 'C12.cv_label_block',
            'C12.code_model_refines', 'C12.code_model_all_cover', 'C12.code_model_no_wrap',
            'C12.code_model_boundaries', 'C12.code_model_slices_nonempty', 'C12.code_model_tests_only_slices',
            'C12.code_model_never_tests_empty', 'C12.is_good_never_raises', 'C12.getCycleVector_all_cover',
            'C12.explicit_step_used_as_given', 'C12.partition_every_step', 'C12.step_zero_partition',
            'C12.step_negative_every_sample_a_cycle', 'C12.step_not_exceeded_no_cycles']
TRUSTED = ['wrap_phase (x % 2pi) is an oracle: the branch `if phase.max() > 2*pi: phase = wrap_phase(phase)` of get_cycle_vector is not modelled; '
           'phases above 2pi are wrapped by the real emd.utils.wrap_phase before they reach the model, and no theorem (in particular not the '
           '"never fails" theorems C12.code_model_slices_nonempty / C12.is_good_never_raises) speaks about that branch',
           'float subtraction in |diff(phase)| > phase_step is compared with exact subtraction; cases within 1e-9 of the threshold are skipped and counted']
ASSUMPTIONS = ['multi-column input is processed column by column (checked: each column is compared with the model separately)',
               'masks are Boolean vectors, one column (the model type is List Bool); integer-typed masks are outside the documented type and '
               'outside the model (the code evaluates any(~mask[a:b]): ~1 = -2 is truthy, so a 0/1 integer mask vetoes every cycle; '
               'a multi-column mask makes any() raise ValueError)']
RULE = ('exhaustive: every phase sequence of length <= L over the 5-value alphabet %s x return_good in {0,1} '
        '(L=6 quick, 8 thorough) at the default phase_step, and every sequence of length <= 5 (6) at phase_step = 0 / 0.0 (every change '
        'of phase is a wrap) and 7.0 (nothing is); random: synthetic wrapped phases with variable, noisy, occasionally reversing '
        'frequency (sampled-and-held for small thresholds), 1-3 columns, phase_step in {default, pi, 4, pi/2, 1.9pi, 0, 0.0, 0.3, -1, 2pi, 7}, '
        'called by keyword, positionally and through the get_cycle_inds alias, on writable arrays; 10 %% unwrapped phases above 2pi '
        '(outside the quantifier: compared with the model, verdicts mechanism-level) and a second call on a read-only copy '
        '(mechanism-level). A case is non-trivial when its series contains at least one wrap; distinct by content hash.' % (_cyc.ALPHABET,))


class Exhaustive(Stream):
    name = 'cv_exhaustive'
    exhaustive = True

    def corpus(self):
        return []

    def generate(self, rng, tier):
        L = 8 if tier == 'thorough' else 6
        for length in range(1, L + 1):
            npre = min(length, 3 if tier == 'thorough' else 2)
            import itertools
            for prefix in itertools.product(range(5), repeat=npre):
                for good in (0, 1):
                    yield {'len': length, 'prefix': list(prefix), 'good': good}
        # "all phase_step values": the lower end of the range, phase_step = 0 (every change of phase is a wrap; the alphabet
        # sequences repeat values, so some neighbours are NOT wraps), as int and as float, and a threshold nothing exceeds
        for length in range(1, (6 if tier == 'thorough' else 5) + 1):
            for p in range(5):
                for good in (0, 1):
                    for st in (0, 0.0, 7.0):
                        if st == 7.0 and (good or length % 2):
                            continue
                        yield {'len': length, 'prefix': [p], 'good': good, 'step': st, 'call': 'pos' if (length + p) % 2 else 'kw'}

    def impl(self, case):
        outs = []
        for seq in _cyc.enum_block(case['len'], case['prefix']):
            try:
                cv = _cyc.call_cv(seq, case['good'], None, case.get('step'), None, call=case.get('call', 'kw'))
                outs.append([int(v) for v in cv[:, 0]])
            except Exception as e:  # noqa
                outs.append({'error': type(e).__name__})
        return outs

    def ops(self, case, out):
        return [_cyc.cv_op(seq, _cyc.step_of(case), case['good'], _cyc.DEFAULT_EDGE, None, arg=case.get('step'))
                for seq in _cyc.enum_block(case['len'], case['prefix'])]

    def compare(self, case, out, results):
        if isinstance(out, ImplError):
            return 'implementation raised %s' % out['error']
        for seq, o, r in zip(_cyc.enum_block(case['len'], case['prefix']), out, results):
            if isinstance(o, dict):
                return 'implementation raised %s on %s (model: %s)' % (o['error'], seq, r.raw)
            if not r.ok or [int(v) for v in (r.vecs[0] or [])] != o:
                return 'phase=%s good=%d phase_step=%r impl=%s model=%s' % (seq, case['good'], case.get('step'), o, r.raw)
        return None

    def holds(self, case, out):
        if isinstance(out, ImplError):
            # the whole block failed (time-out of 5^k tiny calls / harness fault): reported by compare, not a C12 verdict
            return [Failure('raises:' + out['error'], out['msg'], literal=False)]
        step = _cyc.step_of(case)
        fs = {}
        try:
            for seq, o in zip(_cyc.enum_block(case['len'], case['prefix']), out):
                if isinstance(o, dict):
                    last_wrap = len(seq) >= 2 and abs(seq[-1] - seq[-2]) > step
                    k = 'raises:%s%s' % (o['error'], ':wrap-on-last-sample' if last_wrap else '')
                    fs.setdefault(k, Failure(k, 'phase=%s good=%d phase_step=%r' % (seq, case['good'], case.get('step'))))
                    continue
                for f in _cyc.check_partition(seq, o, step, case['good'], False):
                    f.detail = 'phase=%s good=%d phase_step=%r labels=%s: %s' % (seq, case['good'], case.get('step'), o, f.detail)
                    fs.setdefault(f.kind, f)
        except Exception as e:  # noqa  (a fault of the check itself is not a property failure)
            return [Failure('instance-check-crashed', repr(e), literal=False)]
        return list(fs.values())

    def tags(self, case, out):
        t = ['len=%d' % case['len'], 'good=%d' % case['good'], 'phase_step=%r' % case.get('step', 'default'), 'call=' + case.get('call', 'kw')]
        if not isinstance(out, ImplError):
            nw = sum(1 for seq in _cyc.enum_block(case['len'], case['prefix']) if _cyc.wraps_of(seq, _cyc.step_of(case)))
            t.append('blocks-with-wrapped-sequences' if nw else 'blocks-without-wrap')
        return t

    def nontrivial(self, case, out):
        return any(_cyc.wraps_of(seq, _cyc.step_of(case)) for seq in _cyc.enum_block(case['len'], case['prefix']))

    def shrink(self, case):
        return []


class Single(Stream):
    """One explicit phase array (1-3 columns), any phase_step; also the replay format."""
    name = 'cv_random'

    def corpus(self):
        a = _cyc.ALPHABET
        return [
            # D9 witnesses (pinned tree): last sample never labelled / wrap on the final sample
            {'phase': [[6.0, 0.1, 3.1, 6.2]], 'good': 0, 'step': None},
            {'phase': [[0.1, 3.1, 6.2, 0.1]], 'good': 0, 'step': None},
            {'phase': [[0.1, 3.1, 6.2, 0.1]], 'good': 1, 'step': None},
            {'phase': [[0.1, 6.2]], 'good': 1, 'step': None},
            {'phase': [[3.0]], 'good': 0, 'step': None},
            {'phase': [[0.1, 3.1, 6.2, 0.1, 3.1, 6.2, 0.1, 3.0, 6.2]], 'good': 1, 'step': None},
            {'phase': [[a[0], a[2], a[4], a[0], a[2], a[4]], [a[2], a[4], a[0], a[2], a[4], a[0]]], 'good': 0, 'step': None},
            # round 3, C12 patch 1 (`phase_step = phase_step or DEFAULT`): an explicit phase_step of 0 is a threshold, not "unset"
            {'phase': [[0.0, 1.57]], 'good': 0, 'step': 0},
            {'phase': [[0.5, 0.5, 1.0, 1.0, 1.0, 2.5, 2.5, 6.0, 0.2, 0.2]], 'good': 0, 'step': 0.0},
            {'phase': [[0.5, 0.5, 1.0, 1.0, 1.0, 2.5, 2.5, 6.0, 0.2, 0.2]], 'good': 0, 'step': 0, 'call': 'posall'},
            {'phase': [[0.1, 3.1, 6.2, 0.1, 3.1, 6.2]], 'good': 0, 'step': -1.0},
            {'phase': [[0.1, 3.1, 6.2, 0.1, 3.1, 6.2]], 'good': 0, 'step': 7.0, 'call': 'pos'},
        ]

    STEPS = [None, None, np.pi, 4.0, 0.5 * np.pi, 1.9 * np.pi, 0, 0.0, 0.3, -1.0, 2 * np.pi, 7.0]

    def generate(self, rng, tier):
        n_cases = 1500 if tier == 'thorough' else 150
        for i in range(n_cases):
            ncol = rng.choice([1, 1, 2, 3])
            n = rng.choice([2, 3, 5, 17, 64, 200, 500]) if rng.random() < 0.7 else rng.randint(2, 900)
            cols = [_cyc.synth_phase(rng, n, reversing=rng.random() < 0.7) for _ in range(ncol)]
            step = rng.choice(self.STEPS)
            if step is not None and step <= 0.3 and rng.random() < 0.7:
                # a sampled-and-held phase: stretches of equal neighbours (the only non-wraps when phase_step is 0)
                cols = [[c[j - j % rng.choice([2, 3, 5])] if rng.random() < 0.8 else c[j] for j in range(n)] for c in cols]
            over = rng.random() < 0.1
            if over:   # unwrapped phase above 2pi (outside the quantifier "phase sequences in [0,2pi)": compared, not judged literally)
                cols = [list(np.unwrap(np.array(c))) for c in cols]
            yield {'phase': cols, 'good': rng.choice([0, 1]), 'step': step, 'call': rng.choice(['kw', 'kw', 'pos', 'posall', 'alias'])}

    def _cols(self, case):
        cols = [np.array(c, dtype=float) for c in case['phase']]
        return cols

    def _over_range(self, case):
        a = np.array(case['phase'], dtype=float)
        return bool(a.max() > 2 * np.pi or a.min() < 0)

    def _wrapped_cols(self, case):
        import emd
        arr = np.array(case['phase'], dtype=float).T
        if arr.max() > 2 * np.pi:
            arr = emd.utils.wrap_phase(arr)
        return [arr[:, i] for i in range(arr.shape[1])]

    def impl(self, case):
        arr = np.array(case['phase'], dtype=float).T          # [n x ncol]
        if arr.shape[1] == 1 and case.get('vector', True):
            arr = arr[:, 0]
        rep = {}
        cv = _cyc.call_cv(arr, case['good'], None, case.get('step'), case.get('edge'), call=case.get('call', 'kw'), report=rep)
        out = {'cols': [[int(v) for v in cv[:, i]] for i in range(cv.shape[1])], 'modified': rep.get('modified', False)}
        # the same phase held in a read-only array (np.load(mmap_mode='r'), broadcast views ...): mechanism-level only
        try:
            cv2 = _cyc.call_cv(arr, case['good'], None, case.get('step'), case.get('edge'), call=case.get('call', 'kw'), readonly=True)
            out['readonly'] = 'same' if np.array_equal(cv2, cv) else 'differs'
        except Exception as e:  # noqa
            out['readonly'] = 'raises:' + type(e).__name__
        return out

    def ops(self, case, out):
        return [_cyc.cv_op(c, _cyc.step_of(case), case['good'], _cyc.edge_of(case), None, arg=case.get('step')) for c in self._wrapped_cols(case)]

    def _near_tie(self, case):
        step = _cyc.step_of(case)
        # |x - y| > 0 is decided exactly by float subtraction (x - y == 0 iff x == y): no tie at phase_step = 0
        return step != 0 and min(_cyc.tie_margin(c, step) for c in self._wrapped_cols(case)) < 1e-9

    def compare(self, case, out, results):
        if self._near_tie(case):
            return 'skip:near-tie'
        if isinstance(out, ImplError):
            return 'implementation raised %s; model: %s' % (out['error'], [r.raw[:80] for r in results])
        for i, (o, r) in enumerate(zip(out['cols'], results)):
            if not r.ok or [int(v) for v in (r.vecs[0] or [])] != o:
                return 'column %d: impl=%s model=%s' % (i, o[:40], r.raw[:200])
        return None

    def holds(self, case, out):
        step = _cyc.step_of(case)
        cols = self._wrapped_cols(case)
        # phases above 2pi are outside "all phase sequences in [0,2pi)" (the code happens to wrap them first; the oracle wraps
        # them the same way): every verdict on them is mechanism-level
        lit = not self._over_range(case)
        if isinstance(out, ImplError):
            last_wrap = any(len(c) >= 2 and abs(c[-1] - c[-2]) > step for c in cols)
            return [Failure('raises:%s%s' % (out['error'], ':wrap-on-last-sample' if last_wrap else ''), out['msg'],
                            literal=lit and out['error'] != 'Timeout')]
        if self._near_tie(case):
            return []
        fs = {}
        for c, o in zip(cols, out['cols']):
            for f in _cyc.check_partition(c, o, step, case['good'], False):
                f.literal = lit
                f.detail = 'phase_step=%r call=%s: %s' % (case.get('step'), case.get('call', 'kw'), f.detail)
                fs.setdefault(f.kind, f)
        if out.get('readonly', 'same') != 'same':
            # "for any wrapped phase time-course detection never fails": a phase held in a non-writeable array is a phase
            # time-course, so a call that RAISES on it is the property's own words failing; a different answer is only
            # mechanism-level here (values in a read-only array are C19's subject)
            fs['ro'] = Failure('read-only-phase:' + out['readonly'], 'the same call on the same values held in a non-writeable array',
                               literal=bool(lit) and out['readonly'].startswith('raises:'))
        if out.get('modified'):
            fs['mod'] = Failure('input-modified', "the caller's phase array no longer holds its values after the call", literal=False)
        return list(fs.values())

    def tags(self, case, out):
        step = _cyc.step_of(case)
        st = case.get('step')
        t = ['cols=%d' % len(case['phase']), 'good=%d' % case['good'], 'call=' + case.get('call', 'kw'),
             'step=%s' % ('default' if st is None else repr(st) if st in (0, 0.0) else round(st, 3))]
        cols = self._wrapped_cols(case)
        nw = sum(len(_cyc.wraps_of(c, step)) for c in cols)
        t.append('wraps=0' if nw == 0 else 'wraps=1-3' if nw <= 3 else 'wraps>3')
        if any(len(c) >= 2 and abs(c[-1] - c[-2]) > step for c in cols):
            t.append('wrap-on-last-sample')
        if any(len(c) >= 2 and abs(c[1] - c[0]) > step for c in cols):
            t.append('wrap-on-second-sample')
        if self._over_range(case):
            t.append('outside-domain:needs-wrapping')
        return t

    def nontrivial(self, case, out):
        return any(_cyc.wraps_of(c, _cyc.step_of(case)) for c in self._wrapped_cols(case))

    def shrink(self, case):
        cols = case['phase']
        if len(cols) > 1:
            for i in range(len(cols)):
                yield dict(case, phase=[cols[i]])
        n = len(cols[0])
        if n > 1:
            for cut in (n // 2, n // 4, 1):
                if 0 < cut < n:
                    yield dict(case, phase=[c[cut:] for c in cols])
                    yield dict(case, phase=[c[:n - cut] for c in cols])


STREAMS = [Exhaustive(), Single()]
