"""C12 — cycle detection partitions the phase series at its phase wraps."""
import numpy as np

from common.framework import Failure, ImplError, Stream
from props import _cyc

ID = 'C12'
LEAN_MODULES = ['Proofs.C12']
REQUIRED = ['C12.segs_partition', 'C12.segs_nonempty', 'C12.segs_no_internal_wrap',
            'C12.segs_boundaries_are_wraps', 'C12.labels_sequential', 'C12.cv_length',
            'C12.cv_values', 'C12.cv_all_cover', 'C12.cv_no_wrap_none', 'C12.cv_label_block',
            'C12.code_model_refines', 'C12.code_model_all_cover', 'C12.code_model_no_wrap',
            'C12.code_model_boundaries', 'C12.code_model_slices_nonempty', 'C12.code_model_tests_only_slices',
            'C12.code_model_never_tests_empty', 'C12.is_good_never_raises', 'C12.getCycleVector_all_cover']
TRUSTED = ['wrap_phase (x % 2pi) is an oracle: the branch `if phase.max() > 2*pi: phase = wrap_phase(phase)` of get_cycle_vector is not modelled; '
           'phases above 2pi are wrapped by the real emd.utils.wrap_phase before they reach the model, and no theorem (in particular not the '
           '"never fails" theorems C12.code_model_slices_nonempty / C12.is_good_never_raises) speaks about that branch',
           'float subtraction in |diff(phase)| > phase_step is compared with exact subtraction; cases within 1e-9 of the threshold are skipped and counted']
ASSUMPTIONS = ['multi-column input is processed column by column (checked: each column is compared with the model separately)',
               'masks are Boolean vectors, one column (the model type is List Bool); integer-typed masks are outside the documented type and '
               'outside the model (the code evaluates any(~mask[a:b]): ~1 = -2 is truthy, so a 0/1 integer mask vetoes every cycle; '
               'a multi-column mask makes any() raise ValueError)']
RULE = ('exhaustive: every phase sequence of length <= L over the 5-value alphabet %s x return_good in {0,1} '
        '(L=6 quick, 8 thorough); random: synthetic wrapped phases with variable, noisy, occasionally reversing '
        'frequency, 1-3 columns, 4 phase_step values. A case is non-trivial when its series contains at least one wrap; '
        'distinct by content hash.' % (_cyc.ALPHABET,))


class Exhaustive(Stream):
    name = 'cv_exhaustive'
    exhaustive = True

    def corpus(self):
        return []

    def generate(self, rng, tier):
        L = 8 if tier == 'thorough' else 6
        for length in range(1, L + 1):
            npre = min(length, 3 if tier == 'thorough' else 2)
            import itertools
            for prefix in itertools.product(range(5), repeat=npre):
                for good in (0, 1):
                    yield {'len': length, 'prefix': list(prefix), 'good': good}

    def impl(self, case):
        outs = []
        for seq in _cyc.enum_block(case['len'], case['prefix']):
            try:
                cv = _cyc.call_cv(seq, case['good'], None, None, None)
                outs.append([int(v) for v in cv[:, 0]])
            except Exception as e:  # noqa
                outs.append({'error': type(e).__name__})
        return outs

    def ops(self, case, out):
        return [_cyc.cv_op(seq, _cyc.DEFAULT_STEP, case['good'], _cyc.DEFAULT_EDGE, None)
                for seq in _cyc.enum_block(case['len'], case['prefix'])]

    def compare(self, case, out, results):
        if isinstance(out, ImplError):
            return 'implementation raised %s' % out['error']
        for seq, o, r in zip(_cyc.enum_block(case['len'], case['prefix']), out, results):
            if isinstance(o, dict):
                return 'implementation raised %s on %s (model: %s)' % (o['error'], seq, r.raw)
            if not r.ok or [int(v) for v in (r.vecs[0] or [])] != o:
                return 'phase=%s good=%d impl=%s model=%s' % (seq, case['good'], o, r.raw)
        return None

    def holds(self, case, out):
        if isinstance(out, ImplError):
            return [Failure('raises:' + out['error'], out['msg'])]
        fs = {}
        for seq, o in zip(_cyc.enum_block(case['len'], case['prefix']), out):
            if isinstance(o, dict):
                last_wrap = len(seq) >= 2 and abs(seq[-1] - seq[-2]) > _cyc.DEFAULT_STEP
                k = 'raises:%s%s' % (o['error'], ':wrap-on-last-sample' if last_wrap else '')
                fs.setdefault(k, Failure(k, 'phase=%s good=%d' % (seq, case['good'])))
                continue
            for f in _cyc.check_partition(seq, o, _cyc.DEFAULT_STEP, case['good'], False):
                f.detail = 'phase=%s good=%d labels=%s: %s' % (seq, case['good'], o, f.detail)
                fs.setdefault(f.kind, f)
        return list(fs.values())

    def tags(self, case, out):
        t = ['len=%d' % case['len'], 'good=%d' % case['good']]
        if not isinstance(out, ImplError):
            nw = sum(1 for seq in _cyc.enum_block(case['len'], case['prefix']) if _cyc.wraps_of(seq, _cyc.DEFAULT_STEP))
            t.append('blocks-with-wrapped-sequences' if nw else 'blocks-without-wrap')
        return t

    def nontrivial(self, case, out):
        return any(_cyc.wraps_of(seq, _cyc.DEFAULT_STEP) for seq in _cyc.enum_block(case['len'], case['prefix']))

    def shrink(self, case):
        return []


class Single(Stream):
    """One explicit phase array (1-3 columns), any phase_step; also the replay format."""
    name = 'cv_random'

    def corpus(self):
        a = _cyc.ALPHABET
        return [
            # D9 witnesses (pinned tree): last sample never labelled / wrap on the final sample
            {'phase': [[6.0, 0.1, 3.1, 6.2]], 'good': 0, 'step': None},
            {'phase': [[0.1, 3.1, 6.2, 0.1]], 'good': 0, 'step': None},
            {'phase': [[0.1, 3.1, 6.2, 0.1]], 'good': 1, 'step': None},
            {'phase': [[0.1, 6.2]], 'good': 1, 'step': None},
            {'phase': [[3.0]], 'good': 0, 'step': None},
            {'phase': [[0.1, 3.1, 6.2, 0.1, 3.1, 6.2, 0.1, 3.0, 6.2]], 'good': 1, 'step': None},
            {'phase': [[a[0], a[2], a[4], a[0], a[2], a[4]], [a[2], a[4], a[0], a[2], a[4], a[0]]], 'good': 0, 'step': None},
        ]

    def generate(self, rng, tier):
        n_cases = 1500 if tier == 'thorough' else 150
        steps = [None, np.pi, 4.0, 0.5 * np.pi, 1.9 * np.pi]
        for i in range(n_cases):
            ncol = rng.choice([1, 1, 2, 3])
            n = rng.choice([2, 3, 5, 17, 64, 200, 500]) if rng.random() < 0.7 else rng.randint(2, 900)
            cols = [_cyc.synth_phase(rng, n, reversing=rng.random() < 0.7) for _ in range(ncol)]
            over = rng.random() < 0.1
            if over:   # unwrapped phase above 2pi: the implementation must wrap it first
                cols = [list(np.unwrap(np.array(c))) for c in cols]
            yield {'phase': cols, 'good': rng.choice([0, 1]), 'step': rng.choice(steps)}

    def _cols(self, case):
        cols = [np.array(c, dtype=float) for c in case['phase']]
        return cols

    def _wrapped_cols(self, case):
        import emd
        arr = np.array(case['phase'], dtype=float).T
        if arr.max() > 2 * np.pi:
            arr = emd.utils.wrap_phase(arr)
        return [arr[:, i] for i in range(arr.shape[1])]

    def impl(self, case):
        arr = np.array(case['phase'], dtype=float).T          # [n x ncol]
        if arr.shape[1] == 1 and case.get('vector', True):
            arr = arr[:, 0]
        cv = _cyc.call_cv(arr, case['good'], None, case.get('step'), case.get('edge'))
        return [[int(v) for v in cv[:, i]] for i in range(cv.shape[1])]

    def ops(self, case, out):
        step = case.get('step') or _cyc.DEFAULT_STEP
        edge = case.get('edge') or _cyc.DEFAULT_EDGE
        return [_cyc.cv_op(c, step, case['good'], edge, None) for c in self._wrapped_cols(case)]

    def compare(self, case, out, results):
        step = case.get('step') or _cyc.DEFAULT_STEP
        cols = self._wrapped_cols(case)
        if min(_cyc.tie_margin(c, step) for c in cols) < 1e-9:
            return 'skip:near-tie'
        if isinstance(out, ImplError):
            return 'implementation raised %s; model: %s' % (out['error'], [r.raw[:80] for r in results])
        for i, (o, r) in enumerate(zip(out, results)):
            if not r.ok or [int(v) for v in (r.vecs[0] or [])] != o:
                return 'column %d: impl=%s model=%s' % (i, o[:40], r.raw[:200])
        return None

    def holds(self, case, out):
        step = case.get('step') or _cyc.DEFAULT_STEP
        cols = self._wrapped_cols(case)
        if isinstance(out, ImplError):
            last_wrap = any(len(c) >= 2 and abs(c[-1] - c[-2]) > step for c in cols)
            return [Failure('raises:%s%s' % (out['error'], ':wrap-on-last-sample' if last_wrap else ''), out['msg'])]
        fs = {}
        for c, o in zip(cols, out):
            for f in _cyc.check_partition(c, o, step, case['good'], False):
                fs.setdefault(f.kind, f)
        return list(fs.values())

    def tags(self, case, out):
        step = case.get('step') or _cyc.DEFAULT_STEP
        t = ['cols=%d' % len(case['phase']), 'good=%d' % case['good'], 'step=%s' % ('default' if not case.get('step') else round(case['step'], 3))]
        cols = self._wrapped_cols(case)
        nw = sum(len(_cyc.wraps_of(c, step)) for c in cols)
        t.append('wraps=0' if nw == 0 else 'wraps=1-3' if nw <= 3 else 'wraps>3')
        if any(len(c) >= 2 and abs(c[-1] - c[-2]) > step for c in cols):
            t.append('wrap-on-last-sample')
        if any(len(c) >= 2 and abs(c[1] - c[0]) > step for c in cols):
            t.append('wrap-on-second-sample')
        if np.array(case['phase']).max() > 2 * np.pi:
            t.append('needs-wrapping')
        return t

    def nontrivial(self, case, out):
        step = case.get('step') or _cyc.DEFAULT_STEP
        return any(_cyc.wraps_of(c, step) for c in self._wrapped_cols(case))

    def shrink(self, case):
        cols = case['phase']
        if len(cols) > 1:
            for i in range(len(cols)):
                yield dict(case, phase=[cols[i]])
        n = len(cols[0])
        if n > 1:
            for cut in (n // 2, n // 4, 1):
                if 0 < cut < n:
                    yield dict(case, phase=[c[cut:] for c in cols])
                    yield dict(case, phase=[c[:n - cut] for c in cols])


STREAMS = [Exhaustive(), Single()]
