"""C09 — instantaneous phase, frequency and amplitude are consistent and accurate."""
import math
from fractions import Fraction

import numpy as np

from common import proto
from common.framework import Failure, ImplError, Stream
from props import _phase as P

ID = 'C09'
LEAN_MODULES = ['Proofs.C09']
REQUIRED = ['C09.wrap_range', 'C09.wrap_periodic', 'C09.wrap_spec', 'C09.ft_shapes', 'C09.ft_short_input_raises', 'C09.ft_some_iff',
            'C09.freq_is_scaled_gradient', 'C09.unwrap_wrap', 'C09.freq_is_gradient_of_unwrapped_output',
            'C09.ft_hilbert_scale', 'C09.ft_nht_scale', 'C09.ft_nht_scale_any', 'C09.ft_quad_scale', 'C09.ft_quad_scale_needs_envelope',
            'C09.ft_nht_nonoscillatory', 'C09.ft_quad_nonoscillatory', 'C09.ft_nht_amplitude_is_envelope', 'C09.ft_hilbert_amplitude_finite',
            'C09.ft_nht_no_envelope_phase', 'C09.amplitudeNormalise_no_envelope',
            'C09.amplitudeNormalise_scale_free', 'C09.amplitudeNormalise_no_absolute_threshold', 'C09.amplitudeNormalise_sign', 'C09.amplitudeNormalise_sign_needs_posEnv', 'C09.quad_unit_modulus',
            'C09.roundtrip_interior', 'C09.roundtrip_edges', 'C09.roundtrip_locally_const', 'C09.roundtrip_const']
TRUSTED = [
    'PARTIAL: sinusoid recovery accuracy (frequency, amplitude, phase within tolerance) is a statement about the FFT '
    'Hilbert transform, spline/pchip envelopes and the 5-point median filter; it is decided by the instance check only '
    '(stream sinusoid_recovery: mean / median / max errors on the interior 80 % against props/_phase_table.py - worst errors of '
    '40,000 random records + phase sweeps at resonant samples-per-cycle values on the clean tree, x3 margin), not by a theorem. '
    'Pointwise quad errors are large by construction of the method (max 0.29-0.48 relative frequency error, median jumps at '
    'resonant sampling), so for quad only mean frequency / mean phase / amplitude are tight; see _phase.CHECKED',
    'integer-typed records: the recovery tolerance is applied when the float64 copy of the same integer-valued samples meets it '
    '(flat-topped rounded peaks are an extrema-detection matter, C05); bit-identity with the float64 copy is always required',
    'PARTIAL: phase in [0, 2pi) is proved in exact arithmetic (C09.wrap_range); in float64 x % 2pi returns exactly 2pi for a '
    'tiny negative x (|x| < ulp) - the instance check tolerates exactly that value and counts it (tag phase-equals-2pi)',
    'scipy.signal.hilbert, np.angle, np.abs, np.unwrap + scipy.signal.medfilt, the upper-envelope interpolation and the '
    'sqrt table of the quadrature transform are oracles; their tables come from the real library on the same run',
    'np.gradient, np.cumsum, % and np.unwrap are modelled exactly (Phase.gradient, cumsumFrom, wrap, unwrap) and compared '
    'with numpy on every run (streams conversions, wrap_phase, np_unwrap_model)',
    'bit-exact invariance under 2^k rescaling is a float64 fact: instance check only (the theorem is the exact-arithmetic law)',
    'scale invariance (C09.ft_hilbert_scale, ft_nht_scale, ft_nht_scale_any, ft_quad_scale): the only library hypotheses left are the '
    'single-function contracts hilbert_linear, angle_scale_invariant (angle and abs), envelope_homogeneous (combined/pchip at '
    'iteration 0 and upper/splrep, same None-ness), all for c > 0 (explicit hypothesis 0 < c) and all evaluated on the real functions '
    'every run (stream library_assumptions).  hilbert and nht are checked on every column; for quad the clauses are evaluated on '
    'oscillatory columns only: without a combined envelope amplitude_normalise returns the column unchanged '
    '(C09.amplitudeNormalise_no_envelope), the clipped raw samples enter the quadrature signal and the law is FALSE there '
    '(C09.ft_quad_scale_needs_envelope; real code: quad phase of the ramp [0, .25, .5, .75] moves by 1.047 rad under x2) - such '
    'inputs are still run for shape / range / derivative consistency and tagged scale-clauses-skipped(quad without envelope)',
    'non-oscillatory columns: where interp_envelope(mode=upper) returns None (fewer peaks than the envelope needs: ramp, constant, '
    'one peak between two troughs) frequency_transform(nht|quad) stores NaN at every amplitude sample and raises nothing, e.g. '
    'frequency_transform(np.linspace(0, 1, 50), 100, "nht").  The model says the same (amplitude samples are Option Rat, none = NaN; '
    'C09.ft_nht_nonoscillatory, ft_quad_nonoscillatory, ft_nht_amplitude_is_envelope, ft_hilbert_amplitude_finite); the FT op '
    'receives the envelope slot `none` and the correspondence compares sample by sample, NaN in the implementation <=> none in the '
    'model; the instance check demands an all-NaN column exactly when the upper envelope is None (kinds amplitude-non-finite, '
    'amplitude-without-envelope)',
    'PosEnv (every entry of every combined envelope > 0), hypothesis of C09.amplitudeNormalise_sign, is validated on every '
    'amplitude_normalise case on the very envelope table handed to the model (kind oracle:pos-env for pchip / mono_pchip, where it is '
    'a property of the monotone interpolant through the positive |peaks|).  For interp_method=splrep it is NOT true in general (a few '
    'per cent of columns: the cubic spline undershoots to <= 0, and amplitude_normalise then does flip signs: corpus noise seed 10, n 64): '
    'there the sign / finiteness / scale clauses are applied only to the cases where the validator finds PosEnv true, the others are '
    'tagged pos-env:fails(sign/scale clauses skipped).  frequency_transform always uses pchip',
    'fewer than 2 samples: the model returns none (C09.ft_short_input_raises; Phase.frequencyTransform?), the implementation raises '
    'ValueError (np.gradient) or IndexError (quadrature_transform); compared as error kinds',
    'a 1-D input of n samples is returned as (n, 1) arrays (documented ensure_2d behaviour); "the input\'s shape" is read as '
    'the input\'s 2-D shape',
]
ASSUMPTIONS = [
    'hilbert_linear: scipy.signal.hilbert(a*x + b*y) = a*hilbert(x) + b*hilbert(y) (1e-9 rel.; bit-exact for a = 2^k)',
    'angle_scale_invariant: np.angle(c*z) = np.angle(z), np.abs(c*z) = c*np.abs(z) for c > 0',
    'envelope_homogeneous: interp_envelope(c*x) = c*interp_envelope(x) for c > 0 (upper/splrep, combined/pchip, combined/splrep), same None-ness, '
    'also on non-oscillatory columns',
    'pos_env: every entry of interp_envelope(mode=combined, interp_method=pchip|mono_pchip) is > 0 on every iterate of amplitude_normalise '
    '(kind oracle:pos-env); not assumed for splrep',
    'unwrap_model: Phase.unwrap reproduces np.unwrap (period 2pi) away from exact ties',
    'columns are processed independently along axis 0 (every column is compared with the model separately)',
    'not judged literally (literal=False or tag only): fewer than two samples, invalid mode / method values (any error counts as rejected), '
    'columns that are not IMFs (no extrema / no upper envelope), wrap_phase with ncycles > 1 or mode -pi2pi, the phase_jump conventions other '
    'than the one frequency_transform uses, quadrature sign / modulus and amplitude_normalise sign / clip / identity / input conventions, '
    'one-sided edge samples of the derivative and of the round trip, every assumption:* / oracle:* validator; the cumulative sum may be '
    'inclusive or exclusive of the start sample; time-outs are tagged',
]
RULE = ('wrap_phase: dyadic / random / huge / tiny-negative / exact-multiple inputs x ncycles 1-3 x both modes (+ invalid mode); '
        'conversions: freq_from_phase, phase_from_freq, np.gradient on dyadic and random arrays, n 0-300, 1-3 columns, 1-D and 2-D; '
        'freq_phase_roundtrip: constant / piecewise-constant / smooth random / chirp profiles; '
        'phase_from_complex_signal: 4 phase-jump conventions x wrapped/unwrapped x smoothing on/off on scipy analytic signals; '
        'frequency_transform: sine, chirp, AM-FM, two-tone, white and smoothed noise, sifted IMFs, degenerate (constant, ramp, '
        'zeros, one peak between two troughs, ramp next to a sine, n<2) x {hilbert,nht,quad} x 1-3 columns x sample rates x 2^k (k from -100 to 60: small '
        'physical units are ordinary data) and random positive rescaling, judged within rounding (1e-9), literally on IMF columns only; '
        'sinusoid_recovery: sr in 7 values, n 512-4096, f log-uniform from 4 cycles per record to sr/12, amplitude log-uniform '
        'over 3 decades, phase uniform in [0,2pi), 1-3 columns x 3 methods; quadrature, amplitude_normalise: same families with '
        'envelope tables from the real interp_envelope (amplitude_normalise also x interp_method pchip / mono_pchip / splrep). Non-trivial: the case exercises a non-default branch (negative or '
        'out-of-period phase, more than one column, nht/quad method, non-constant profile, at least one normalisation pass); '
        'distinct by content hash.')

TP = P.TWO_PI


def _err(out):
    return out['error'] if isinstance(out, ImplError) else None


def _timeout(out):
    return isinstance(out, ImplError) and 'imeout' in str(out.get('error'))


def _mech(kind, detail=''):
    """mechanism-level / assumption / outside-the-quantifier check: a broken correspondence, never a property violation"""
    return Failure(kind, detail, literal=False)


def _guarded(holds):
    """a crash of the instance check itself is never a property violation; time-outs are not the property's subject"""
    def wrapped(self, case, out):
        if _timeout(out):
            return []
        try:
            return holds(self, case, out)
        except Exception as ex:  # noqa
            return [Failure('instance-check-crashed', repr(ex), literal=False)]
    wrapped.__name__ = holds.__name__
    return wrapped


POW2_TOL = 1e-9          # "unchanged" / "scales with it" under 2^k: within rounding, not bit for bit


def _arr(x, vector):
    """list of columns -> [n x ncol] array (or the single column as a 1-D vector)"""
    a = np.array(x, dtype=float).T
    if vector and a.ndim == 2 and a.shape[1] == 1:
        return a[:, 0].copy()
    return np.ascontiguousarray(a)


# =============================================================================== wrap_phase

class Wrap(Stream):
    name = 'wrap_phase'

    def corpus(self):
        tiny = [-1e-17, -5e-324, -4.4e-16, -1e-15, -1e-300]
        return [
            {'x': tiny, 'ncycles': 1, 'mode': '2pi'},                               # float edge: result == 2pi exactly
            {'x': [0.0, -0.0, TP, 2 * TP, -TP, 3 * TP, TP / 2, -TP / 2], 'ncycles': 1, 'mode': '2pi'},
            {'x': [0.0, TP, -TP, np.pi, -np.pi, 3 * np.pi], 'ncycles': 1, 'mode': '-pi2pi'},
            {'x': [k / 8 for k in range(-80, 81, 7)], 'ncycles': 1, 'mode': '2pi'},
            {'x': [k / 4 for k in range(-60, 61, 5)], 'ncycles': 2, 'mode': '2pi'},
            {'x': [k / 4 for k in range(-60, 61, 5)], 'ncycles': 3, 'mode': '-pi2pi'},
            {'x': [1.0], 'ncycles': 1, 'mode': 'pi'},                               # invalid mode
        ]

    def generate(self, rng, tier):
        n_cases = 1500 if tier == 'thorough' else 250
        for _ in range(n_cases):
            n = rng.choice([1, 2, 5, 17, 64])
            fam = rng.choice(['dyadic', 'normal', 'huge', 'unwrapped', 'multiples', 'tiny'])
            if fam == 'dyadic':
                x = [rng.randint(-400, 400) / 16 for _ in range(n)]
            elif fam == 'normal':
                x = [rng.gauss(0, 10) for _ in range(n)]
            elif fam == 'huge':
                x = [rng.uniform(-1, 1) * 10 ** rng.uniform(3, 9) for _ in range(n)]
            elif fam == 'unwrapped':
                f = rng.uniform(0.01, 0.4)
                x = [-3.0 + 2 * np.pi * f * i + rng.gauss(0, 0.05) for i in range(n)]
            elif fam == 'multiples':
                x = [rng.randint(-9, 9) * TP + rng.choice([0.0, 0.0, 1e-16, -1e-16, 1e-9, -1e-9]) for _ in range(n)]
            else:
                x = [-abs(rng.gauss(0, 1)) * 10 ** rng.uniform(-320, -14) for _ in range(n)]
            mode = rng.choice(['2pi', '2pi', '-pi2pi']) if rng.random() > 0.03 else rng.choice(['pi', '', '2PI'])
            yield {'x': x, 'ncycles': rng.choice([1, 1, 1, 2, 3]), 'mode': mode, 'family': fam}

    @staticmethod
    def _m(case):
        nc = case['ncycles']
        return nc * 2 * np.pi, np.pi * nc      # the implementation's own float expressions

    def impl(self, case):
        import emd
        x = np.array(case['x'], dtype=float)
        return P.tolist(emd.utils.wrap_phase(x, ncycles=case['ncycles'], mode=case['mode']))

    def ops(self, case, out):
        m, h = self._m(case)
        mode = case['mode'] if case['mode'] else 'empty'
        return [proto.op('WRAP', {'m': m, 'h': h, 'mode': mode}, [case['x']])]

    def compare(self, case, out, results):
        r = results[0]
        if _timeout(out):
            return 'skip:run time is not the property\'s subject'
        if r.status == 'err':
            # an invalid option value is outside the quantifier: both refuse (any exception class), or not judged
            return None if _err(out) else 'skip:input outside the quantifier: the model refuses it, the implementation returns a result'
        if _err(out):
            return 'implementation raised %s, model: %s' % (_err(out), r.raw[:80])
        if not r.ok:
            return 'model answered %s' % r.raw[:80]
        m, h = self._m(case)
        mv = r.vecs[0] or []
        if len(mv) != len(out):
            return 'lengths differ'
        scale = max([1.0] + [abs(v) for v in case['x']])
        near = False
        for x, o, q in zip(case['x'], out, mv):
            if o is None:
                return 'implementation returned a non-finite value for %r' % x
            if case['mode'] == '2pi' and x >= 0:
                if P.F(o) != q:            # fmod is exact for non-negative operands
                    return 'x=%r: implementation %r, model %r (exact comparison)' % (x, o, float(q))
            else:
                d = abs(o - float(q))
                if d > 1e-9 * scale:
                    if abs(d - m) <= 1e-9 * scale:      # the float sum landed on the other side of a period boundary
                        near = True
                        continue
                    return 'x=%r: implementation %r, model %r' % (x, o, float(q))
        return 'skip:near-period-boundary' if near else None

    @_guarded
    def holds(self, case, out):
        # literal: the wrap the frequency transform uses (one cycle, [0, 2pi)); other modes / cycle counts and invalid option
        # values are helper options outside the statement (mechanism level, any error counts as "rejected")
        lit = case['mode'] == '2pi' and case['ncycles'] == 1
        if case['mode'] not in ('2pi', '-pi2pi'):
            return [] if _err(out) else [_mech('invalid-mode-accepted', repr(case['mode']))]
        if _err(out):
            return [Failure('raises:' + out['error'], out['msg'], literal=lit)]
        m, h = self._m(case)
        lo = 0.0 if case['mode'] == '2pi' else -h
        fs = {}
        scale = max([1.0] + [abs(v) for v in case['x']])
        for x, o in zip(case['x'], out):
            if o is None or not (lo <= o <= lo + m):
                fs.setdefault('phase-out-of-range', Failure('phase-out-of-range', 'wrap_phase(%r) = %r not in [%r, %r)' % (x, o, lo, lo + m)))
                continue
            if o == lo + m:
                # float edge: tolerated only when the exact residue is within 2 ulp of the period
                r = P.exact_wrap(P.F(x) - P.F(lo), m)
                if P.F(m) - r > 4 * P.EPS * m:
                    fs.setdefault('phase-out-of-range', Failure('phase-out-of-range', 'wrap_phase(%r) = period exactly, exact residue %r' % (x, float(r))))
            k = round((x - o) / m)
            if abs(P.F(x) - P.F(o) - k * P.F(m)) > 1e-9 * scale:
                fs.setdefault('wrap-not-congruent', Failure('wrap-not-congruent', 'wrap_phase(%r) = %r differs from x by a non-integer number of periods' % (x, o)))
        for f in fs.values():
            f.literal = lit
        return list(fs.values())

    def tags(self, case, out):
        t = ['mode=%s' % (case['mode'] if case['mode'] in ('2pi', '-pi2pi') else 'invalid'), 'ncycles=%d' % case['ncycles'],
             'family=%s' % case.get('family', 'corpus')]
        if not _err(out) and case['mode'] == '2pi' and any(o == self._m(case)[0] for o in out):
            t.append('phase-equals-2pi')
        if any(v < 0 for v in case['x']):
            t.append('negative-input')
        return t

    def nontrivial(self, case, out):
        m = self._m(case)[0]
        return any(v < 0 or v >= m for v in case['x'])

    def shrink(self, case):
        for i in range(len(case['x'])):
            yield dict(case, x=[case['x'][i]])


# =============================================================================== conversions

def _plain_gradient(col):
    n = len(col)
    g = [0.0] * n
    for i in range(n):
        if i == 0:
            g[i] = col[1] - col[0]
        elif i == n - 1:
            g[i] = col[n - 1] - col[n - 2]
        else:
            g[i] = (col[i + 1] - col[i - 1]) / 2
    return g


class Conversions(Stream):
    """freq_from_phase / phase_from_freq / np.gradient against the model, column by column."""
    name = 'conversions'

    def corpus(self):
        return [
            {'fn': 'grad', 'x': [[0.0, 1.0, 4.0, 9.0, 16.0]], 'sr': 1.0, 'vector': True, 'family': 'dyadic'},
            {'fn': 'grad', 'x': [[1.0, 3.0]], 'sr': 1.0, 'vector': True, 'family': 'dyadic'},
            {'fn': 'grad', 'x': [[1.0]], 'sr': 1.0, 'vector': True, 'family': 'dyadic'},          # ValueError
            {'fn': 'ffp', 'x': [[0.0, 0.5, 1.0, 2.0, 4.0, 4.5]], 'sr': 128.0, 'vector': False, 'family': 'dyadic'},
            {'fn': 'ffp', 'x': [[2.0]], 'sr': 128.0, 'vector': False, 'family': 'dyadic'},        # ValueError
            {'fn': 'pff', 'x': [[1.0, 1.0, 2.0, 4.0]], 'sr': 8.0, 'start': None, 'vector': True, 'family': 'dyadic'},
            {'fn': 'pff', 'x': [[]], 'sr': 8.0, 'start': 0.5, 'vector': True, 'family': 'dyadic'},
            {'fn': 'pff', 'x': [[1.0, 2.0], [3.0, -1.0]], 'sr': 8.0, 'start': -1.0, 'vector': False, 'family': 'dyadic'},
        ]

    def generate(self, rng, tier):
        n_cases = 2000 if tier == 'thorough' else 300
        for _ in range(n_cases):
            fn = rng.choice(['ffp', 'pff', 'grad'])
            ncol = rng.choice([1, 1, 2, 3])
            n = rng.choice([0, 1, 2, 3, 4, 7, 33, 100, 300]) if rng.random() < 0.8 else rng.randint(2, 300)
            if fn == 'pff' or n >= 2 or rng.random() < 0.5:
                pass
            fam = rng.choice(['dyadic', 'dyadic', 'random', 'phase'])
            cols = []
            for _c in range(ncol):
                if fam == 'dyadic':
                    cols.append([rng.randint(-2000, 2000) / 32 for _i in range(n)])
                elif fam == 'random':
                    cols.append([rng.gauss(0, 1) * 10 ** rng.uniform(-3, 3) for _i in range(n)])
                else:
                    f = rng.uniform(0.005, 0.2)
                    ph = rng.uniform(-4, 4)
                    acc, col = ph, []
                    for _i in range(n):
                        acc += 2 * np.pi * f * (1 + 0.2 * rng.gauss(0, 1))
                        col.append(acc)
                    cols.append(col)
            sr = rng.choice([1.0, 2.0, 128.0, 256.0, 1000.0, 44100.0, rng.uniform(0.5, 5000)])
            c = {'fn': fn, 'x': cols, 'sr': sr, 'vector': ncol == 1 and rng.random() < 0.5, 'family': fam}
            if fn == 'pff':
                c['start'] = rng.choice([None, None, 0.0, rng.uniform(-10, 10)])
            yield c

    def impl(self, case):
        import emd
        a = _arr(case['x'], case['vector'])
        if case['fn'] == 'ffp':
            o = emd.spectra.freq_from_phase(a, case['sr'])
        elif case['fn'] == 'pff':
            if case.get('start') is None:
                o = emd.spectra.phase_from_freq(a, case['sr'])
            else:
                o = emd.spectra.phase_from_freq(a, case['sr'], phase_start=case['start'])
        else:
            o = np.gradient(a, axis=0)
        o = np.asarray(o)
        return {'shape': list(o.shape), 'in_shape': list(a.shape), 'cols': [P.tolist(c) for c in P.cols(o)] if o.size else [[] for _ in case['x']]}

    def ops(self, case, out):
        ops = []
        for col in case['x']:
            if case['fn'] == 'ffp':
                ops.append(proto.op('FFP', {'twopi': 2.0 * np.pi, 'sr': case['sr']}, [col]))
            elif case['fn'] == 'pff':
                start = -np.pi if case.get('start') is None else case['start']
                ops.append(proto.op('PFF', {'twopi': 2 * np.pi, 'sr': case['sr'], 'start': start}, [col]))
            else:
                ops.append(proto.op('GRAD', {}, [col]))
        return ops

    def _tol(self, case):
        scale = max([1.0] + [abs(v) for col in case['x'] for v in col])
        if case['fn'] == 'ffp':
            return 1e-9 * scale * max(1.0, case['sr'])
        if case['fn'] == 'pff':
            n = max(1, len(case['x'][0]))
            return 1e-9 * max(1.0, abs(case.get('start') or np.pi), scale * n / case['sr'])
        return 0.0 if case.get('family') == 'dyadic' else 1e-9 * scale

    def compare(self, case, out, results):
        if _timeout(out):
            return 'skip:run time is not the property\'s subject'
        errs = [r.words[0] for r in results if r.status == 'err']
        if errs:
            # fewer than two samples: outside the quantifier - both refuse (any exception class), or not judged
            return None if _err(out) else 'skip:input outside the quantifier: the model refuses it, the implementation returns a result'
        if _err(out):
            if len(case['x'][0]) < 2:
                return 'skip:input outside the quantifier: the implementation refuses it (%s), the model does not' % out['error']
            return 'implementation raised %s (%s), model: %s' % (out['error'], out['msg'][-80:], results[0].raw[:60])
        tol = self._tol(case)
        for j, (r, oc) in enumerate(zip(results, out['cols'])):
            if not r.ok:
                return 'model answered %s' % r.raw[:80]
            mv = r.vecs[0] or []
            if len(mv) != len(oc):
                return 'column %d: %d values, model %d' % (j, len(oc), len(mv))
            for i, (o, q) in enumerate(zip(oc, mv)):
                if o is None:
                    return 'column %d sample %d: non-finite' % (j, i)
                if (tol == 0.0 and P.F(o) != q) or abs(o - float(q)) > tol:
                    return '%s column %d sample %d: implementation %r, model %r (tol %g)' % (case['fn'], j, i, o, float(q), tol)
        return None

    @_guarded
    def holds(self, case, out):
        n = len(case['x'][0])
        if n < 2:
            return []          # fewer than two samples: outside the quantifier, neither the outcome nor an error type is judged (tag n<2)
        if _err(out):
            return [Failure('raises:' + out['error'], out['msg'], literal=case['fn'] != 'grad')]
        fs = []
        if out['shape'] != out['in_shape']:
            fs.append(Failure('shape-mismatch', '%s: input %s output %s' % (case['fn'], out['in_shape'], out['shape'])))
            return fs
        tol = max(self._tol(case), 1e-12)
        for col, oc in zip(case['x'], out['cols']):
            if case['fn'] == 'pff':
                # phase = cumulative sum of 2 pi f / sr from the start value: the statement does not say whether sample 0
                # already contains the first increment (inclusive, what the code does) or not (exclusive) - either is accepted
                start = -np.pi if case.get('start') is None else case['start']
                acc, inc, exc = Fraction(0), [], []
                for v in col:
                    exc.append(float(P.F(start) + acc))
                    acc += P.F(v) / P.F(case['sr']) * P.F(2 * np.pi)
                    inc.append(float(P.F(start) + acc))
                bads = [[i for i, (o, e) in enumerate(zip(oc, exp)) if o is None or abs(o - e) > tol] for exp in (inc, exc)]
                if bads[0] and bads[1]:
                    i = bads[0][0]
                    fs.append(Failure('phase-not-cumulative-frequency', 'sample %d: got %r expected %r (sr=%r)' % (i, oc[i], inc[i], case['sr'])))
                    break
                continue
            g = _plain_gradient([P.F(v) for v in col])
            k = P.F(case['sr']) / P.F(2.0 * np.pi) if case['fn'] == 'ffp' else Fraction(1)
            exp = [float(v * k) for v in g]
            bad = [i for i, (o, e) in enumerate(zip(oc, exp)) if o is None or abs(o - e) > tol]
            if bad:
                i = bad[0]
                interior = [b for b in bad if 0 < b < len(col) - 1]
                if case['fn'] == 'grad':
                    fs.append(_mech('assumption:np-gradient', 'sample %d: got %r expected %r' % (i, oc[i], exp[i])))
                elif interior:
                    i = interior[0]
                    fs.append(Failure('frequency-not-scaled-gradient', 'sample %d: got %r expected %r (sr=%r)' % (i, oc[i], exp[i], case['sr'])))
                else:       # only the two end samples differ: the one-sided edge formula is not in the statement
                    fs.append(_mech('frequency-not-scaled-gradient:edge', 'sample %d: got %r expected %r (sr=%r)' % (i, oc[i], exp[i], case['sr'])))
                break
        return fs

    def tags(self, case, out):
        n = len(case['x'][0])
        return ['fn=' + case['fn'], 'cols=%d' % len(case['x']), 'family=' + case.get('family', '?'),
                'n<2' if n < 2 else 'n=2' if n == 2 else 'n>2', '1-D' if case['vector'] else '2-D']

    def nontrivial(self, case, out):
        return len(case['x'][0]) > 2

    def shrink(self, case):
        cols = case['x']
        if len(cols) > 1:
            for c in cols:
                yield dict(case, x=[c])
        n = len(cols[0])
        for cut in (n // 2, 1):
            if 0 < cut < n and n - cut >= 2:
                yield dict(case, x=[c[cut:] for c in cols])
                yield dict(case, x=[c[:n - cut] for c in cols])


# =============================================================================== frequency -> phase -> frequency

class Roundtrip(Stream):
    name = 'freq_phase_roundtrip'

    def corpus(self):
        return [
            {'f': [[10.0] * 12], 'sr': 128.0, 'start': None, 'family': 'const'},
            {'f': [[1.0, 2.0, 4.0, 8.0, 16.0]], 'sr': 64.0, 'start': 0.0, 'family': 'dyadic'},
            {'f': [[3.0, 5.0]], 'sr': 64.0, 'start': None, 'family': 'dyadic'},
            {'f': [[4.0] * 6 + [9.0] * 6, [2.0] * 12], 'sr': 100.0, 'start': 1.0, 'family': 'piecewise'},
        ]

    def generate(self, rng, tier):
        n_cases = 1000 if tier == 'thorough' else 150
        for _ in range(n_cases):
            n = rng.choice([2, 3, 4, 10, 64, 257, 1000])
            sr = rng.choice([64.0, 128.0, 500.0, 1000.0, rng.uniform(10, 4000)])
            fam = rng.choice(['const', 'piecewise', 'smooth', 'chirp', 'random'])
            cols = []
            for _c in range(rng.choice([1, 1, 2, 3])):
                fmax = sr / 4
                if fam == 'const':
                    col = [rng.uniform(0.01, 1) * fmax] * n
                elif fam == 'piecewise':
                    col, v = [], rng.uniform(0.01, 1) * fmax
                    for i in range(n):
                        if rng.random() < 0.1:
                            v = rng.uniform(0.01, 1) * fmax
                        col.append(v)
                elif fam == 'smooth':
                    a, b, w, p0 = rng.uniform(0.2, 0.6) * fmax, rng.uniform(0, 0.2) * fmax, rng.uniform(0.5, 6), rng.uniform(0, 6)
                    col = [a + b * math.sin(2 * math.pi * w * i / n + p0) for i in range(n)]
                elif fam == 'chirp':
                    f0, f1 = rng.uniform(0.01, 1) * fmax, rng.uniform(0.01, 1) * fmax
                    col = [f0 + (f1 - f0) * i / max(1, n - 1) for i in range(n)]
                else:
                    col = [rng.uniform(-1, 1) * fmax for _i in range(n)]
                cols.append(col)
            yield {'f': cols, 'sr': sr, 'start': rng.choice([None, None, 0.0, rng.uniform(-50, 50)]), 'family': fam}

    def impl(self, case):
        import emd
        f = _arr(case['f'], len(case['f']) == 1)
        if case.get('start') is None:
            ph = emd.spectra.phase_from_freq(f, case['sr'])
        else:
            ph = emd.spectra.phase_from_freq(f, case['sr'], phase_start=case['start'])
        back = emd.spectra.freq_from_phase(ph, case['sr'])
        return {'phase': [P.tolist(c) for c in P.cols(ph)], 'back': [P.tolist(c) for c in P.cols(back)],
                'shape': list(np.shape(back)), 'in_shape': list(f.shape)}

    def ops(self, case, out):
        if _err(out):
            return []
        start = -np.pi if case.get('start') is None else case['start']
        ops = []
        for col, ph in zip(case['f'], out['phase']):
            ops.append(proto.op('PFF', {'twopi': 2 * np.pi, 'sr': case['sr'], 'start': start}, [col]))
            ops.append(proto.op('FFP', {'twopi': 2.0 * np.pi, 'sr': case['sr']}, [ph]))
        return ops

    def _tol(self, case):
        scale = max([1.0] + [abs(v) for col in case['f'] for v in col])
        return 1e-9 * max(scale, abs(case.get('start') or 0.0) * case['sr'])

    def compare(self, case, out, results):
        if _err(out):
            return 'implementation raised %s' % out['error']
        tol = self._tol(case)
        n = len(case['f'][0])
        for j in range(len(case['f'])):
            rp, rf = results[2 * j], results[2 * j + 1]
            if not (rp.ok and rf.ok):
                return 'model answered %s / %s' % (rp.raw[:60], rf.raw[:60])
            ptol = 1e-9 * max(1.0, max(abs(v) for v in out['phase'][j]))
            for i, (o, q) in enumerate(zip(out['phase'][j], rp.vecs[0] or [])):
                if abs(o - float(q)) > ptol:
                    return 'phase_from_freq column %d sample %d: implementation %r model %r' % (j, i, o, float(q))
            for i, (o, q) in enumerate(zip(out['back'][j], rf.vecs[0] or [])):
                if abs(o - float(q)) > tol:
                    return 'freq_from_phase column %d sample %d: implementation %r model %r' % (j, i, o, float(q))
            if len(rf.vecs[0] or []) != n:
                return 'model length'
        return None

    @_guarded
    def holds(self, case, out):
        if _err(out):
            return [Failure('raises:' + out['error'], out['msg'])]
        fs = []
        if out['shape'] != out['in_shape']:
            return [Failure('shape-mismatch', 'round trip: input %s output %s' % (out['in_shape'], out['shape']))]
        tol = self._tol(case)
        for f, b in zip(case['f'], out['back']):
            n = len(f)
            # "up to the two-sample averaging inherent in central differences": interior sample i is the mean of two
            # neighbouring profile values - (f[i], f[i+1]) for an inclusive cumulative sum (the code), (f[i-1], f[i]) for an
            # exclusive one; either pairing is accepted, consistently over the column. The two end samples (one-sided
            # differences) are not in the statement: mechanism level.
            pair_fail = []
            for shift in (1, -1):
                bad = None
                for i in range(1, n - 1):
                    e = (f[i] + f[i + shift]) / 2
                    if b[i] is None or abs(b[i] - e) > tol:
                        bad = (i, e, f[i] == f[i + shift])
                        break
                pair_fail.append(bad)
            if pair_fail[0] is not None and pair_fail[1] is not None:
                i, e, const = pair_fail[0]
                kind = 'roundtrip-not-exact-on-constant' if const else 'roundtrip-not-two-sample-mean'
                fs.append(Failure(kind, 'sample %d of %d: got %r expected %r (f[i-1]=%r, f[i]=%r, f[i+1]=%r, sr=%r)'
                                  % (i, n, b[i], e, f[i - 1], f[i], f[i + 1], case['sr'])))
                return fs
            for i, e in ((0, f[1]), (n - 1, f[n - 1])):
                alt = f[0] if i == 0 else f[n - 2]
                if b[i] is None or (abs(b[i] - e) > tol and abs(b[i] - alt) > tol):
                    fs.append(_mech('roundtrip-edge-wrong', 'sample %d of %d: got %r expected %r (sr=%r)' % (i, n, b[i], e, case['sr'])))
                    return fs
        return fs

    def tags(self, case, out):
        return ['family=' + case.get('family', '?'), 'cols=%d' % len(case['f']), 'n=%d' % len(case['f'][0]) if len(case['f'][0]) < 5 else 'n>=5',
                'start=default' if case.get('start') is None else 'start=given']

    def nontrivial(self, case, out):
        return any(len(set(c)) > 1 for c in case['f'])

    def shrink(self, case):
        cols = case['f']
        if len(cols) > 1:
            for c in cols:
                yield dict(case, f=[c])
        n = len(cols[0])
        for cut in (n // 2, 1):
            if 0 < cut and n - cut >= 2:
                yield dict(case, f=[c[cut:] for c in cols])
                yield dict(case, f=[c[:n - cut] for c in cols])


# =============================================================================== frequency_transform

def _rand_col(rng, n, sr, kinds):
    k = rng.choice(kinds)
    a = 10 ** rng.uniform(-1.5, 1.5)
    ph = rng.uniform(0, 2 * np.pi)
    fmin, fmax = 4 * sr / n, sr / 12
    if fmin >= fmax:
        fmin = fmax / 2
    f = math.exp(rng.uniform(math.log(fmin), math.log(fmax)))
    if k == 'sine':
        return {'kind': 'sine', 'f': f, 'a': a, 'ph': ph}
    if k == 'chirp':
        f1 = math.exp(rng.uniform(math.log(fmin), math.log(fmax)))
        return {'kind': 'chirp', 'f0': f, 'f1': f1, 'a': a, 'ph': ph}
    if k == 'amfm':
        fm = f / rng.uniform(6, 20)
        return {'kind': 'amfm', 'f': min(f, sr / 16), 'a': a, 'ph': ph, 'fm': fm, 'depth': rng.uniform(0, 0.5), 'beta': rng.uniform(0, 1.5)}
    if k == 'two':
        return {'kind': 'two', 'f': f, 'a': a, 'ph': ph, 'f2': f * rng.uniform(1.5, 4), 'a2': a * rng.uniform(0.05, 0.6)}
    if k == 'noise':
        return {'kind': 'noise', 'seed': rng.randint(0, 2 ** 31), 'a': a, 'smooth': rng.choice([1, 1, 3, 9])}
    raise ValueError(k)


def _maybe_int(rng, spec, p=0.1):
    """With probability p turn the record into an integer-typed one (large amplitudes, rounded samples)."""
    if rng.random() < p:
        for c in spec['cols']:
            c['a'] = 10 ** rng.uniform(2.5, 4.5)
            if 'a2' in c:
                c['a2'] = c['a'] * rng.uniform(0.05, 0.6)
        spec['dtype'] = 'int'
    return spec


class FreqTransform(Stream):
    """frequency_transform: correspondence around the analytic-signal oracle + the property's
    shape / range / derivative / scale-invariance clauses on the outputs."""
    name = 'frequency_transform'
    NMAX_MODEL = 400

    def corpus(self):
        cs = []
        for m in P.METHODS:
            cs.append({'spec': {'n': 256, 'sr': 128.0, 'cols': [{'kind': 'sine', 'f': 8.0, 'a': 1.0, 'ph': 0.0}]},
                       'method': m, 'k': 3, 'c': 2.7, 'vector': True})
            cs.append({'spec': {'n': 200, 'sr': 100.0, 'cols': [{'kind': 'sine', 'f': 5.0, 'a': 0.5, 'ph': 1.0},
                                                                  {'kind': 'chirp', 'f0': 2.0, 'f1': 8.0, 'a': 20.0, 'ph': 4.0},
                                                                  {'kind': 'noise', 'seed': 5, 'a': 1.0, 'smooth': 1}]},
                       'method': m, 'k': -7, 'c': 0.013, 'vector': False})
            # degenerate inputs: no oscillation -> no envelope (nht/quad amplitude is NaN), tiny records
            for x in ([0.0] * 16, [1.0] * 16, [i / 16 for i in range(16)], [1.0, -1.0], [0.0, 1.0, 0.0], [1.0], []):
                cs.append({'spec': {'n': len(x), 'sr': 10.0, 'cols': [{'kind': 'data', 'x': x}]}, 'method': m, 'k': 1, 'c': 3.0, 'vector': True})
        for m in P.METHODS:
            # "scale factors 2^k": small physical units are ordinary data (MEG recordings are ~1e-13 T). Round-3 change C09/1 left
            # columns with all |x| <= 1e-8 un-normalised (np.allclose(x, 0)): nht / quad phase and frequency moved under 2^-30, 2^-43
            for k in (-30, -43, -100, 60):
                cs.append({'spec': {'n': 256, 'sr': 128.0, 'cols': [{'kind': 'sine', 'f': 8.0, 'a': 3.0, 'ph': 0.7},
                                                                      {'kind': 'amfm', 'f': 6.0, 'a': 1.5, 'ph': 2.0, 'fm': 0.7, 'depth': 0.3, 'beta': 0.5}]},
                           'method': m, 'k': k, 'c': 2.0 ** (k + 1) * 1.37, 'vector': False})
        for m in P.METHODS:   # integer-typed input (witness of the integer-truncation defect of nht/quad on the pinned tree)
            cs.append({'spec': {'n': 1024, 'sr': 256.0, 'dtype': 'int', 'cols': [{'kind': 'sine', 'f': 10.0, 'a': 1000.0, 'ph': 0.3}]},
                       'method': m, 'k': 2, 'c': 3.0, 'vector': True})
        for m in P.METHODS:
            # non-oscillatory columns (C09.ft_nht_nonoscillatory / ft_quad_nonoscillatory): interp_envelope(mode='upper') is None and
            # nht / quad silently return an all-NaN amplitude: frequency_transform(np.linspace(0, 1, 50), 100, 'nht')
            cs.append({'spec': {'n': 50, 'sr': 100.0, 'cols': [{'kind': 'data', 'x': [float(v) for v in np.linspace(0, 1, 50)]}]},
                       'method': m, 'k': 2, 'c': 4.0, 'vector': True})
            # one peak between two troughs: the combined envelope exists (the column is normalised), the upper one does not
            cs.append({'spec': {'n': 40, 'sr': 40.0, 'cols': [{'kind': 'data', 'x': [math.cos(2 * math.pi * (i - 20) / 30.0) for i in range(40)]}]},
                       'method': m, 'k': 3, 'c': 0.37, 'vector': False})
            # ... next to a proper oscillation: NaN in one column only
            cs.append({'spec': {'n': 64, 'sr': 64.0, 'cols': [{'kind': 'data', 'x': [i / 64 for i in range(64)]},
                                                               {'kind': 'sine', 'f': 6.0, 'a': 2.0, 'ph': 0.2}]},
                       'method': m, 'k': -2, 'c': 5.5, 'vector': False})
            # witness of C09.ft_quad_scale_needs_envelope: quad phase of the ramp changes by 1.047 rad under x2 (no envelope to divide by)
            cs.append({'spec': {'n': 4, 'sr': 1.0, 'cols': [{'kind': 'data', 'x': [0.0, 0.25, 0.5, 0.75]}]}, 'method': m, 'k': 1, 'c': 2.0, 'vector': True})
        cs.append({'spec': {'n': 64, 'sr': 10.0, 'cols': [{'kind': 'sine', 'f': 0.5, 'a': 1.0, 'ph': 0.0}]}, 'method': 'direct_quad', 'k': 1, 'c': 2.0, 'vector': True})
        cs.append({'spec': {'n': 64, 'sr': 10.0, 'cols': [{'kind': 'sine', 'f': 0.5, 'a': 1.0, 'ph': 0.0}]}, 'method': 'hilbrt', 'k': 1, 'c': 2.0, 'vector': True})
        return cs

    def generate(self, rng, tier):
        n_cases = 1500 if tier == 'thorough' else 240
        for i in range(n_cases):
            sr = rng.choice([64.0, 128.0, 256.0, 500.0, 1000.0, 1024.0])
            n = rng.choice([64, 128, 200, 333, 400]) if rng.random() < 0.6 else rng.choice([512, 1000, 2048])
            ncol = rng.choice([1, 1, 2, 3])
            kinds = rng.choice([['sine'], ['chirp'], ['amfm'], ['sine', 'chirp', 'amfm'], ['two'], ['noise'], ['sine', 'noise', 'two']])
            spec = {'n': n, 'sr': sr, 'cols': [_rand_col(rng, n, sr, kinds) for _ in range(ncol)]}
            if rng.random() < 0.08:
                spec = self._sifted(rng, n, sr)
            else:                          # integer-typed IMF array (e.g. raw ADC counts): large amplitudes, rounded
                spec = _maybe_int(rng, spec)
            yield {'spec': spec, 'method': P.METHODS[i % 3], 'k': rng.choice([-100, -60, -43, -30, -20, -9, -3, -1, 1, 2, 3, 10, 20, 30, 60]),
                   'c': 10 ** rng.uniform(-3, 3), 'vector': ncol == 1 and rng.random() < 0.4,
                   'smooth': rng.choice(['default', 'default', 'default', None, 9])}

    @staticmethod
    def _sifted(rng, n, sr):
        """real IMFs from the library's own sift of filtered noise (explicit data in the case)."""
        import emd
        g = np.random.default_rng(rng.randint(0, 2 ** 31)).standard_normal(n)
        try:
            imf = emd.sift.sift(g, max_imfs=3)
            cols = [{'kind': 'data', 'x': [float(v) for v in imf[:, j]]} for j in range(min(3, imf.shape[1]))]
        except Exception:  # noqa  (sift is not under test here)
            cols = [{'kind': 'data', 'x': [float(v) for v in g]}]
        return {'n': n, 'sr': sr, 'cols': cols}

    @staticmethod
    def _x(case):
        x = P.typed(case['spec'])
        if case['vector'] and x.shape[1] == 1:
            return x[:, 0]
        return x

    def impl(self, case):
        import emd
        x = self._x(case)
        x0 = x.copy()
        sr, m = case['spec']['sr'], case['method']
        kw = {} if case.get('smooth', 'default') == 'default' else {'smooth_phase': case['smooth']}
        ip, iff, ia = emd.spectra.frequency_transform(x, sr, m, **kw)
        out = {'shapes': [list(np.shape(ip)), list(np.shape(iff)), list(np.shape(ia))],
               'ip': [P.tolist(c) for c in P.cols(ip)], 'if': [P.tolist(c) for c in P.cols(iff)], 'ia': [P.tolist(c) for c in P.cols(ia)],
               'dtypes': [str(np.asarray(a).dtype) for a in (ip, iff, ia)], 'ia_inf': bool(np.isinf(ia).any())}
        s = 2.0 ** case['k']
        ip2, if2, ia2 = emd.spectra.frequency_transform(x0 * s, sr, m, **kw)
        out['pow2'] = {'ip_eq': bool(np.array_equal(ip2, ip, equal_nan=True)), 'if_eq': bool(np.array_equal(if2, iff, equal_nan=True)),
                       'ia_eq': bool(np.array_equal(ia2, ia * s, equal_nan=True)),
                       'ip_diff': float(np.nanmax(P.circ(ip2 - ip))) if ip.size else 0.0,
                       'if_diff': float(np.nanmax(np.abs(if2 - iff))) if ip.size else 0.0}
        with np.errstate(all='ignore'):
            fin2 = np.isfinite(ia)
            out['pow2']['ia_diff'] = float(np.max(np.abs(ia2[fin2] / s - ia[fin2])) / max(float(np.max(np.abs(ia[fin2]))), 1e-300)) if fin2.any() else 0.0
            out['pow2']['nan_same'] = bool(np.array_equal(np.isnan(ia2), np.isnan(ia)))
        c = case['c']
        ip3, if3, ia3 = emd.spectra.frequency_transform(x0 * c, sr, m, **kw)
        with np.errstate(all='ignore'):
            fin = np.isfinite(ia)
            out['rand'] = {'ip': float(np.max(P.circ(ip3 - ip))) if ip.size else 0.0,
                           'if': float(np.max(np.abs(if3 - iff))) if ip.size else 0.0,
                           'ia': float(np.max(np.abs(ia3[fin] - c * ia[fin])) / max(float(np.max(np.abs(c * ia[fin]))), 1e-300)) if fin.any() else 0.0,
                           'nan_same': bool(np.array_equal(np.isnan(ia3), np.isnan(ia)))}
        return out

    def ops(self, case, out):
        if case['method'] not in P.METHODS:
            return []
        x = P.synth(case['spec'])
        n = x.shape[0]
        if n < 2:
            # the implementation raises before / inside np.gradient; quad fails earlier in quadrature_transform
            if case['method'] == 'quad':
                return [proto.op('QUAD', {}, [list(x[:, 0]), list(x[:, 0])])]
            if n == 0:
                return []
            return [proto.op('FT', {'halfpi': P.HALF_PI, 'twopi': TP, 'sr': case['spec']['sr']}, [list(x[:, 0]), [0.0] * n, [0.0] * n])]
        if _err(out) or n > self.NMAX_MODEL:
            return []
        U, A = P.oracle_tables(x, case['method'], 5 if case.get('smooth', 'default') == 'default' else case['smooth'])
        ops = []
        for j in range(x.shape[1]):
            a = A[:, j]
            # amplitude table slot: 'none' when interp_envelope(mode='upper') returned None (the model then answers NaN samples)
            a = None if np.all(np.isnan(a)) else list(a)
            ops.append(proto.op('FT', {'halfpi': P.HALF_PI, 'twopi': TP, 'sr': case['spec']['sr']}, [list(x[:, j]), list(U[:, j]), a]))
        return ops

    def compare(self, case, out, results):
        n = case['spec']['n']
        if _timeout(out):
            return 'skip:run time is not the property\'s subject'
        if case['method'] not in P.METHODS or n < 2:
            # invalid method / fewer than two samples: outside the quantifier. Both refuse (whatever the exception class) is
            # agreement; an implementation that handles such an input is not judged
            model_refuses = case['method'] not in P.METHODS or not results or results[0].status == 'err'
            if bool(_err(out)) == model_refuses:
                return None
            return 'skip:input outside the quantifier: model %s, implementation %s' % (
                'refuses' if model_refuses else 'accepts', _err(out) or 'returned')
        if _err(out):
            return 'implementation raised %s: %s' % (out['error'], out['msg'][-120:])
        if not results:
            return None
        x = P.synth(case['spec'])
        U, A = P.oracle_tables(x, case['method'], 5 if case.get('smooth', 'default') == 'default' else case['smooth'])
        sr = case['spec']['sr']
        for j, r in enumerate(results):
            if not r.ok:
                return 'model answered %s' % r.raw[:80]
            su = max(1.0, float(np.max(np.abs(U[:, j]))))
            mip, mif = (P.model_vec(v) for v in r.vecs[:2])
            mia = np.array([np.nan if q is None else float(q) for q in (r.vecs[2] or [])], dtype=float)    # model: 'nan' = none
            ip, iff, ia = (np.array([np.nan if v is None else v for v in out[k][j]]) for k in ('ip', 'if', 'ia'))
            d = P.circ(ip - mip)
            if not np.all(d <= 1e-9 * su):
                i = int(np.argmax(~(d <= 1e-9 * su)))
                return 'phase column %d sample %d: implementation %r, model %r (U=%r)' % (j, i, float(ip[i]), float(mip[i]), float(U[i, j]))
            d = np.abs(iff - mif)
            if not np.all(d <= 1e-9 * su * max(1.0, sr)):
                i = int(np.argmax(~(d <= 1e-9 * su * max(1.0, sr))))
                return 'frequency column %d sample %d: implementation %r, model %r' % (j, i, float(iff[i]), float(mif[i]))
            # amplitude: sample by sample; NaN in the implementation <=> `none` in the model (all n samples of a column
            # without upper envelope, C09.ft_nht_nonoscillatory; nowhere else)
            # (within rounding: |z| may be evaluated as abs(z) or hypot(re, im), which differ in the last place)
            same = (len(ia) == len(mia)) and bool(np.all((np.abs(ia - mia) <= 1e-12 * np.maximum(np.abs(ia), np.abs(mia)))
                                                          | (np.isnan(ia) & np.isnan(mia))))
            if not same:
                bad = ~((np.abs(ia - mia) <= 1e-12 * np.maximum(np.abs(ia), np.abs(mia))) | (np.isnan(ia) & np.isnan(mia))) if len(ia) == len(mia) else np.ones(1, bool)
                i = int(np.argmax(bad))
                return 'amplitude column %d sample %d: implementation %r, model %r' % (j, i, float(ia[i]), float(mia[i]))
        if out['ia_inf']:
            return 'amplitude contains infinite samples (the model knows finite values and NaN only)'
        return None

    @_guarded
    def holds(self, case, out):
        spec = case['spec']
        n, ncol, sr = spec['n'], len(spec['cols']), spec['sr']
        if case['method'] not in P.METHODS:
            # an invalid option value is outside the quantifier ('direct_quad' is even a documented, merely broken, method):
            # any error counts as rejected, and accepting it is mechanism level
            return [] if _err(out) else [_mech('unknown-method-accepted', case['method'])]
        if n < 2:
            return []          # fewer than two samples: outside the quantifier (tag n<2)
        no_upper = self._no_upper(case)
        is_imf = self._oscillatory(case) and not any(no_upper)
        if _err(out):
            # "for any set of IMFs": a column without extrema / without an upper envelope is not an IMF - not judged literally
            return [Failure('raises:' + out['error'], out['msg'], literal=is_imf)]
        fs = []
        for nm, sh in zip(('phase', 'frequency', 'amplitude'), out['shapes']):
            # "arrays of the input's shape": for a 1-D input both (n,) and the documented (n, 1) are accepted
            if sh != [n, ncol] and not (case['vector'] and ncol == 1 and sh == [n]):
                fs.append(Failure('shape-mismatch', '%s has shape %s for input [%d, %d]' % (nm, sh, n, ncol)))
        if fs:
            return fs
        ip = np.array([[np.nan if v is None else v for v in c] for c in out['ip']]).T
        iff = np.array([[np.nan if v is None else v for v in c] for c in out['if']]).T
        ia = np.array([[np.nan if v is None else v for v in c] for c in out['ia']]).T
        if not (np.all(np.isfinite(ip)) and np.all(np.isfinite(iff))):
            fs.append(Failure('non-finite-output', 'phase or frequency contains NaN/inf', literal=is_imf))
            return fs
        for j in range(ncol):          # amplitude: finite on every IMF column; what a column without upper envelope gets (today: all NaN,
            bad = ~np.isfinite(ia[:, j])            # no error) is a quirk on a non-IMF input - mechanism level
            nan_expected = case['method'] != 'hilbert' and no_upper[j]
            if bad.any() and not (nan_expected and bad.all()):
                fs.append(Failure('amplitude-non-finite', 'column %d: %d non-finite amplitude samples' % (j, int(bad.sum())), literal=not no_upper[j]))
            elif nan_expected and not bad.all():
                fs.append(_mech('amplitude-without-envelope', 'column %d: interp_envelope(mode=\'upper\') is None but the amplitude is not NaN' % j))
        if not np.all((ip >= 0) & (ip <= TP)):
            i = np.argwhere(~((ip >= 0) & (ip <= TP)))[0]
            fs.append(Failure('phase-out-of-range', 'IP[%d,%d] = %r not in [0, 2pi)' % (i[0], i[1], float(ip[i[0], i[1]]))))
        # frequency = sr/(2pi) * d/dt unwrap(phase): central differences inside, one-sided at the ends
        u = np.unwrap(ip, axis=0)
        g = np.empty_like(u)
        g[0], g[-1] = u[1] - u[0], u[-1] - u[-2]
        if n > 2:
            g[1:-1] = (u[2:] - u[:-2]) / 2
        resid = iff * (2.0 * np.pi) / sr - g                     # phase per sample
        tol = 1e-9 * max(1.0, float(np.max(np.abs(u))))
        w = np.full(n, 2.0)
        w[0] = w[-1] = 1.0
        ok_mod = P.circ(resid * w[:, None]) <= tol * 2            # always: equal up to whole turns lost by unwrap(IP)
        ok_strict = np.abs(resid) <= tol
        if not np.all(ok_mod) or (P.is_smooth(spec) and not np.all(ok_strict)):
            bad = ~ok_mod if not np.all(ok_mod) else ~ok_strict
            i = np.argwhere(bad)[0]
            interior = bool(np.any(bad[1:-1])) if n > 2 else False
            fs.append(Failure('freq-not-derivative-of-phase',
                              'sample %d column %d: IF = %r but sr/(2pi)*gradient(unwrap(IP)) = %r'
                              % (i[0], i[1], float(iff[i[0], i[1]]), float(g[i[0], i[1]] * sr / (2.0 * np.pi))), literal=interior))
        p2, rd = out['pow2'], out['rand']
        if case['method'] == 'quad' and not self._oscillatory(case):
            # a column without extrema is not an IMF: amplitude_normalise has no envelope to divide by and returns it
            # unchanged (C09.amplitudeNormalise_no_envelope); the clipped raw samples enter the quadrature signal and the
            # scale law is false there (C09.ft_quad_scale_needs_envelope).  nht keeps the law (C09.ft_nht_scale_any).
            return fs
        # "unchanged by positive rescaling ... amplitude scales with it": within rounding (2^k is exact in float64, but an
        # implementation with an absolute guard somewhere is still within the words as long as nothing moves beyond rounding)
        if p2['ip_diff'] > POW2_TOL:
            fs.append(Failure('pow2-scale-changes-phase', 'x * 2^%d: phase differs by up to %g rad' % (case['k'], p2['ip_diff']), literal=is_imf))
        if p2['if_diff'] > POW2_TOL * max(1.0, sr):
            fs.append(Failure('pow2-scale-changes-frequency', 'x * 2^%d: frequency differs by up to %g' % (case['k'], p2['if_diff']), literal=is_imf))
        if p2.get('ia_diff', 0.0) > POW2_TOL or not p2.get('nan_same', True):
            fs.append(Failure('pow2-amplitude-not-scaled', 'x * 2^%d: max |IA(2^k x) / 2^k - IA(x)| / max |IA(x)| = %g'
                              % (case['k'], p2.get('ia_diff', 0.0)), literal=is_imf))
        if rd['ip'] > 1e-7:
            fs.append(Failure('scale-changes-phase', 'x * %r: phase differs by %g rad' % (case['c'], rd['ip']), literal=is_imf))
        if rd['if'] > 1e-7 * max(1.0, sr):
            fs.append(Failure('scale-changes-frequency', 'x * %r: frequency differs by %g' % (case['c'], rd['if']), literal=is_imf))
        if rd['ia'] > 1e-7 or not rd['nan_same']:
            fs.append(Failure('amplitude-not-scaled', 'x * %r: max |IA(c x) - c IA(x)| / max |c IA(x)| = %g' % (case['c'], rd['ia']), literal=is_imf))
        return fs

    @staticmethod
    def _oscillatory(case):
        import emd
        x = P.synth(case['spec'])
        return all(emd.sift.interp_envelope(x[:, j], mode='combined', interp_method='pchip') is not None for j in range(x.shape[1]))

    @staticmethod
    def _no_upper(case):
        import emd
        x = P.synth(case['spec'])
        return [emd.sift.interp_envelope(x[:, j], mode='upper') is None for j in range(x.shape[1])]

    def tags(self, case, out):
        spec = case['spec']
        t = ['method=' + (case['method'] if case['method'] in P.METHODS else 'invalid'), 'cols=%d' % len(spec['cols']),
             '1-D' if case['vector'] else '2-D', 'n<2' if spec['n'] < 2 else 'n<=400' if spec['n'] <= 400 else 'n>400']
        for k in sorted(set(c['kind'] for c in spec['cols'])):
            t.append('kind=' + k)
        if not _err(out):
            if any(v == TP for c in out['ip'] for v in c):
                t.append('phase-equals-2pi')
            if any(v is None for c in out['ia'] for v in c):
                t.append('no-envelope(amplitude NaN)')
            t.append('smooth' if P.is_smooth(spec) else 'rough')
            t.append('smooth_phase=%s' % (case.get('smooth', 'default'),))
            t.append('dtype=' + spec.get('dtype', 'float'))
            if not self._oscillatory(case):
                t.append('non-oscillatory(not an IMF)')
                if case['method'] == 'quad':
                    t.append('scale-clauses-skipped(quad without envelope)')
            if any(self._no_upper(case)):
                t.append('no-upper-envelope')
        else:
            t.append('raises=' + out['error'])
        return t

    def nontrivial(self, case, out):
        return not _err(out) and (case['method'] != 'hilbert' or len(case['spec']['cols']) > 1)

    def shrink(self, case):
        spec = case['spec']
        if len(spec['cols']) > 1:
            for c in spec['cols']:
                yield dict(case, spec=dict(spec, cols=[c]))
        n = spec['n']
        if n >= 16 and all(c['kind'] != 'data' for c in spec['cols']):
            yield dict(case, spec=dict(spec, n=n // 2))
        if all(c['kind'] == 'data' for c in spec['cols']) and n >= 8:
            yield dict(case, spec=dict(spec, n=n // 2, cols=[dict(c, x=c['x'][:n // 2]) for c in spec['cols']]))
            yield dict(case, spec=dict(spec, n=n - n // 2, cols=[dict(c, x=c['x'][n // 2:]) for c in spec['cols']]))


# =============================================================================== phase_from_complex_signal

JUMPS = {'ascending': np.pi / 2, 'peak': 0.0, 'descending': -(np.pi / 2), 'trough': np.pi}
# phase of a*sin(theta) relative to theta for each jump convention (angle of the analytic signal is theta - pi/2)
JUMP_REF = {'ascending': 0.0, 'peak': -np.pi / 2, 'descending': -np.pi, 'trough': np.pi / 2}


class ComplexPhase(Stream):
    """phase_from_complex_signal on the scipy analytic signal: offset + wrap against the model."""
    name = 'phase_from_complex_signal'

    def corpus(self):
        return [{'spec': {'n': 256, 'sr': 128.0, 'cols': [{'kind': 'sine', 'f': 8.0, 'a': 1.0, 'ph': 0.5}]}, 'jump': j, 'ret': r, 'smoothing': 5}
                for j in JUMPS for r in ('wrapped', 'unwrapped')]

    def generate(self, rng, tier):
        n_cases = 600 if tier == 'thorough' else 80
        for _ in range(n_cases):
            sr = rng.choice([64.0, 256.0, 1000.0])
            n = rng.choice([64, 200, 400])
            kinds = rng.choice([['sine'], ['sine'], ['chirp', 'amfm'], ['two'], ['noise']])
            yield {'spec': {'n': n, 'sr': sr, 'cols': [_rand_col(rng, n, sr, kinds) for _ in range(rng.choice([1, 2, 3]))]},
                   'jump': rng.choice(list(JUMPS)), 'ret': rng.choice(['wrapped', 'unwrapped']), 'smoothing': rng.choice([None, 5, 5])}

    @staticmethod
    def _analytic(case):
        from scipy import signal
        return signal.hilbert(P.synth(case['spec']), axis=0)

    def impl(self, case):
        import emd
        ph = emd.spectra.phase_from_complex_signal(self._analytic(case), smoothing=case['smoothing'],
                                                   ret_phase=case['ret'], phase_jump=case['jump'])
        return {'shape': list(ph.shape), 'cols': [P.tolist(c) for c in P.cols(ph)]}

    def _U(self, case):
        import emd
        return emd.spectra.phase_from_complex_signal(self._analytic(case), smoothing=case['smoothing'],
                                                     ret_phase='unwrapped', phase_jump='peak')

    def ops(self, case, out):
        U = self._U(case)
        return [proto.op('PCS', {'off': JUMPS[case['jump']], 'twopi': TP, 'wrapped': int(case['ret'] == 'wrapped')}, [list(U[:, j])])
                for j in range(U.shape[1])]

    def compare(self, case, out, results):
        if _err(out):
            return 'implementation raised %s: %s' % (out['error'], out['msg'][-100:])
        U = self._U(case)
        for j, r in enumerate(results):
            if not r.ok:
                return 'model answered %s' % r.raw[:80]
            o, mv = np.array(out['cols'][j], dtype=float), P.model_vec(r.vecs[0])
            tol = 1e-9 * max(1.0, float(np.max(np.abs(U[:, j]))))
            d = P.circ(o - mv) if case['ret'] == 'wrapped' else np.abs(o - mv)
            if len(o) != len(mv) or not np.all(d <= tol):
                i = int(np.argmax(~(d <= tol)))
                return '%s/%s column %d sample %d: implementation %r, model %r' % (case['jump'], case['ret'], j, i, float(o[i]), float(mv[i]))
        return None

    @_guarded
    def holds(self, case, out):
        # phase_from_complex_signal is anchored mechanism: the peak/descending/trough conventions and the ret_phase option are
        # helper options outside the statement (mechanism level); literal only for what frequency_transform itself uses
        lit = case['jump'] == 'ascending' and case['ret'] == 'wrapped'
        if _err(out):
            return [Failure('raises:' + out['error'], out['msg'], literal=lit)]
        spec = case['spec']
        n, sr = spec['n'], spec['sr']
        if out['shape'] != [n, len(spec['cols'])]:
            return [Failure('shape-mismatch', 'phase has shape %s' % out['shape'], literal=lit)]
        fs = []
        for j, c in enumerate(spec['cols']):
            ph = np.array(out['cols'][j], dtype=float)
            if case['ret'] == 'wrapped' and not np.all((ph >= 0) & (ph <= TP)):
                fs.append(Failure('phase-out-of-range', 'wrapped phase outside [0, 2pi)', literal=lit))
                break
            if c['kind'] == 'sine' and n * c['f'] / sr >= 8:
                lo, hi = int(0.2 * n), int(0.8 * n)
                th = 2 * np.pi * c['f'] * np.arange(n) / sr + c['ph'] + JUMP_REF[case['jump']]
                e = float(np.median(P.circ(ph[lo:hi] - th[lo:hi])))
                if e > 0.15:
                    fs.append(_mech('phase-jump-misplaced:' + case['jump'],
                                    'column %d: median distance from the %s-referenced phase of the sinusoid = %.3g rad' % (j, case['jump'], e)))
                    break
        return fs

    def tags(self, case, out):
        return ['jump=' + case['jump'], 'ret=' + case['ret'], 'smoothing=%s' % case['smoothing'], 'cols=%d' % len(case['spec']['cols'])]

    def nontrivial(self, case, out):
        return case['jump'] != 'peak' or case['ret'] == 'wrapped'


# =============================================================================== sinusoid recovery (instance only)

SRS = [128.0, 256.0, 500.0, 512.0, 1000.0, 1024.0, 2000.0]
NS = [512, 1000, 1024, 2048, 3000, 4096]


def sine_case(rng, method, int_typed=False):
    sr, n = rng.choice(SRS), rng.choice(NS)
    cols = []
    for _ in range(rng.choice([1, 1, 2, 3])):
        fmin, fmax = 4 * sr / n, sr / 12
        if int_typed:
            fmin = max(fmin, sr / 48)     # keep the rounded peaks distinguishable (no long flat tops)
        f = math.exp(rng.uniform(math.log(fmin), math.log(fmax)))
        if rng.random() < 0.12:           # resonant sampling: samples per cycle snapped to j/q, q in {1,2,3,4}
            q = rng.choice([1, 1, 2, 3, 4])
            spc = max(12.0, round(sr / f * q) / q)
            if sr / spc >= fmin:
                f = sr / spc
        cols.append({'kind': 'sine', 'f': f, 'a': 10 ** rng.uniform(-1.5, 1.5), 'ph': rng.uniform(0, 2 * np.pi)})
    spec = {'n': n, 'sr': sr, 'cols': cols}
    if int_typed:       # integer-typed record of a large-amplitude sinusoid (quantisation error <= 0.5 / a)
        for c in cols:
            c['a'] = 10 ** rng.uniform(3, 4.5)
        spec['dtype'] = 'int'
    return {'spec': spec, 'method': method}


class Sinusoid(Stream):
    """PARTIAL sub-claim (numerical accuracy): a*sin(2 pi f t + ph) is recovered on the interior 80 %."""
    name = 'sinusoid_recovery'

    def corpus(self):
        cs = []
        for m in P.METHODS:
            cs.append({'spec': {'n': 1024, 'sr': 256.0, 'cols': [{'kind': 'sine', 'f': 10.0, 'a': 1.0, 'ph': 0.0}]}, 'method': m})
            cs.append({'spec': {'n': 2048, 'sr': 1000.0, 'cols': [{'kind': 'sine', 'f': 83.0, 'a': 0.05, 'ph': 5.0},      # sr/12
                                                                   {'kind': 'sine', 'f': 2.1, 'a': 30.0, 'ph': 2.0},       # ~4.3 cycles
                                                                   {'kind': 'sine', 'f': 20.0, 'a': 1.0, 'ph': 3.14159}]}, 'method': m})
            cs.append({'spec': {'n': 1024, 'sr': 256.0, 'dtype': 'int', 'cols': [{'kind': 'sine', 'f': 10.0, 'a': 1000.0, 'ph': 0.3}]}, 'method': m})
        return cs

    def generate(self, rng, tier):
        n_cases = 6000 if tier == 'thorough' else 480
        for i in range(n_cases):
            yield sine_case(rng, P.METHODS[i % 3], int_typed=rng.random() < 0.08)

    def impl(self, case):
        import emd
        x = P.typed(case['spec'])
        sr = case['spec']['sr']
        ip, iff, ia = emd.spectra.frequency_transform(x, sr, case['method'])
        stats = []
        for j, c in enumerate(case['spec']['cols']):
            stats.append(P.recovery_stats(ip[:, j], iff[:, j], ia[:, j], c['f'], c['a'], c['ph'], sr))
        out = {'shapes': [list(ip.shape), list(iff.shape), list(ia.shape)], 'stats': stats}
        if case['spec'].get('dtype') == 'int':
            # the same integer-valued samples as float64: integer typing must not change anything
            ipf, iff_f, iaf = emd.spectra.frequency_transform(P.synth(case['spec']), sr, case['method'])
            with np.errstate(all='ignore'):
                out['same_as_float'] = bool(
                    ipf.shape == ip.shape and np.array_equal(np.isnan(iaf), np.isnan(ia))
                    and float(np.nanmax(P.circ(ipf - ip))) <= POW2_TOL and float(np.nanmax(np.abs(iff_f - iff))) <= POW2_TOL * max(1.0, sr)
                    and (not np.isfinite(ia).any() or float(np.nanmax(np.abs(iaf - ia))) <= POW2_TOL * float(np.nanmax(np.abs(ia)))))
            out['stats_float'] = [P.recovery_stats(ipf[:, j], iff_f[:, j], iaf[:, j], c['f'], c['a'], c['ph'], sr)
                                  for j, c in enumerate(case['spec']['cols'])]
        return out

    @_guarded
    def holds(self, case, out):
        if _err(out):
            return [Failure('raises:' + out['error'], out['msg'])]
        spec = case['spec']
        n, sr, m = spec['n'], spec['sr'], case['method']
        fs = {}
        for sh in out['shapes']:
            if sh != [n, len(spec['cols'])]:
                fs['shape-mismatch'] = Failure('shape-mismatch', '%s for input [%d, %d]' % (sh, n, len(spec['cols'])))
        names = {'F': 'frequency', 'A': 'amplitude', 'P': 'phase'}
        is_int = spec.get('dtype') == 'int'
        if is_int and not out['same_as_float']:
            fs['int-dtype-changes-result'] = Failure('int-dtype-changes-result', 'integer-typed samples give different phase / frequency / '
                                                     'amplitude than the float64 copy of the same values (method %s)' % m)
        for j, (c, st) in enumerate(zip(spec['cols'], out['stats'])):
            cycles, spc = n * c['f'] / sr, sr / c['f']
            for stat in P.CHECKED[m]:
                tol = P.tolerance(m, cycles, spc, stat)
                if is_int:
                    tol += 20.0 / c['a']          # quantisation to integers (a >= 1000: at most 0.02)
                v = st[stat]
                if is_int and not (out['stats_float'][j][stat] <= tol):
                    continue                      # rounding artefact of the samples themselves (flat-topped peaks), not of the typing
                if not (v <= tol):
                    kind = '%s-not-recovered:%s' % (names[stat[-1]], m)
                    fs.setdefault(kind, Failure(kind, 'column %d (f=%.6g Hz, a=%.4g, ph=%.4g; %.1f cycles, %.2f samples/cycle, sr=%g): %s error %s = %.4g > tolerance %.4g'
                                                % (j, c['f'], c['a'], c['ph'], cycles, spc, sr, names[stat[-1]],
                                                   {'max': 'max', 'med': 'median', 'mea': 'of the mean'}[stat[:3]], v, tol)))
        return list(fs.values())

    def tags(self, case, out):
        spec = case['spec']
        t = ['method=' + case['method'], 'cols=%d' % len(spec['cols']), 'dtype=' + spec.get('dtype', 'float')]
        for c in spec['cols']:
            t.append('cycles-band=%d' % P.band(spec['n'] * c['f'] / spec['sr'], P.CYC_BANDS))
            t.append('spc-band=%d' % P.band(spec['sr'] / c['f'], P.SPC_BANDS))
        return t

    def nontrivial(self, case, out):
        return True

    def shrink(self, case):
        spec = case['spec']
        if len(spec['cols']) > 1:
            for c in spec['cols']:
                yield dict(case, spec=dict(spec, cols=[c]))


# =============================================================================== quadrature_transform

class Quadrature(Stream):
    name = 'quadrature'

    def corpus(self):
        return [{'spec': {'n': 64, 'sr': 64.0, 'cols': [{'kind': 'sine', 'f': 4.0, 'a': 2.0, 'ph': 0.3}]}, 'k': 4},
                {'spec': {'n': 64, 'sr': 64.0, 'cols': [{'kind': 'sine', 'f': 4.0, 'a': 2.0, 'ph': 0.3}]}, 'k': -30},     # round-3 change C09/1
                {'spec': {'n': 100, 'sr': 64.0, 'cols': [{'kind': 'amfm', 'f': 4.0, 'a': 0.5, 'ph': 1.3, 'fm': 0.5, 'depth': 0.3, 'beta': 0.4}]}, 'k': -43},
                {'spec': {'n': 128, 'sr': 64.0, 'dtype': 'int', 'cols': [{'kind': 'sine', 'f': 4.0, 'a': 1000.0, 'ph': 0.3}]}, 'k': 3},
                {'spec': {'n': 1, 'sr': 1.0, 'cols': [{'kind': 'data', 'x': [1.0]}]}, 'k': 1},
                {'spec': {'n': 16, 'sr': 1.0, 'cols': [{'kind': 'data', 'x': [0.0] * 16}]}, 'k': 1}]

    def generate(self, rng, tier):
        n_cases = 600 if tier == 'thorough' else 90
        for _ in range(n_cases):
            sr = rng.choice([64.0, 256.0, 1000.0])
            n = rng.choice([32, 100, 256, 400])
            kinds = rng.choice([['sine'], ['chirp', 'amfm'], ['two'], ['noise']])
            yield {'spec': _maybe_int(rng, {'n': n, 'sr': sr, 'cols': [_rand_col(rng, n, sr, kinds) for _ in range(rng.choice([1, 2, 3]))]}),
                   'k': rng.choice([-80, -43, -30, -12, -2, 1, 5, 16, 50])}

    def impl(self, case):
        import emd
        x = P.typed(case['spec'])
        x0 = x.copy()
        q = emd.spectra.quadrature_transform(x)
        q2 = emd.spectra.quadrature_transform(x0 * 2.0 ** case['k'])
        return {'re': [P.tolist(c) for c in P.cols(q.real)], 'im': [P.tolist(c) for c in P.cols(q.imag)],
                'shape': list(q.shape), 'pow2_eq': bool(np.array_equal(q, q2)),
                'pow2_diff': float(np.max(np.abs(q - q2))) if q.shape == q2.shape and q.size else (0.0 if q.shape == q2.shape else float('inf'))}

    def _tables(self, case):
        import emd
        x = P.synth(case['spec'])
        nX = emd.utils.amplitude_normalise(x.copy(), clip=True)
        s = np.lib.scimath.sqrt(1 - np.power(nX, 2)).real
        return nX, s

    def ops(self, case, out):
        x = P.synth(case['spec'])
        if x.shape[0] < 2:
            return [proto.op('QUAD', {}, [list(x[:, 0]), list(x[:, 0])])]
        if _err(out):
            return []
        nX, s = self._tables(case)
        return [proto.op('QUAD', {}, [list(nX[:, j]), list(s[:, j])]) for j in range(nX.shape[1])]

    def compare(self, case, out, results):
        if _timeout(out):
            return 'skip:run time is not the property\'s subject'
        if results and results[0].status == 'err':
            return None if _err(out) else 'skip:input outside the quantifier: the model refuses it, the implementation returns a result'
        if _err(out):
            if case['spec']['n'] < 2:
                return 'skip:input outside the quantifier: the implementation refuses it (%s), the model does not' % out['error']
            return 'implementation raised %s: %s' % (out['error'], out['msg'][-100:])
        nX, s = self._tables(case)
        for j, r in enumerate(results):
            if not r.ok:
                return 'model answered %s' % r.raw[:80]
            if [P.F(v) for v in out['im'][j]] != (r.vecs[0] or []):
                mv = P.model_vec(r.vecs[0])
                i = int(np.argmax(np.array(out['im'][j]) != mv))
                return 'column %d sample %d: imaginary part %r, model %r' % (j, i, out['im'][j][i], mv[i])
            if out['re'][j] != list(nX[:, j]):
                return 'column %d: real part is not the clipped amplitude-normalised input' % j
        return None

    @_guarded
    def holds(self, case, out):
        # quadrature_transform is anchored mechanism of method 'quad' (unit modulus, sign convention: not in the statement);
        # literal here only: shape, and invariance under 2^k rescaling within rounding on oscillatory columns
        n = case['spec']['n']
        if n < 2:
            return []          # outside the quantifier (tag raises=...)
        import emd
        x = P.synth(case['spec'])
        osc = all(emd.sift.interp_envelope(x[:, j], mode='combined', interp_method='pchip') is not None for j in range(x.shape[1]))
        if _err(out):
            return [Failure('raises:' + out['error'], out['msg'], literal=osc)]
        fs = []
        if out['shape'] != [n, len(case['spec']['cols'])]:
            return [Failure('shape-mismatch', 'quadrature signal has shape %s' % out['shape'])]
        for j, (re, im) in enumerate(zip(out['re'], out['im'])):
            re, im = np.array(re, dtype=float), np.array(im, dtype=float)
            if np.max(np.abs(re * re + im * im - 1)) > 1e-9:
                fs.append(_mech('quadrature-not-unit-modulus', 'column %d: max |re^2+im^2-1| = %g' % (j, np.max(np.abs(re * re + im * im - 1)))))
                break
            rising = np.diff(re) > 0
            sgn = np.r_[rising, rising[-1]]
            if np.any(im[sgn] > 0) or np.any(im[~sgn] < 0):
                fs.append(_mech('quadrature-wrong-sign', 'column %d: imaginary part must be <= 0 on rising and >= 0 on falling samples' % j))
                break
        if not out.get('pow2_diff', 0.0) <= POW2_TOL:
            fs.append(Failure('pow2-scale-changes-quadrature', 'quadrature_transform(x * 2^%d) differs from quadrature_transform(x) by %g'
                              % (case['k'], out.get('pow2_diff', float('nan'))), literal=osc))
        return fs

    def tags(self, case, out):
        return ['cols=%d' % len(case['spec']['cols']), 'dtype=' + case['spec'].get('dtype', 'float')] + \
               sorted(set('kind=' + c['kind'] for c in case['spec']['cols'])) + \
               (['raises=' + out['error']] if _err(out) else [])

    def nontrivial(self, case, out):
        return not _err(out)

    def shrink(self, case):
        spec = case['spec']
        if len(spec['cols']) > 1:
            for c in spec['cols']:
                yield dict(case, spec=dict(spec, cols=[c]))


# =============================================================================== amplitude_normalise

class Normalise(Stream):
    name = 'amplitude_normalise'
    GUARD = 1e-11     # |  |sum(env) - n| - thresh | below this: the float decision may differ (counted as skipped)

    def corpus(self):
        return [{'spec': {'n': 128, 'sr': 64.0, 'cols': [{'kind': 'amfm', 'f': 6.0, 'a': 3.0, 'ph': 0.0, 'fm': 0.7, 'depth': 0.4, 'beta': 0.0}]},
                 'clip': False, 'max_iters': 3, 'k': 5, 'c': 7.3},
                # tiny units (round-3 change C09/1: columns with all |x| <= 1e-8 were left un-normalised)
                {'spec': {'n': 128, 'sr': 64.0, 'cols': [{'kind': 'amfm', 'f': 6.0, 'a': 3.0, 'ph': 0.0, 'fm': 0.7, 'depth': 0.4, 'beta': 0.0}]},
                 'clip': False, 'max_iters': 3, 'k': -30, 'c': 7.3e-12},
                {'spec': {'n': 128, 'sr': 64.0, 'cols': [{'kind': 'sine', 'f': 5.0, 'a': 2.0, 'ph': 1.0}]}, 'clip': True, 'max_iters': 3, 'k': -43, 'c': 3e-15},
                {'spec': {'n': 32, 'sr': 1.0, 'cols': [{'kind': 'data', 'x': [i / 32 for i in range(32)]}]},      # no extrema: returned unchanged
                 'clip': False, 'max_iters': 3, 'k': 2, 'c': 0.2},
                {'spec': {'n': 128, 'sr': 64.0, 'cols': [{'kind': 'sine', 'f': 5.0, 'a': 0.01, 'ph': 1.0}]}, 'clip': True, 'max_iters': 0, 'k': 2, 'c': 0.2},
                # integer-typed input: X / env used to be truncated back to integers (fixed: float copy)
                {'spec': {'n': 128, 'sr': 64.0, 'dtype': 'int', 'cols': [{'kind': 'sine', 'f': 5.0, 'a': 1000.0, 'ph': 1.0}]},
                 'clip': False, 'max_iters': 3, 'k': 2, 'c': 3.0},
                # hypothesis PosEnv of C09.amplitudeNormalise_sign: always met by the pchip interpolants (validated each run, kind
                # oracle:pos-env); the splrep combined envelope of the last record dips to -0.023 and the output changes sign there
                # (the hypothesis is necessary; sign / scale clauses are not applied where the validator finds it false)
                {'spec': {'n': 128, 'sr': 64.0, 'cols': [{'kind': 'sine', 'f': 5.0, 'a': 2.0, 'ph': 1.0}]}, 'clip': False, 'max_iters': 3,
                 'k': 2, 'c': 3.0, 'interp': 'mono_pchip'},
                {'spec': {'n': 128, 'sr': 64.0, 'cols': [{'kind': 'sine', 'f': 5.0, 'a': 2.0, 'ph': 1.0}]}, 'clip': True, 'max_iters': 3,
                 'k': 2, 'c': 3.0, 'interp': 'splrep'},
                {'spec': {'n': 64, 'sr': 256.0, 'cols': [{'kind': 'noise', 'seed': 10, 'a': 1.0, 'smooth': 1}]}, 'clip': False,
                 'max_iters': 3, 'k': 1, 'c': 2.0, 'interp': 'splrep'},
                # integer-quantised sine, splrep, random c: rounding breaks the exact ties of the flat-topped peaks of the second
                # iterate (13 vs 12 extrema), the spline moves by 6e-6 everywhere (past failure of the random-c clause; see holds)
                {'spec': {'n': 400, 'sr': 256.0, 'dtype': 'int', 'cols': [{'kind': 'sine', 'f': 3.176972665317497, 'a': 1003.8749988139488,
                                                                          'ph': 2.1518293180553445}]},
                 'clip': False, 'max_iters': 6, 'k': 16, 'c': 0.284331240362048, 'interp': 'splrep'}]

    def generate(self, rng, tier):
        n_cases = 600 if tier == 'thorough' else 90
        for _ in range(n_cases):
            sr = rng.choice([64.0, 256.0, 1000.0])
            n = rng.choice([32, 100, 256, 400])
            kinds = rng.choice([['sine'], ['chirp', 'amfm'], ['amfm'], ['two'], ['noise']])
            yield {'spec': _maybe_int(rng, {'n': n, 'sr': sr, 'cols': [_rand_col(rng, n, sr, kinds) for _ in range(rng.choice([1, 2, 3]))]}),
                   'clip': rng.random() < 0.4, 'max_iters': rng.choice([3, 3, 3, 1, 2, 6]),
                   'k': rng.choice([-80, -43, -30, -12, -2, 1, 5, 16, 50]), 'c': 10 ** rng.uniform(-3, 3),
                   'interp': rng.choice(['pchip', 'pchip', 'pchip', 'mono_pchip', 'splrep'])}

    @staticmethod
    def _interp(case):
        return case.get('interp', 'pchip')

    def impl(self, case):
        import emd
        x = P.typed(case['spec'])
        x0 = x.copy()
        kw = {'clip': case['clip'], 'max_iters': case['max_iters']}
        if 'interp' in case:
            kw['interp_method'] = case['interp']
        y = emd.utils.amplitude_normalise(x, **kw)
        y2 = emd.utils.amplitude_normalise(x0 * 2.0 ** case['k'], **kw)
        y3 = emd.utils.amplitude_normalise(x0 * case['c'], **kw)
        return {'y': [P.tolist(c) for c in P.cols(y)], 'shape': list(y.shape), 'input_unchanged': bool(np.array_equal(x, x0)),
                'pow2_eq': bool(np.array_equal(y2, y, equal_nan=True)),
                'pow2_diff': float(np.nanmax(np.abs(y2 - y))) if y.size and np.array_equal(np.isnan(y2), np.isnan(y)) else (0.0 if not y.size else float('inf')),
                'pow2_scaled_eq': bool(np.array_equal(y2, y * 2.0 ** case['k'], equal_nan=True)),
                'rand_diff': float(np.max(np.abs(y3 - y))) if y.size else 0.0,
                'rand_scaled_diff': float(np.max(np.abs(y3 - case['c'] * y) / max(1e-300, case['c']))) if y.size else 0.0}

    def _table(self, col, max_iters, interp='pchip'):
        """the envelopes amplitude_normalise meets on this column: E 0 x, E 1 (x / E 0 x), ... (None: a non-finite iterate)"""
        import emd
        x = np.array(col, dtype=float)
        envs = [emd.sift.interp_envelope(x, mode='combined', interp_method=interp)]
        it = 0
        while envs[-1] is not None and it < max_iters:
            it += 1
            with np.errstate(all='ignore'):
                x = x / envs[-1]
            if not np.all(np.isfinite(x)):
                return None
            envs.append(emd.sift.interp_envelope(x, mode='combined', interp_method=interp))
        return envs

    def _pos_env(self, case):
        """Validator of `PosEnv E` (hypothesis of C09.amplitudeNormalise_sign) for the oracle E of this very case: every entry of
        every envelope the normalisation meets is > 0.  Per column; the model's E is exactly this table."""
        x = P.synth(case['spec'])
        res = []
        for j in range(x.shape[1]):
            t = self._table(x[:, j], case['max_iters'], self._interp(case))
            res.append(t is not None and all(e is None or bool(np.all(e > 0)) for e in t))
        return res

    def ops(self, case, out):
        if _err(out):
            return []
        x = P.synth(case['spec'])
        ops = []
        for j in range(x.shape[1]):
            t = self._table(x[:, j], case['max_iters'], self._interp(case))
            if t is None:
                ops.append('# non-finite iterate')
                continue
            ops.append(proto.op('AN', {'thresh': 1e-10, 'maxit': case['max_iters'], 'clip': int(case['clip'])},
                                [list(x[:, j])] + [None if e is None else list(e) for e in t]))
        return ops

    def compare(self, case, out, results):
        if _err(out):
            return 'implementation raised %s: %s' % (out['error'], out['msg'][-100:])
        skip = False
        scale = max(1.0, float(np.max(np.abs(P.synth(case['spec'])))))
        for j, r in enumerate(results):
            if r.status == 'skip':
                skip = True
                continue
            if not r.ok:
                return 'model answered %s' % r.raw[:80]
            mg = r.args.get('margin')
            if mg is not None and float(mg) < self.GUARD:
                skip = True
                continue
            y = np.array([np.nan if v is None else v for v in out['y'][j]])
            d = np.abs(y - P.model_vec(r.vecs[0]))
            if not np.all(d <= 1e-9 * scale):
                i = int(np.argmax(~(d <= 1e-9 * scale)))
                return 'column %d sample %d: implementation %r, model %r (model iterations %s)' % (j, i, float(y[i]), float(r.vecs[0][i]), r.args.get('iters'))
        return 'skip:near-threshold' if skip else None

    def _has_env(self, case):
        import emd
        x = P.synth(case['spec'])
        return [emd.sift.interp_envelope(x[:, j], mode='combined', interp_method=self._interp(case)) is not None for j in range(x.shape[1])]

    @_guarded
    def holds(self, case, out):
        # amplitude_normalise is the anchored "scale-free amplitude normalisation used by nht/quad": literal here are only the
        # scale-freeness clauses on columns that have an envelope; sign preservation, clipping, the identity without envelope and
        # leaving the caller's array alone are helper conventions (mechanism level)
        has = self._has_env(case)
        if _err(out):
            return [Failure('raises:' + out['error'], out['msg'], literal=all(has))]
        x = P.synth(case['spec'])
        fs = []
        if out['shape'] != list(x.shape):
            return [Failure('shape-mismatch', 'amplitude_normalise: %s for input %s' % (out['shape'], list(x.shape)))]
        if not out['input_unchanged']:
            fs.append(_mech('normalise-modifies-input', 'caller array changed'))
        pos = self._pos_env(case)
        if not all(pos):
            # PosEnv is a theorem of the pchip interpolants (monotone between positive |peaks|) and must hold there; a cubic
            # spline through the same knots may undershoot to <= 0: the sign / finiteness / scale clauses are then not applied
            if self._interp(case) != 'splrep':
                fs.append(_mech('oracle:pos-env', 'interp_envelope(mode=combined, interp_method=%s) has entries <= 0 (columns %s): hypothesis '
                                'PosEnv of C09.amplitudeNormalise_sign does not hold' % (self._interp(case), [j for j, v in enumerate(pos) if not v])))
            return fs
        y = np.array([[np.nan if v is None else v for v in c] for c in out['y']]).T
        if not np.all(np.isfinite(y)):
            fs.append(Failure('non-finite-output', 'amplitude_normalise produced NaN/inf', literal=all(has)))
            return fs
        if not np.array_equal(np.sign(y), np.sign(x)):
            i = np.argwhere(np.sign(y) != np.sign(x))[0]
            fs.append(_mech('normalise-changes-sign', 'sample %d column %d: input %r output %r' % (i[0], i[1], float(x[i[0], i[1]]), float(y[i[0], i[1]]))))
        if case['clip'] and np.max(np.abs(y)) > 1:
            fs.append(_mech('normalise-not-clipped', 'max |y| = %r' % float(np.max(np.abs(y)))))
        if all(has) and case['max_iters'] >= 1:
            if not out.get('pow2_diff', 0.0) <= POW2_TOL:
                fs.append(Failure('pow2-scale-changes-normalised', 'amplitude_normalise(x * 2^%d) differs from amplitude_normalise(x) by %g'
                                  % (case['k'], out.get('pow2_diff', float('nan')))))
            # integer-quantised samples have exact ties at their flat-topped peaks; a rescaling that is not a power of two breaks
            # them by rounding and the extrema set of the next iterate changes (extrema detection, C05).  The non-local cubic
            # spline carries one flipped tie over the whole record (measured 6e-6), the local pchip does not: for splrep the
            # random-c clause is evaluated on float records only (the 2^k clause above always is)
            tie_prone = self._interp(case) == 'splrep' and case['spec'].get('dtype') == 'int'
            if out['rand_diff'] > 1e-7 and not tie_prone:
                fs.append(Failure('scale-changes-normalised', 'amplitude_normalise(x * %r) differs by %g' % (case['c'], out['rand_diff'])))
        elif not any(has) or case['max_iters'] == 0:
            # nothing to normalise by: documented no-op (output scales with the input)
            if not case['clip'] and not np.array_equal(y, x):
                fs.append(_mech('normalise-not-identity-without-envelope', 'no envelope / max_iters=0 but output differs from input'))
        return fs

    def tags(self, case, out):
        t = ['clip=%d' % case['clip'], 'max_iters=%d' % case['max_iters'], 'cols=%d' % len(case['spec']['cols']),
             'dtype=' + case['spec'].get('dtype', 'float'), 'interp=' + self._interp(case)]
        t += sorted(set('kind=' + c['kind'] for c in case['spec']['cols']))
        if not _err(out):
            has = self._has_env(case)
            t.append('envelope' if all(has) else 'no-envelope')
            t.append('pos-env:validated' if all(self._pos_env(case)) else 'pos-env:fails(sign/scale clauses skipped)')
            if self._interp(case) == 'splrep' and case['spec'].get('dtype') == 'int':
                t.append('random-c-clause-skipped(splrep on integer ties)')
        return t

    def nontrivial(self, case, out):
        return not _err(out) and case['max_iters'] >= 1 and all(self._has_env(case))

    def shrink(self, case):
        spec = case['spec']
        if len(spec['cols']) > 1:
            for c in spec['cols']:
                yield dict(case, spec=dict(spec, cols=[c]))


# =============================================================================== assumption validators

class UnwrapModel(Stream):
    """np.unwrap against Phase.unwrap (the algorithm `unwrap_wrap` is proved about)."""
    name = 'np_unwrap_model'

    def corpus(self):
        return [{'p': [0.0, 2.0, 5.0, 1.0, 3.0, 6.0, 0.5]}, {'p': []}, {'p': [1.0]},
                {'p': [k / 4 for k in (0, 9, 18, 2, 11, 20, 4, 30, -7, 60)]}]

    def generate(self, rng, tier):
        n_cases = 1000 if tier == 'thorough' else 120
        for _ in range(n_cases):
            n = rng.choice([2, 3, 10, 50, 200])
            fam = rng.choice(['wrapped-slow', 'wrapped-fast', 'dyadic', 'unwrapped'])
            if fam == 'dyadic':
                p = [rng.randint(0, 50) / 8 for _ in range(n)]
            else:
                f = rng.uniform(0.01, 0.2) if fam != 'wrapped-fast' else rng.uniform(0.3, 0.9)
                acc, p = rng.uniform(-5, 5), []
                for _i in range(n):
                    acc += 2 * np.pi * f * (1 + 0.3 * rng.gauss(0, 1))
                    p.append(acc if fam == 'unwrapped' else acc % TP)
            yield {'p': p, 'family': fam}

    def impl(self, case):
        return P.tolist(np.unwrap(np.array(case['p'], dtype=float)))

    def ops(self, case, out):
        return [proto.op('UNWRAP', {'m': TP}, [case['p']])]

    def compare(self, case, out, results):
        r = results[0]
        if _err(out) or not r.ok:
            return 'np.unwrap: %s, model: %s' % (_err(out) or 'ok', r.raw[:60])
        mg = r.args.get('margin')
        if mg is not None and float(mg) < 1e-9:
            return 'skip:near-tie'
        mv = P.model_vec(r.vecs[0])
        o = np.array(out, dtype=float)
        if len(mv) != len(o) or (len(o) and np.max(np.abs(mv - o)) > 1e-9 * max(1.0, np.max(np.abs(o)))):
            return 'np.unwrap(%s...) = %s..., model %s...' % (case['p'][:6], out[:6], list(mv[:6]))
        return None

    def holds(self, case, out):
        # the theorem's statement on numpy: slowly varying phase is recovered from its wrapped version
        p = np.array(case['p'], dtype=float)
        if len(p) < 2 or np.max(np.abs(np.diff(p))) >= np.pi - 1e-6:
            return []
        u = np.unwrap(p % TP)
        d = u - p
        if np.max(np.abs(d - d[0])) > 1e-9 * max(1.0, np.max(np.abs(p))) or P.circ(d[0]) > 1e-9 * max(1.0, abs(p[0])):
            return [_mech('assumption:unwrap-inverts-wrap', 'np.unwrap(p % 2pi) - p is not a constant multiple of 2pi for slowly varying p')]
        return []

    def tags(self, case, out):
        return ['family=' + case.get('family', 'corpus')]

    def nontrivial(self, case, out):
        p = case['p']
        return len(p) > 1 and any(abs(b - a) > np.pi for a, b in zip(p, p[1:]))


class Assumptions(Stream):
    """Hypotheses hlin / hang / habs / hEc / hEu of ft_hilbert_scale, ft_nht_scale(_any), ft_quad_scale on the real library, c > 0."""
    name = 'library_assumptions'

    def corpus(self):
        return [{'spec': {'n': 128, 'sr': 64.0, 'cols': [{'kind': 'sine', 'f': 5.0, 'a': 1.0, 'ph': 0.0}, {'kind': 'noise', 'seed': 1, 'a': 2.0, 'smooth': 1}]},
                 'a': 2.5, 'b': -0.75, 'k': 6, 'c': 3.7},
                # non-oscillatory columns: None-ness of both envelopes is preserved, Hilbert / angle contracts hold as well
                {'spec': {'n': 50, 'sr': 100.0, 'cols': [{'kind': 'data', 'x': [float(v) for v in np.linspace(0, 1, 50)]},
                                                          {'kind': 'data', 'x': [math.cos(2 * math.pi * (i - 20) / 30.0) for i in range(50)]}]},
                 'a': 1.5, 'b': 2.0, 'k': 3, 'c': 4.0},
                {'spec': {'n': 4, 'sr': 1.0, 'cols': [{'kind': 'data', 'x': [0.0, 0.25, 0.5, 0.75]}, {'kind': 'data', 'x': [1.0, 1.0, 1.0, 1.0]}]},
                 'a': -1.0, 'b': 0.5, 'k': 1, 'c': 2.0}]

    def generate(self, rng, tier):
        n_cases = 500 if tier == 'thorough' else 60
        for _ in range(n_cases):
            sr, n = rng.choice([64.0, 256.0, 1000.0]), rng.choice([32, 100, 256, 400, 1024])
            kinds = rng.choice([['sine'], ['chirp', 'amfm'], ['two'], ['noise'], ['sine', 'noise']])
            yield {'spec': {'n': n, 'sr': sr, 'cols': [_rand_col(rng, n, sr, kinds) for _ in range(2)]},
                   'a': rng.uniform(-5, 5), 'b': rng.uniform(-5, 5), 'k': rng.choice([-20, -3, 1, 7, 20]), 'c': 10 ** rng.uniform(-3, 3)}

    def impl(self, case):
        import emd
        from scipy import signal
        X = P.synth(case['spec'])
        x, y = X[:, 0], X[:, 1]
        a, b, c, s = case['a'], case['b'], case['c'], 2.0 ** case['k']
        hx, hy = signal.hilbert(x), signal.hilbert(y)
        scale = max(1e-300, float(np.max(np.abs(hx)) * abs(a) + np.max(np.abs(hy)) * abs(b)))
        out = {'hilbert_linear': float(np.max(np.abs(signal.hilbert(a * x + b * y) - (a * hx + b * hy))) / scale),
               'hilbert_pow2_exact': bool(np.array_equal(signal.hilbert(s * x), s * hx)),
               'hilbert_real_part': float(np.max(np.abs(hx.real - x)) / max(1e-300, np.max(np.abs(x)))),
               'angle_scale': float(np.max(P.circ(np.angle(c * hx) - np.angle(hx)))),
               'angle_pow2_exact': bool(np.array_equal(np.angle(s * hx), np.angle(hx))),
               'abs_scale': float(np.max(np.abs(np.abs(c * hx) - c * np.abs(hx)) / np.maximum(c * np.abs(hx), 1e-300))),
               'abs_pow2_exact': bool(np.array_equal(np.abs(s * hx), s * np.abs(hx)))}
        for nm, kw in (('upper', dict(mode='upper')), ('combined', dict(mode='combined', interp_method='pchip')),
                       ('combined_splrep', dict(mode='combined', interp_method='splrep'))):
            e1 = emd.sift.interp_envelope(x, **kw)
            e2 = emd.sift.interp_envelope(c * x, **kw)
            e3 = emd.sift.interp_envelope(s * x, **kw)
            if e1 is None:
                out['env_' + nm] = 0.0 if (e2 is None and e3 is None) else 1.0
                out['env_' + nm + '_pow2_exact'] = e3 is None
            else:
                out['env_' + nm] = 1.0 if e2 is None else float(np.max(np.abs(e2 - c * e1)) / max(1e-300, c * np.max(np.abs(e1))))
                out['env_' + nm + '_pow2_exact'] = e3 is not None and bool(np.array_equal(e3, s * e1))
        return out

    @_guarded
    def holds(self, case, out):
        # hypotheses of the scale theorems about scipy / numpy / emd.sift.interp_envelope (lower layers), not C09's own words:
        # a failed hypothesis means the theorems no longer apply to the deployed libraries (mechanism level, literal=False)
        if _err(out):
            return [_mech('assumption:raises:' + out['error'], out['msg'])]
        fs = []
        for key, tol in (('hilbert_linear', 1e-9), ('hilbert_real_part', 1e-9), ('angle_scale', 1e-9), ('abs_scale', 1e-9),
                         ('env_upper', 1e-9), ('env_combined', 1e-9), ('env_combined_splrep', 1e-9)):
            if not out[key] <= tol:
                fs.append(_mech('assumption:' + key, '%s violated: relative deviation %g' % (key, out[key])))
        for key in ('hilbert_pow2_exact', 'angle_pow2_exact', 'abs_pow2_exact', 'env_upper_pow2_exact', 'env_combined_pow2_exact',
                    'env_combined_splrep_pow2_exact'):
            if not out[key]:
                fs.append(_mech('assumption:' + key, '%s: not bit-exact under x * 2^%d' % (key, case['k'])))
        return fs

    def tags(self, case, out):
        t = sorted(set('kind=' + c['kind'] for c in case['spec']['cols']))
        if not _err(out):
            import emd
            x = P.synth(case['spec'])[:, 0]
            if emd.sift.interp_envelope(x, mode='upper') is None:
                t.append('no-upper-envelope')
            if emd.sift.interp_envelope(x, mode='combined', interp_method='pchip') is None:
                t.append('no-combined-envelope')
        return t


STREAMS = [Wrap(), Conversions(), Roundtrip(), ComplexPhase(), FreqTransform(), Sinusoid(), Quadrature(), Normalise(), UnwrapModel(), Assumptions()]


# =============================================================================== calibration of the recovery table

def calibrate(seeds=range(1, 9), per_seed=5000, resonant=True):
    """Measure the worst recovery errors on the (clean) tree under EMD_REPO; returns the text of props/_phase_table.py.

    Regenerate with (about 6 min single process; the seeds may also be split over processes and merged by max):
      C09_CALIBRATE=1 /venv/bin/python -c "import sys; sys.path[:0] = ['$EMD_REPO', 'harness']; from props import c09; \
          open('harness/props/_phase_table.py', 'w').write(c09.calibrate())"
    """
    import random
    import emd
    worst = {m: {} for m in P.METHODS}
    count = {m: {} for m in P.METHODS}
    for seed in seeds:
        rng = random.Random(seed)
        for i in range(per_seed):
            case = sine_case(rng, P.METHODS[i % 3])
            x = P.synth(case['spec'])
            sr, n, m = case['spec']['sr'], case['spec']['n'], case['method']
            ip, iff, ia = emd.spectra.frequency_transform(x, sr, m)
            for j, c in enumerate(case['spec']['cols']):
                st = P.recovery_stats(ip[:, j], iff[:, j], ia[:, j], c['f'], c['a'], c['ph'], sr)
                key = (P.band(n * c['f'] / sr, P.CYC_BANDS), P.band(sr / c['f'], P.SPC_BANDS))
                cell = worst[m].setdefault(key, {s: 0.0 for s in P.STATS})
                count[m][key] = count[m].get(key, 0) + 1
                for s in P.STATS:
                    cell[s] = max(cell[s], st[s])
    if resonant:
        sr = 500.0
        spcs = sorted(set(j / q for q in (1, 2, 3, 4) for j in range(12 * q, 40 * q + 1)) | set(range(40, 121, 4)))
        for n in (512, 1000, 2048, 4096):
            for spc in spcs:
                f = sr / spc
                if n * f / sr < 4:
                    continue
                for ph in np.linspace(0, 2 * np.pi, 16, endpoint=False) + 0.01:
                    x = P.synth({'n': n, 'sr': sr, 'cols': [{'kind': 'sine', 'f': f, 'a': 1.0, 'ph': float(ph)}]})
                    for m in P.METHODS:
                        ip, iff, ia = emd.spectra.frequency_transform(x, sr, m)
                        st = P.recovery_stats(ip[:, 0], iff[:, 0], ia[:, 0], f, 1.0, float(ph), sr)
                        key = (P.band(n * f / sr, P.CYC_BANDS), P.band(sr / f, P.SPC_BANDS))
                        cell = worst[m].setdefault(key, {s: 0.0 for s in P.STATS})
                        count[m][key] = count[m].get(key, 0) + 1
                        for s in P.STATS:
                            cell[s] = max(cell[s], st[s])
    lines = ['"""Worst sinusoid-recovery errors measured on the clean tree (generated by `c09.calibrate`; do not edit by hand).',
             'key: (cycles-per-record band, samples-per-cycle band) -> worst error per statistic; counts in the comment."""', 'WORST = {']
    for m in P.METHODS:
        lines.append('    %r: {' % m)
        for key in sorted(worst[m]):
            cell = {s: float('%.3g' % worst[m][key][s]) for s in P.STATS}
            lines.append('        %r: %r,   # %d sinusoids' % (key, cell, count[m][key]))
        lines.append('    },')
    lines.append('}')
    return '\n'.join(lines) + '\n'
