"""Shared pieces of the index-map check (C16): enumeration of label vectors, the real
implementation's answers as a token table, the model op, and the set-theoretic oracle."""
import itertools

import numpy as np

from common import proto
from common.framework import Failure, err_kind

SLOTS = ['subset_vect', 'chain_vect',
         'sample_to_cycle', 'cycle_to_samples', 'subset_to_cycle', 'cycle_to_subset',
         'subset_to_sample', 'sample_to_subset', 'chain_to_subset', 'subset_to_chain',
         'cycle_to_chain', 'chain_to_cycle', 'chain_to_samples', 'sample_to_chain',
         'project_cycles_to_samples', 'project_subset_to_cycles', 'project_subset_to_samples',
         'project_chain_to_subset', 'project_chain_to_cycles', 'project_chain_to_samples']


# ----------------------------------------------------------------------------- enumeration

def wf_vectors(n):
    """Every well-formed label vector of length n: cycles 0..K-1 as contiguous blocks in
    order, optional blocks of -1 before, between and after (adjacent gaps merge)."""
    out = []

    def rec(prefix, nxt, last_gap):
        if len(prefix) == n:
            out.append(list(prefix))
            return
        room = n - len(prefix)
        for ln in range(1, room + 1):            # a cycle of length ln
            rec(prefix + [nxt] * ln, nxt + 1, False)
        if not last_gap:
            for ln in range(1, room + 1):        # a gap of length ln
                rec(prefix + [-1] * ln, nxt, True)
    rec([], 0, False)
    return out


def canonical_cvs(K):
    """Three fixed recordings with K cycles: dense single-sample cycles; mixed lengths with
    gaps before odd cycles and at both ends; single-sample cycles all separated by gaps."""
    a = list(range(K))
    b = [-1]
    for k in range(K):
        if k % 2 == 1:
            b += [-1]
        b += [k] * (1 + (k * 2) % 3)
    b += [-1, -1]
    c = []
    for k in range(K):
        c += [k, -1]
    return [a, b, c]


def sizes(valids):
    """(S, C) from first principles: selected count and number of maximal runs."""
    sel = [k for k, v in enumerate(valids) if v]
    C = sum(1 for j, k in enumerate(sel) if j == 0 or sel[j - 1] != k - 1)
    return len(sel), C


def default_vals(K, S, C):
    return ([100 + k for k in range(K)], [200 + j for j in range(S)], [300 + c for c in range(C)])


# ----------------------------------------------------------------------------- implementation

def _scalar(r):
    """forward map answer: 'none' or the index (python int, numpy integer, 0-d or one-element array: the
    container is not part of the property)"""
    if r is None:
        return 'none'
    a = np.asarray(r)
    if a.size != 1:
        return 'array:' + ','.join(str(int(v)) for v in a.ravel())
    return str(int(a.ravel()[0]))


def _lst(r):
    """backward map answer: the *set* of indices (a bare index counts as a singleton, a single column / row as
    its entries; the order is kept in the token and canonicalised when compared)"""
    if r is None:
        return 'none'
    a = np.asarray(r)
    if a.ndim > 1 and a.size != max(a.shape):
        return 'shape:%s' % (a.shape,)
    a = a.ravel()
    return ','.join(str(int(v)) for v in a) if a.size else '-'


def _call(conv, f, *args):
    try:
        return conv(f(*args))
    except Exception as e:  # noqa
        return 'E:' + err_kind(e)


def _floats(a):
    if isinstance(a, np.ma.MaskedArray):     # "missing" expressed as a mask is as good as NaN
        a = a.astype(float).filled(np.nan)
    a = np.asarray(a, dtype=float)
    return ['nan' if not np.isfinite(v) else proto.rat(v) for v in a]


VDTYPES = {'bool': bool, 'int': int}     # selection flags as booleans or as 0/1 integers (the 'is_good' metric)


def _table(cs, cva, sv, ch, vc, vs, vh):
    n, K = len(cva), len(sv)
    S = int(sv.max()) + 1 if len(sv) else 0
    C = int(ch.max()) + 1 if len(ch) else 0
    t = [[str(int(v)) for v in sv], [str(int(v)) for v in ch]]
    t.append([_call(_scalar, cs.map_sample_to_cycle, cva, i) for i in range(n + 1)])
    t.append([_call(_lst, cs.map_cycle_to_samples, cva, k) for k in range(K + 1)])
    t.append([_call(_lst, cs.map_subset_to_cycle, sv, j) for j in range(S + 1)])
    t.append([_call(_scalar, cs.map_cycle_to_subset, sv, k) for k in range(K + 1)])
    t.append([_call(_lst, cs.map_subset_to_sample, sv, cva, j) for j in range(S + 1)])
    t.append([_call(_scalar, cs.map_sample_to_subset, sv, cva, i) for i in range(n + 1)])
    t.append([_call(_lst, cs.map_chain_to_subset, ch, c) for c in range(C + 1)])
    t.append([_call(_scalar, cs.map_subset_to_chain, ch, j) for j in range(S + 1)])
    t.append([_call(_scalar, cs.map_cycle_to_chain, ch, sv, k) for k in range(K + 1)])
    t.append([_call(_lst, cs.map_chain_to_cycle, ch, sv, c) for c in range(C + 1)])
    t.append([_call(_lst, cs.map_chain_to_samples, ch, sv, cva, c) for c in range(C + 1)])
    t.append([_call(_scalar, cs.map_sample_to_chain, ch, sv, cva, i) for i in range(n + 1)])
    for f, args in ((cs.project_cycles_to_samples, (vc, cva)), (cs.project_subset_to_cycles, (vs, sv)),
                    (cs.project_subset_to_samples, (vs, sv, cva)), (cs.project_chain_to_subset, (vh, ch)),
                    (cs.project_chain_to_cycles, (vh, ch, sv)), (cs.project_chain_to_samples, (vh, ch, sv, cva))):
        try:
            t.append(_floats(f(*args)))
        except Exception as e:  # noqa
            t.append(['E:' + err_kind(e)])
    return S, C, t


def impl_table(cv, valids, vc, vs, vh, vd='bool', prev=None):
    """Every map on every index 0..size (one past the end included) + the six projections,
    from the real emd functions; same token layout as the model's MAPS answer.

    vd: dtype of the selection flags handed to get_subset_vector ('bool' or 0/1 'int').
    prev: (cv', valids') of an EARLIER labelling of the same recording: the maps are first used on the label /
    subset / chain arrays holding that labelling, then the SAME array objects are relabelled in place (where the
    sizes allow) and the table is taken - the answers must describe the structure as it is now.
    All arrays are handed over writable; whether a routine wrote into one is reported separately ('mutated')."""
    import emd
    from emd import _cycles_support as cs
    va = np.array(valids, dtype=VDTYPES[vd])
    va0 = va.copy()
    sv = emd.cycles.get_subset_vector(va)
    ch = emd.cycles.get_chain_vector(sv)
    cva = np.array(cv, dtype=int)
    vc, vs, vh = (np.array(v, dtype=float) for v in (vc, vs, vh))
    if prev is not None and len(prev[0]) == len(cv):
        pcv, pv = prev
        cva = np.array(pcv, dtype=int)
        psv = emd.cycles.get_subset_vector(np.array(pv, dtype=VDTYPES[vd]))
        pch = emd.cycles.get_chain_vector(psv)
        pS, pC = sizes(pv)
        try:
            _table(cs, cva, psv, pch, *(np.array(v, dtype=float) for v in default_vals(len(pv), pS, pC)))
        except Exception:  # noqa - the earlier labelling is only a history, it is not judged
            pass
        cva[...] = cv                             # relabel the same array object in place
        if np.shape(psv) == np.shape(sv) and np.shape(pch) == np.shape(ch):
            psv[...] = sv
            pch[...] = ch
            sv, ch = psv, pch
    snap = [a.copy() for a in (cva, sv, ch, vc, vs, vh)]
    S, C, t = _table(cs, cva, sv, ch, vc, vs, vh)
    mutated = [nm for nm, a, b in zip(('cycle_vect', 'subset_vect', 'chain_vect', 'cycle_vals', 'subset_vals', 'chain_vals'),
                                      (cva, sv, ch, vc, vs, vh), snap) if not np.array_equal(a, b, equal_nan=True)]
    if not np.array_equal(va, va0):
        mutated.append('valids')
    return {'S': S, 'C': C, 'table': t, 'mutated': mutated}


def maps_op(cv, valids, vc, vs, vh, vd='bool'):
    """vd='int': the selection reaches the model as the integer flags themselves (Maps.subsetVectorFlags: 0 = unselected, as
    the implementation's `valids[ii] == 0`; theorem C16.integer_flags_select_like_booleans), not as booleans"""
    if vd == 'int':
        return proto.op('MAPS', {'flags': 'int'}, [cv, [int(v) for v in valids], vc, vs, vh])
    return proto.op('MAPS', {}, [cv, [int(bool(v)) for v in valids], vc, vs, vh])


def model_table(result):
    """Token table of a MAPS answer (raw tokens, so that 'E:...' and '1,2' survive)."""
    segs = result.raw.split('|')[1:]
    return [s.split() for s in segs]


# level whose items index each map slot / each projection's value vector
LEVEL = {'sample_to_cycle': 'n', 'cycle_to_samples': 'K', 'subset_to_cycle': 'S', 'cycle_to_subset': 'K',
         'subset_to_sample': 'S', 'sample_to_subset': 'n', 'chain_to_subset': 'C', 'subset_to_chain': 'S',
         'cycle_to_chain': 'K', 'chain_to_cycle': 'C', 'chain_to_samples': 'C', 'sample_to_chain': 'n'}
BACKWARD = ('cycle_to_samples', 'subset_to_cycle', 'subset_to_sample', 'chain_to_subset', 'chain_to_cycle', 'chain_to_samples')
PROJ_VALS = {'project_cycles_to_samples': 'K', 'project_subset_to_cycles': 'S', 'project_subset_to_samples': 'S',
             'project_chain_to_subset': 'C', 'project_chain_to_cycles': 'C', 'project_chain_to_samples': 'C'}
PROJ_ARG = {'project_cycles_to_samples': 0, 'project_subset_to_cycles': 1, 'project_subset_to_samples': 1,
            'project_chain_to_subset': 2, 'project_chain_to_cycles': 2, 'project_chain_to_samples': 2}


def well_formed(cv, valids):
    """The structures the property speaks about: cycles 0..K-1 as contiguous blocks in time order (optional -1
    gaps anywhere) and one selection flag per cycle."""
    blocks = [k for k, _ in itertools.groupby(cv) if k != -1]
    return blocks == list(range(len(valids)))


def level_sizes(cv, valids):
    S, C = sizes(valids)
    return {'n': len(cv), 'K': len(valids), 'S': S, 'C': C}


def _tok_class(t):
    return t if t.startswith('E:') or t in ('none', '') else ('empty' if t == '-' else 'value')


def _canon(slot, tok):
    if slot in BACKWARD and ',' in tok and ':' not in tok:
        try:
            return ','.join(str(v) for v in sorted(int(v) for v in tok.split(',')))
        except ValueError:
            return tok
    return tok


def first_raw_diff(impl, model):
    """first differing slot over the whole tables (used for tags on inputs outside the property's domain)"""
    if len(impl) != len(model):
        return 'slot-count'
    for name, a, b in zip(SLOTS, impl, model):
        if a != b:
            return name
    return None


def diff_tables(impl, model, cv, valids, vals):
    """Model vs implementation on what the property speaks about: the two constructed vectors, every map on every
    *existing* index of its level, every projection of a value vector that has one value per item of its level.
    Returns (disagreement or None, notes) - notes name what differs outside that domain (index one past the end,
    value vectors of another length); they go to the evidence as tags and are never a disagreement."""
    notes = []
    if len(impl) != len(model):
        return 'slot count %d vs %d' % (len(impl), len(model)), notes
    sz = level_sizes(cv, valids)
    first = None
    for name, a, b in zip(SLOTS, impl, model):
        if name in LEVEL:
            m = sz[LEVEL[name]]
            if len(a) < m or len(b) < m:
                first = first or '%s: %d / %d answers for %d existing indices' % (name, len(a), len(b), m)
                continue
            for idx in range(m):
                if _canon(name, a[idx]) != _canon(name, b[idx]):
                    first = first or '%s[%d]: impl=%s model=%s' % (name, idx, a[idx], b[idx])
                    break
            if a[m:] != b[m:]:
                notes.append('outside-domain:index-past-the-end:%s:impl=%s:model=%s'
                             % (name, _tok_class(''.join(a[m:m + 1])), _tok_class(''.join(b[m:m + 1]))))
        elif name in PROJ_VALS:
            if len(vals[PROJ_ARG[name]]) != sz[PROJ_VALS[name]]:
                if a != b:
                    notes.append('outside-domain:value-vector-of-other-length:%s:differs' % name)
                continue
            if a != b:
                for idx, (x, y) in enumerate(itertools.zip_longest(a, b)):
                    if x != y:
                        first = first or '%s[%d]: impl=%s model=%s' % (name, idx, x, y)
                        break
        elif a != b:
            for idx, (x, y) in enumerate(itertools.zip_longest(a, b)):
                if x != y:
                    first = first or '%s[%d]: impl=%s model=%s' % (name, idx, x, y)
                    break
    return first, notes


# ----------------------------------------------------------------------------- oracle

def oracle(cv, valids):
    """Set-theoretic definitions of the four levels, straight from the property's words."""
    n, K = len(cv), len(valids)
    cyc_of = [c if c >= 0 else None for c in cv]
    samples_of = [[i for i in range(n) if cv[i] == k] for k in range(K)]
    sel = [k for k in range(K) if valids[k]]
    sub_of = [sel.index(k) if valids[k] else None for k in range(K)]
    chains = []                       # chain -> list of subset indices
    for j, k in enumerate(sel):
        if j > 0 and sel[j - 1] == k - 1:
            chains[-1].append(j)
        else:
            chains.append([j])
    chain_of_sub = [None] * len(sel)
    for c, js in enumerate(chains):
        for j in js:
            chain_of_sub[j] = c
    return dict(n=n, K=K, S=len(sel), C=len(chains), cyc_of=cyc_of, samples_of=samples_of, sel=sel,
                sub_of=sub_of, chains=chains, chain_of_sub=chain_of_sub)


def _ptok(t):
    """token -> python value: None, int, list[int], or the raw string for errors / oddities"""
    if t == 'none':
        return None
    if t == '-':
        return []
    if t.startswith('E:') or ':' in t:
        return t
    if ',' in t:
        return [int(v) for v in t.split(',')]
    return int(t)


def _as_list(v):
    return [v] if isinstance(v, int) else v


def check_instance(cv, valids, vc, vs, vh, out):
    """C16's own words on the implementation's answers. Returns list[Failure]."""
    o = oracle(cv, valids)
    T = dict(zip(SLOTS, out['table']))
    n, K, S, C = o['n'], o['K'], o['S'], o['C']
    SZ = {'n': n, 'K': K, 'S': S, 'C': C}
    fs = {}
    if not well_formed(cv, valids):      # the property speaks about well-formed structures only
        return []

    # an empty recording / a recording without any cycle has no "existing" cycle, subset-cycle or chain: what the
    # routines do there is a mechanism-level observation (kept in the correspondence), not the property's words
    degenerate = (n == 0 or K == 0)

    def fail(kind, detail, literal=True):
        fs.setdefault(kind, Failure(kind, 'cv=%s valids=%s: %s' % (cv, [int(bool(v)) for v in valids], detail),
                                    literal=literal and not degenerate))

    # How get_subset_vector / get_chain_vector NUMBER the subset cycles and chains is C15's statement; C16 speaks
    # about the maps on the resulting structure (checked below against the set-theoretic definitions): mechanism-level.
    if [int(t) for t in T['subset_vect']] != [(-1 if s is None else s) for s in o['sub_of']]:
        fail('subset_vect:not-rank-among-selected', 'got %s' % T['subset_vect'], literal=False)
    if [int(t) for t in T['chain_vect']] != o['chain_of_sub']:
        fail('chain_vect:not-maximal-runs', 'got %s' % T['chain_vect'], literal=False)
    if out['S'] != S or out['C'] != C:
        fail('sizes:max-plus-one-differs', 'S=%s C=%s expected %s %s' % (out['S'], out['C'], S, C), literal=False)
    for nm in out.get('mutated', []):      # the property does not speak about side effects on the arguments (C19 does)
        fail('argument-modified:%s' % nm, 'array changed by the map / projection calls', literal=False)

    def get(slot, idx):
        row = T[slot]
        return _ptok(row[idx]) if idx < len(row) else 'E:no-entry'

    def defined(slot, idx, what):
        v = get(slot, idx)
        if isinstance(v, str):
            single = ''
            if slot == 'chain_to_cycle' and len(o['chains'][idx]) == 1:
                single = ':single-cycle-chain'
            fail('%s:not-defined:%s%s' % (slot, v.replace('E:', 'raises:'), single), '%s %d' % (what, idx))
            return False
        return True

    # expected values for every existing index
    exp_sub_of_sample = [None if c is None else o['sub_of'][c] for c in o['cyc_of']]
    exp_chain_of_cycle = [None if s is None else o['chain_of_sub'][s] for s in o['sub_of']]
    exp_chain_of_sample = [None if c is None else exp_chain_of_cycle[c] for c in o['cyc_of']]
    cycles_of_chain = [[o['sel'][j] for j in js] for js in o['chains']]
    samples_of_chain = [[i for k in ks for i in o['samples_of'][k]] for ks in cycles_of_chain]

    forward = [('sample_to_cycle', n, o['cyc_of'], 'sample'),
               ('cycle_to_subset', K, o['sub_of'], 'cycle'),
               ('sample_to_subset', n, exp_sub_of_sample, 'sample'),
               ('subset_to_chain', S, o['chain_of_sub'], 'subset cycle'),
               ('cycle_to_chain', K, exp_chain_of_cycle, 'cycle'),
               ('sample_to_chain', n, exp_chain_of_sample, 'sample')]
    for slot, size, exp, what in forward:
        for idx in range(size):
            if not defined(slot, idx, what):
                continue
            v = get(slot, idx)
            if exp[idx] is None and v is not None:
                why = 'unlabelled-sample' if (what == 'sample' and o['cyc_of'][idx] is None) else 'unselected-cycle'
                fail('%s:%s-not-none' % (slot, why), '%s %d -> %s' % (what, idx, v))
            elif exp[idx] is not None and v is None:
                fail('%s:none-for-member' % slot, '%s %d' % (what, idx))
            elif v != exp[idx]:
                fail('%s:wrong-target' % slot, '%s %d -> %s, expected %s' % (what, idx, v, exp[idx]))

    backward = [('cycle_to_samples', K, o['samples_of'], 'cycle'),
                ('subset_to_cycle', S, [[k] for k in o['sel']], 'subset cycle'),
                ('subset_to_sample', S, [o['samples_of'][k] for k in o['sel']], 'subset cycle'),
                ('chain_to_subset', C, o['chains'], 'chain'),
                ('chain_to_cycle', C, cycles_of_chain, 'chain'),
                ('chain_to_samples', C, samples_of_chain, 'chain')]
    for slot, size, exp, what in backward:
        for idx in range(size):
            if not defined(slot, idx, what):
                continue
            v = get(slot, idx)
            if v is None or sorted(_as_list(v)) != sorted(exp[idx]):
                fail('%s:wrong-members' % slot, '%s %d -> %s, expected %s' % (what, idx, v, exp[idx]))

    # round trips: i in back(forward(i))
    trips = [('sample_to_cycle', 'cycle_to_samples', n), ('sample_to_subset', 'subset_to_sample', n),
             ('sample_to_chain', 'chain_to_samples', n), ('cycle_to_subset', 'subset_to_cycle', K),
             ('cycle_to_chain', 'chain_to_cycle', K), ('subset_to_chain', 'chain_to_subset', S)]
    for fwd, back, size in trips:
        for idx in range(size):
            f = get(fwd, idx)
            if f is None or isinstance(f, str):
                continue
            if not isinstance(f, int) or f < 0 or f >= SZ[LEVEL[back]]:
                fail('roundtrip:%s:%s:forward-out-of-range' % (fwd, back), 'index %d -> %s' % (idx, f))
                continue
            b = get(back, f)
            if isinstance(b, str) or b is None or idx not in _as_list(b):
                fail('roundtrip:%s:%s:original-missing' % (fwd, back), 'index %d -> %s -> %s' % (idx, f, b))

    # projections: value on exactly the items that map to it, missing elsewhere
    def proj(slot, vals, fwd_exp):
        got = T[slot]
        if len(vals) != SZ[PROJ_VALS[slot]]:
            return      # not one value per item of the level: outside the property (recorded as a tag by the caller)
        if got and got[0].startswith('E:'):
            fail('%s:raises:%s' % (slot, got[0][2:]), '')
            return
        want = ['nan' if (e is None or e >= len(vals)) else proto.rat(float(vals[e])) for e in fwd_exp]
        if got != want:
            bad = [i for i, (a, b) in enumerate(itertools.zip_longest(got, want)) if a != b]
            i = bad[0]
            if i < len(want) and i < len(got):
                kind = 'value-on-item-that-does-not-map' if want[i] == 'nan' else (
                    'item-left-missing' if got[i] == 'nan' else 'wrong-value')
            else:
                kind = 'wrong-length'
            fail('%s:%s' % (slot, kind), 'item %d: got %s expected %s' % (i, got[i:i + 1], want[i:i + 1]))
    proj('project_cycles_to_samples', vc, o['cyc_of'])
    proj('project_subset_to_cycles', vs, o['sub_of'])
    proj('project_subset_to_samples', vs, exp_sub_of_sample)
    proj('project_chain_to_subset', vh, o['chain_of_sub'])
    proj('project_chain_to_cycles', vh, exp_chain_of_cycle)
    proj('project_chain_to_samples', vh, exp_chain_of_sample)
    return list(fs.values())
