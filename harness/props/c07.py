"""C07 — masked sift applies documented masks, removes them, is schedule independent."""
import multiprocessing as mp
import os

import numpy as np

from common import proto
from common.framework import Failure, ImplError, Stream, case_key
from props import _msk

ID = 'C07'
LEAN_MODULES = ['Proofs.C07']
REQUIRED = ['C07.pool_map_schedule_indep', 'C07.getNextImfMask_spec', 'C07.getNextImfMask_flag',
            # the documented waveform: phase grid, argument, amplitude as model definitions over the single oracle cosTurn
            'C07.mask_phases_equally_spaced', 'C07.mask_phase_grid', 'C07.getNextImfMask_wave_spec', 'C07.mask_shift_closed',
            'C07.maskSift_peel_wave',
            'C07.getNextImfMask_schedule_indep', 'C07.getNextImfMask_zero_amp',
            'C07.maskFreqs_ladder', 'C07.maskFreqs_user_list', 'C07.maskAmp_modes',
            'C07.maskSift_peel', 'C07.maskSift_returns_used_freqs', 'C07.maskSift_schedule_indep',
            # cross-model consistency with the Sift model's mask_sift loop (C03)
            'C07.maskSift_agrees_with_sift_model', 'C07.maskSift_iff_sift_model', 'C07.maskSift_cap_nested',
            'C07.maskSift_cols_le_cap_sift_model', 'C07.maskSift_col_eq_extract_sift_model',
            # composition with get_next_imf of the Sift model (C04) / envelopes of the Extrema model (C05)
            'C07.getNextImfMask_over_getNextImf_spec', 'C07.getNextImfMask_over_getNextImf_fixed',
            'C07.getNextImfMask_over_getNextImf_zero_amp', 'C07.getNextImfMask_pipeline_zero_amp',
            'C07.getNextImfMask_over_getNextImf_flag',
            # a zero mask FREQUENCY is a constant mask, not "no mask" (seeded C07-6); ratio_sig: every mask amplitude is the
            # supplied ratio times the deviation of the INPUT (seeded C07-5 / C03-6: amplitudes rescaled by earlier calls)
            'C07.getNextImfMask_zero_freq', 'C07.maskSift_ratioSig_amplitudes']
TRUSTED = [
    'oracle: single-IMF extraction X = the real emd.sift.get_next_imf, tabulated on the masked signals of the same run '
    '(looked up by argument within 1e-9)',
    'oracle: cosTurn(x) = cos(2 pi x) — the ONLY numerical ingredient of a mask. The phase grid i/nphases, the argument z t + i/nphases '
    'and the amplitude factor are definitions of the model (Mask.maskPhase / unitOf / waveMask, theorem C07.mask_phase_grid); the harness '
    'supplies numpy cosine values at the points f t + i/p of the run (GNIM: keyed by (t, i); MASKSIFT: by (f, i, t)) and the driver looks '
    'them up by argument (exactly for GNIM, within 1e-12 for the ladder frequencies, which the model computes in exact rationals); '
    'cos(a + pi) = -cos(a) is validated on the tables (stream cos_oracle, kind oracle:cos-half-turn), and the masks the implementation '
    'really adds are observed at the public get_next_imf and compared with the waveform (kind mask-not-documented-waveform)',
    'oracle: np.std (tabulated on the signal and on every column)',
    'oracle: get_mask_freqs for the zc / if sources (the first frequency is taken from the public function)',
    'multiprocessing.Pool.starmap modelled as: every job executed exactly once by some worker, results collected by job index',
]
ASSUMPTIONS = [
    'get_next_imf is a pure job (reads no global mutable state): validated by bitwise comparison of get_next_imf_mask / '
    'mask_sift outputs across nprocesses 1..8 with randomised worker delays',
    'Pool.starmap returns results in argument order whatever the worker assignment: validated on the real pool with '
    'randomised delays (stream pool_order), observed schedules replayed through the model',
    'real OS scheduling is sampled (nprocesses 1..8, random delays), not enumerated; the theorem covers every schedule of the model',
    'envelope_opts / extrema_opts are not exercised here (DESIGN 9-D5 belongs to C06)',
    'mechanism-level (literal=False) kinds: gnim-flag-not-any, masksift-wrong-column-count, more-columns-than-cap (stop rule: C03), '
    'mask-phases-not-the-documented-grid / mask-not-documented-waveform (observed through the module attribute emd.sift.get_next_imf; '
    'an untraceable implementation is tagged, not judged), oracle:*, starmap-not-in-argument-order; time-outs are tagged, not judged',
]
RULE = ('signals: tones/chirp/noise/walk/intermittent/dyadic/offset families, n in 16..256 (quick) / ..512 (thorough), 3 scales, plus 30% very short (6..12 samples, mixed continue flags) for get_next_imf_mask; '
        'get_next_imf_mask: z in (0, 0.5) incl. 0.25 and 0, amp incl. 0, nphases 1..8, imf_opts from 5 settings; '
        'mask_sift: frequency source zc / if / float / list, step factor 2, 3, 1.5, amplitude mode abs / ratio_sig / ratio_imf, '
        'scalar and array amplitudes, cap 1..6, nphases 1..8 (15% forced to 1), 30% of the explicit lists contain a zero frequency '
        '(constant mask, as in the docstring example); every case is run with nprocesses = 1 and further values in 2..8 '
        '(all of 1..8 in the thorough tier), one call after the other WITH THE SAME ARGUMENT OBJECTS (signal, amplitude array, '
        'frequency list), and compared bitwise; a later call that differs is judged by the documented rule as well. 30% of the mask_sift signals are handed '
        'over as STORED by recording systems - int16 / int64 sample counts (whole numbers, scale 60..2000) or float32 (absolute amplitude mode: '
        'np.std of a float32 array is single precision) - and judged against the float64 rule on the stored values, tolerance relative to the signal scale. Malformed stream: nphases 0, short amplitude array, short '
        'frequency list, first frequency outside (0, 0.5). Non-trivial: nphases >= 2 and non-zero amplitude and >= 2 process counts.')

SIZES_Q = [16, 32, 48, 64, 100, 128, 256]
SIZES_T = SIZES_Q + [200, 400, 512]


def _nprocs(rng, tier):
    if tier == 'thorough':
        return list(range(1, 9))
    return [1] + sorted(rng.sample(range(2, 9), 2))


def _tol(x, extra=0.0):
    return _msk.TOL * max(1.0, _msk.max_abs(x) + extra)


STORES = ('int16', 'int64', 'float32')


def _stored(case):
    """(values, stored): the signal of the case as float64 VALUES (what the documented rule, the model and every oracle
    compute on) and as the array object handed to the library. case['store'] in STORES: the same values kept the way
    recordings are kept on disk - integer sample counts (int16 / int64: the family signal rounded to whole numbers) or
    single-precision floats (the float32-representable values ARE the data). A signal stored in another numeric type is
    still a signal of the quantifier: the masked IMFs are judged against the float64 rule on its values."""
    base = _msk.make_signal(case['sig'])
    st = case.get('store')
    if st is None:
        return base, base
    if st == 'float32':
        xs = np.ascontiguousarray(base, dtype=np.float32)
    elif st in ('int16', 'int64'):
        xs = np.ascontiguousarray(np.round(np.clip(base, -32000, 32000)), dtype=st)
    else:
        raise ValueError(st)
    return np.ascontiguousarray(xs, dtype=float), xs


def _is_timeout(out):
    return isinstance(out, ImplError) and 'imeout' in str(out.get('error'))


def _guarded(holds):
    """a crash of the instance check itself (harness bug, unexpected but legal output container) is never a property violation"""
    def wrapped(self, case, out):
        try:
            return holds(self, case, out)
        except Exception as ex:  # noqa
            return [Failure('instance-check-crashed', repr(ex), literal=False)]
    wrapped.__name__ = holds.__name__
    return wrapped


class _Cached(Stream):
    parallel = False          # the functions under test create their own pools

    def __init__(self):
        self._cache = {}

    def _memo(self, case, fn):
        k = case_key(case)
        if k not in self._cache:
            if len(self._cache) > 4:
                self._cache.clear()
            self._cache[k] = fn()
        return self._cache[k]


class Gnim(_Cached):
    """get_next_imf_mask vs the phase-average rule."""
    name = 'gnim'
    timeout_s = 120

    def corpus(self):
        s = {'fam': 'tones', 'n': 64, 'seed': 7, 'scale': 1.0}
        d = {'fam': 'dyadic', 'n': 32, 'seed': 3, 'scale': 1.0}
        base = {'sig': s, 'z': 0.2, 'amp': 1.0, 'nphases': 4, 'nprocs': [1, 2, 4], 'opts': 0, 'delay': True}
        return [
            base,
            dict(base, amp=0.0),                                  # zero amplitude = unmasked extraction
            dict(base, amp=0.0, nphases=3),
            dict(base, nphases=1),
            dict(base, nphases=8, nprocs=[1, 8, 3]),
            dict(base, nphases=3, z=0.25, nprocs=[1, 5]),
            dict(base, sig=d, z=0.125, amp=2.0, nphases=2),
            dict(base, z=0.0, amp=0.5),                            # constant masks
            dict(base, sig={'fam': 'offset', 'n': 48, 'seed': 1, 'scale': 1.0}, opts=2),
            dict(base, nphases=0, malformed=True),                 # rejected input: ValueError
            dict(base, sig={'fam': 'walk', 'n': 16, 'seed': 5, 'scale': 1.0}, amp=5.0, nphases=5),
        ]

    def generate(self, rng, tier):
        n_cases = 300 if tier == 'thorough' else 60
        sizes = SIZES_T if tier == 'thorough' else SIZES_Q
        for _ in range(n_cases):
            sig = _msk.rand_signal_spec(rng, sizes)
            if rng.random() < 0.3:      # very short signals: the extractions' continue flags differ between phases
                sig.update(n=rng.choice([6, 8, 10, 12]), fam=rng.choice(['walk', 'noise', 'tones']))
            r = rng.random()
            z = 0.25 if r < 0.1 else 0.0 if r < 0.13 else rng.uniform(0.005, 0.49)
            r = rng.random()
            amp = 0.0 if r < 0.15 else rng.uniform(0.05, 3.0) * sig['scale']
            case = {'sig': sig, 'z': z, 'amp': amp, 'nphases': rng.randint(1, 8), 'nprocs': _nprocs(rng, tier),
                    'opts': rng.randrange(len(_msk.IMF_OPTS)), 'delay': rng.random() < 0.6}
            if rng.random() < 0.04:
                case['nphases'] = 0
                case['malformed'] = True
            yield case

    def impl(self, case):
        import emd
        x = _msk.make_signal(case['sig'])
        opts = dict(_msk.IMF_OPTS[case['opts']])
        ref = None
        same = []

        def before(a, k):
            if case.get('delay'):
                _msk.jitter()
        with _msk.wrapped_public(emd.sift, 'get_next_imf', before), _msk.time_limit(60):
            for i, npr in enumerate(case['nprocs']):
                arg = x                 # the documented "1D input array", the same for every run
                imf, flag = emd.sift.get_next_imf_mask(arg, case['z'], case['amp'], nphases=case['nphases'],
                                                       nprocesses=npr, imf_opts=opts)
                imf = np.asarray(imf)
                if ref is None:
                    ref = (imf.copy(), bool(flag))
                same.append(bool(imf.shape == ref[0].shape and _msk.sha(imf) == _msk.sha(ref[0])
                                 and bool(flag) == ref[1]))
        return {'imf': _msk.vlist(ref[0]), 'shape': list(ref[0].shape), 'flag': ref[1], 'same': same}

    def _spec(self, case):
        def run():
            x = _msk.make_signal(case['sig'])
            opts = dict(_msk.IMF_OPTS[case['opts']])
            if case['nphases'] == 0:
                return x, None
            return x, _msk.spec_gnim(x, case['z'], case['amp'], case['nphases'], opts)
        return self._memo(case, run)

    def ops(self, case, out):
        x, sp = self._spec(case)
        if sp is None:
            return [proto.op('GNIM', {'p': 0, 'tol': _msk.TOL, 'rot': 0, 'z': case['z'], 'amp': case['amp']}, [_msk.vlist(x)])]
        imf, flag, rows = sp
        return [_msk.gnim_op(x, case['z'], case['amp'], case['nphases'], rows, _tol(x, abs(case['amp'])),
                             len(case['nprocs']) + case['nphases'])]

    def compare(self, case, out, results):
        r = results[0]
        x, sp = self._spec(case)
        if isinstance(out, ImplError):
            if out['error'] == 'EMDSiftCovergeError':
                return 'skip:an underlying extraction did not converge within max_iters (documented error, C04)'
            if _is_timeout(out):
                return 'skip:run time is not the property\'s subject'
            if r.status == 'err':
                return None       # both refuse the input: the property fixes no exception class
            if case.get('malformed'):
                return 'skip:input outside the quantifier: the implementation refuses it (%s), the model does not' % out['error']
            return 'implementation raised %s, model says %s' % (out['error'], r.raw[:100])
        if not r.ok:
            if case.get('malformed') and r.status == 'err':
                return 'skip:input outside the quantifier: the model refuses it, the implementation returns a result'
            return 'model: %s, implementation returned a result' % r.raw[:100]
        if out['shape'] != [len(x), 1]:
            return 'result shape %s' % out['shape']
        if int(r.args['flag']) != int(out['flag']):
            return 'flag: model %s impl %s' % (r.args['flag'], out['flag'])
        if not _msk.frac_close(r.vecs[0], out['imf'], _tol(x, abs(case['amp']))):
            d = max(abs(float(a) - b) for a, b in zip(r.vecs[0], out['imf']))
            return 'masked IMF differs from the model by %.3g' % d
        return None

    @_guarded
    def holds(self, case, out):
        if case.get('malformed'):
            return []
        if isinstance(out, ImplError):
            if out['error'] == 'EMDSiftCovergeError':
                return []      # the documented non-convergence error of an underlying extraction: not a C07 matter (C04)
            if _is_timeout(out):
                return []      # run time is not the property's subject (tagged)
            return [Failure('raises:' + out['error'], out['msg'])]
        x, (imf, flag, rows) = self._spec(case)
        fs = []
        tol = _tol(x, abs(case['amp']))
        got = np.array(out['imf'])
        if got.shape != imf.shape or np.max(np.abs(got - imf)) > tol:
            fs.append(Failure('gnim-not-phase-average-of-demasked-extractions',
                              'max deviation %.3g from mean_i(extract(x+m_i)-m_i), nphases=%d z=%r amp=%r'
                              % (np.max(np.abs(got - imf)) if got.shape == imf.shape else float('nan'),
                                 case['nphases'], case['z'], case['amp'])))
        if bool(out['flag']) != bool(flag):
            # the statement specifies the IMF only; how the phases' continue flags are combined is anchored mechanism
            fs.append(Failure('gnim-flag-not-any', 'flags %s, returned %s' % ([r[3] for r in rows], out['flag']), literal=False))
        if case['amp'] == 0:
            base, bflag = _msk.extract(x, dict(_msk.IMF_OPTS[case['opts']]))
            # "reduces to unmasked extraction" holds to within rounding of the phase average: bit-exactness (even for a
            # power-of-two number of phases) depends on the summation order and is not demanded (harmless rewrite C07-2)
            dev = np.max(np.abs(got - base))
            if dev > 1e-12 * max(1.0, _msk.max_abs(x)):
                fs.append(Failure('zero-amp-differs-from-unmasked', 'deviation %.3g, nphases=%d' % (dev, case['nphases'])))
            elif bool(out['flag']) != bflag:
                fs.append(Failure('zero-amp-flag-differs-from-unmasked', 'flag %s, unmasked %s' % (out['flag'], bflag), literal=False))
        if not all(out['same']):
            bad = [n for n, s in zip(case['nprocs'], out['same']) if not s]
            fs.append(Failure('nprocesses-changes-result', 'output differs bitwise from nprocesses=%d for nprocesses in %s'
                              % (case['nprocs'][0], bad)))
        return fs

    def tags(self, case, out):
        t = ['nphases=%d' % case['nphases'], 'fam=' + case['sig']['fam'], 'opts=%d' % case['opts'],
             'amp=0' if case['amp'] == 0 else 'amp>0', 'nprocs=%d' % len(case['nprocs']),
             'delay' if case.get('delay') else 'no-delay']
        if isinstance(out, ImplError):
            t.append('error=' + out['error'])
            if _is_timeout(out):
                t.append('timeout-not-judged')
        else:
            t.append('flag=%d' % int(out['flag']))
            sp = self._spec(case)[1]
            if sp is not None:
                fl = [r[3] for r in sp[2]]
                t.append('phase-flags=' + ('mixed' if any(fl) and not all(fl) else 'uniform'))
        return t

    def nontrivial(self, case, out):
        return case['nphases'] >= 2 and case['amp'] != 0 and len(case['nprocs']) >= 2 and not isinstance(out, ImplError)

    def shrink(self, case):
        if len(case['nprocs']) > 2:
            yield dict(case, nprocs=case['nprocs'][:2])
        if case['sig']['n'] > 16:
            yield dict(case, sig=dict(case['sig'], n=max(16, case['sig']['n'] // 2)))
        if case['opts'] != 0:
            yield dict(case, opts=0)
        if case.get('delay'):
            yield dict(case, delay=False)


class MaskSift(_Cached):
    """mask_sift(ret_mask_freq=True) vs ladder / amplitude modes / peeling."""
    name = 'masksift'
    timeout_s = 300

    def corpus(self):
        s = {'fam': 'tones', 'n': 128, 'seed': 11, 'scale': 1.0}
        base = {'sig': s, 'amp': 1.0, 'mode': 'ratio_imf', 'freqs': 'zc', 'step': 2, 'cap': 4, 'thresh': 1e-8,
                'nphases': 4, 'nprocs': [1, 3], 'opts': 0, 'delay': True}
        return [
            base,
            dict(base, freqs=0.4, step=3, mode='ratio_sig'),
            dict(base, freqs=0.3, step=1.5, mode='abs', amp=0.7, nphases=3),
            dict(base, freqs=[0.4, 0.2, 0.1, 0.05, 0.025, 0.0], amp=[2, 2, 1, 1, 0.5, 0.5], mode='abs', cap=9),   # docstring example
            dict(base, freqs=[0.3, 0.12], cap=5),                  # cap lowered to the list length
            dict(base, freqs='if', cap=3, nphases=2),
            dict(base, amp=0.0, freqs=0.25, cap=3),                # zero amplitude: plain peeling
            dict(base, amp=[1.0, 0.5, 0.25], mode='ratio_imf', freqs=0.35, cap=3, nphases=5, nprocs=[1, 8]),
            dict(base, cap=1),
            dict(base, thresh=1e6),                                # threshold stops after the first column
            dict(base, sig={'fam': 'offset', 'n': 64, 'seed': 2, 'scale': 1.0}, freqs='zc', cap=3),   # z = 0
            # round-3 change C07/1 (a float64 amplitude array scaled in place by std(x) in 'ratio_sig' mode: the first call is
            # right, every later call that is handed the same array uses amplitudes ratio*std^2, ratio*std^3, ...)
            dict(base, amp=[0.5, 2.0, 1.25, 1.0], mode='ratio_sig', freqs=0.35, cap=3, nprocs=[1, 2, 3]),
            dict(base, sig={'fam': 'chirp', 'n': 100, 'seed': 5, 'scale': 250.0}, amp=[1.0, 0.5, 0.25], mode='ratio_sig', freqs='zc',
                 cap=3, nphases=2, nprocs=[1, 2]),
            # round-3 change C07/2 (zero mask FREQUENCY treated like zero amplitude): a zero-frequency mask is the constant
            # amp*cos(phase); with a single phase the masked IMF is extract(x + amp) - amp, not extract(x)
            dict(base, freqs=[0.3, 0.0, 0.1], amp=0.75, mode='abs', nphases=1, cap=3, nprocs=[1, 2]),
            dict(base, freqs=[0.0, 0.2], amp=[0.5, 1.0], mode='ratio_sig', nphases=1, cap=2, nprocs=[1, 2]),
            dict(base, freqs=[0.4, 0.2, 0.0], amp=1.0, mode='ratio_imf', nphases=1, cap=3, nprocs=[1, 2]),
            dict(base, freqs=[0.4, 0.0, 0.0], amp=2.0, mode='abs', nphases=3, cap=3, nprocs=[1, 4]),
            # round-5 change C07/2 (IMF buffer pre-allocated with the dtype of the input: the masked IMFs of an integer-stored
            # signal are truncated to whole numbers, those of a float32-stored signal rounded to single precision)
            dict(base, sig={'fam': 'tones', 'n': 128, 'seed': 11, 'scale': 60.0}, store='int16', cap=3, nprocs=[1, 2]),
            dict(base, sig={'fam': 'chirp', 'n': 100, 'seed': 5, 'scale': 2000.0}, store='int64', freqs=0.4, step=3, mode='ratio_sig',
                 amp=0.7, cap=3, nphases=3, nprocs=[1, 2]),
            dict(base, sig={'fam': 'walk', 'n': 64, 'seed': 9, 'scale': 250.0}, store='int16', freqs=[0.3, 0.12, 0.05], mode='abs',
                 amp=[100.0, 60.0, 30.0], cap=3, nphases=2, nprocs=[1, 2]),
            dict(base, sig={'fam': 'tones', 'n': 64, 'seed': 4, 'scale': 1.0}, store='float32', freqs=0.35, mode='abs', amp=0.8,
                 cap=3, nprocs=[1, 2]),
            dict(base, sig={'fam': 'noise', 'n': 100, 'seed': 6, 'scale': 250.0}, store='float32', freqs='zc', mode='abs', amp=200.0,
                 cap=4, nphases=3, nprocs=[1, 2]),
            dict(base, amp=[1.0], freqs=0.3, cap=4, malformed=True),            # amplitude array too short
            dict(base, freqs=0.0, malformed=True),
            dict(base, freqs=-0.1, malformed=True),
            dict(base, freqs=0.5, malformed=True),
            dict(base, nphases=0, freqs=0.3, malformed=True),
            dict(base, freqs=[], malformed=True),
        ]

    def generate(self, rng, tier):
        n_cases = 120 if tier == 'thorough' else 22
        sizes = SIZES_T if tier == 'thorough' else [32, 64, 100, 128, 256]
        for _ in range(n_cases):
            sig = _msk.rand_signal_spec(rng, sizes)
            store = None
            if rng.random() < 0.3:
                # the signal as recordings are stored: integer sample counts of amplitude ~50..2000, or single precision
                store = rng.choice(STORES)
                if store != 'float32':
                    sig['scale'] = rng.choice([60.0, 250.0, 1000.0] if store == 'int16' else [60.0, 250.0, 2000.0])
                    if sig['fam'] == 'dyadic':
                        sig['fam'] = 'tones'
            cap = rng.randint(1, 6)
            r = rng.random()
            if r < 0.25:
                freqs = 'zc'
            elif r < 0.35:
                freqs = 'if'
            elif r < 0.7:
                freqs = rng.uniform(0.05, 0.49)
            else:
                freqs = sorted([rng.uniform(0.003, 0.49) for _ in range(rng.randint(1, 7))], reverse=True)
                if rng.random() < 0.3:          # the docstring's example list ends in 0: a constant mask
                    freqs[rng.randrange(len(freqs))] = 0.0
            mode = rng.choice(['abs', 'ratio_sig', 'ratio_imf', 'ratio_imf'])
            if store == 'float32':
                # np.std of a float32 array is evaluated in single precision, so in the ratio modes the library's mask
                # amplitude (and with it the IMFs, ~1e-8 relative) agrees with the float64 rule to single precision only:
                # single-precision storage is judged in the absolute mode, where the agreement is at float64 rounding
                mode = 'abs'
            unit = sig['scale'] if mode == 'abs' else 1.0
            if rng.random() < 0.4:
                amp = [rng.choice([0.0, 0.25, 0.5, 1.0, 2.0]) * unit if rng.random() < 0.3 else rng.uniform(0.1, 2.5) * unit
                       for _ in range(max(cap, 7))]
            else:
                amp = rng.choice([0.0, 1.0, rng.uniform(0.1, 3.0)]) * unit
            case = {'sig': sig, 'amp': amp, 'mode': mode, 'freqs': freqs, 'step': rng.choice([2, 2, 3, 1.5, 2.5]),
                    'cap': cap, 'thresh': rng.choice([1e-8, 1e-8, 1e-8, sig['scale'] * sig['n'] * 0.05]),
                    'nphases': 1 if rng.random() < 0.15 else rng.randint(1, 8), 'nprocs': _nprocs(rng, tier),
                    'opts': rng.randrange(len(_msk.IMF_OPTS)), 'delay': rng.random() < 0.5}
            r = rng.random()
            if r < 0.03:
                case.update(amp=[1.0] * max(0, cap - 2), malformed=True)
            elif r < 0.05:
                case.update(freqs=rng.choice([0.0, -0.2, 0.5, 0.75]), malformed=True)
            if store is not None:
                case['store'] = store
            yield case

    # -- helpers
    def _args(self, case):
        """The argument OBJECTS of the call, created once per case: an analysis script that loops over nprocesses (or
        repeats a sift) hands the same amplitude / frequency arrays to every call."""
        amp = np.array(case['amp'], dtype=float) if isinstance(case['amp'], list) else case['amp']
        freqs = case['freqs']
        if isinstance(freqs, list):
            freqs = np.array(freqs, dtype=float) if case['sig']['seed'] % 2 else list(freqs)
        return amp, freqs

    def _call(self, case, x, npr, amp, freqs):
        import emd
        return emd.sift.mask_sift(x, mask_amp=amp, mask_amp_mode=case['mode'], mask_freqs=freqs,
                                  mask_step_factor=case['step'], ret_mask_freq=True, max_imfs=case['cap'],
                                  sift_thresh=case['thresh'], nphases=case['nphases'], nprocesses=npr,
                                  imf_opts=dict(_msk.IMF_OPTS[case['opts']]))

    def impl(self, case):
        import emd
        x, xs = _stored(case)       # float64 values (oracles) / the array as stored (handed to mask_sift)
        z = None
        if case['freqs'] in ('zc', 'if'):
            z = float(emd.sift.get_mask_freqs(x[:, None], case['freqs'], imf_opts=dict(_msk.IMF_OPTS[case['opts']])))
        ref, same, later = None, [], None
        amp, freqs = self._args(case)

        def before(a, k):
            if case.get('delay'):
                _msk.jitter()
        with _msk.wrapped_public(emd.sift, 'get_next_imf', before), _msk.time_limit(120):
            for npr in case['nprocs']:
                imf, mf = self._call(case, xs, npr, amp, freqs)
                imf = np.asarray(imf)
                mf = np.asarray(mf, dtype=float)
                if ref is None:
                    ref = (imf.copy(), mf.copy())
                same.append(bool(imf.shape == ref[0].shape and _msk.sha(imf) == _msk.sha(ref[0])
                                 and _msk.sha(mf) == _msk.sha(ref[1])))
                if not same[-1] and later is None:
                    # the first later call whose result differs: judged by the same rule as the first call
                    later = {'nprocesses': npr, 'cols': [_msk.vlist(imf[:, j]) for j in range(imf.shape[1])] if imf.ndim == 2 else [],
                             'freqs': _msk.vlist(mf)}
        out = {'cols': [_msk.vlist(ref[0][:, j]) for j in range(ref[0].shape[1])], 'n': int(ref[0].shape[0]),
               'freqs': _msk.vlist(ref[1]), 'same': same, 'z': z}
        if later is not None:
            out['later'] = later
        return out

    def _resolved(self, case, out):
        """(source tag, z, freqs list, effective cap) by the documented rule."""
        f = case['freqs']
        if isinstance(f, list):
            return 'list', None, [float(v) for v in f], min(case['cap'], len(f))
        if f in ('zc', 'if'):
            z = None if isinstance(out, ImplError) else out.get('z')
            if z is None:
                import emd
                x = _stored(case)[0]
                z = float(emd.sift.get_mask_freqs(x[:, None], f, imf_opts=dict(_msk.IMF_OPTS[case['opts']])))
            return 'oracle', z, _msk.ladder(z, case['step'], case['cap']), case['cap']
        return 'float', float(f), _msk.ladder(float(f), case['step'], case['cap']), case['cap']

    def _spec(self, case, out):
        def run():
            x = _stored(case)[0]
            src, z, freqs, cap = self._resolved(case, out)
            if case['nphases'] == 0 or (src == 'float' and not (0 < z < 0.5)) or (z is not None and not np.isfinite(z)):
                return x, src, z, freqs, cap, None
            sp = _msk.spec_mask_sift(x, case['amp'], case['mode'], freqs, cap, case['thresh'], case['nphases'],
                                     dict(_msk.IMF_OPTS[case['opts']]))
            return x, src, z, freqs, cap, sp
        return self._memo(case, run)

    def ops(self, case, out):
        x, src, z, freqs, cap, sp = self._spec(case, out)
        if z is not None and not np.isfinite(z):
            return []
        units, stds, xs = [], [], []
        amax = 0.0
        if sp is not None:
            if case['mode'] != 'abs':
                stds.append((x, float(np.std(x))))
            for k, L in enumerate(sp['layers']):
                amax = max(amax, abs(L['amp']))
                for i, u in enumerate(L['units']):
                    units.append(([L['f'], i], u))
                for (m, arg, r, fl) in L['rows']:
                    xs.append((arg, r, fl))
                if case['mode'] == 'ratio_imf':
                    stds.append((sp['cols'][k], float(np.std(sp['cols'][k]))))
        vecs = [_msk.vlist(x), [float(v) for v in case['freqs']] if src == 'list' else [],
                [float(a) for a in case['amp']] if isinstance(case['amp'], list) else [float(case['amp'])]]
        for key, u in units:
            vecs += [key, _msk.vlist(u)]
        for a, s in stds:
            vecs += [_msk.vlist(a), [s]]
        for a, r, fl in xs:
            vecs += [_msk.vlist(a), _msk.vlist(r), [1 if fl else 0]]
        args = {'cap': case['cap'], 'src': src, 'p': case['nphases'], 'thresh': case['thresh'],
                'tol': _tol(x, amax), 'ftol': 1e-12, 'rot': len(case['nprocs']), 'mode': case['mode'],
                'amp': 'array' if isinstance(case['amp'], list) else 'scalar',
                'nu': len(units), 'ns': len(stds), 'nx': len(xs)}
        if src != 'list':
            args['z'] = z
            args['step'] = case['step']
        return [proto.op('MASKSIFT', args, vecs)]

    def compare(self, case, out, results):
        if not results:
            return 'skip:non-finite first mask frequency from get_mask_freqs'
        r = results[0]
        x, src, z, freqs, cap, sp = self._spec(case, out)
        if isinstance(out, ImplError):
            if out['error'] == 'EMDSiftCovergeError':
                return 'skip:an underlying extraction did not converge within max_iters (documented error, C04)'
            if _is_timeout(out):
                return 'skip:run time is not the property\'s subject'
            if r.status == 'err':
                return None       # both refuse the input: the property fixes no exception class
            if case.get('malformed'):
                return 'skip:input outside the quantifier: the implementation refuses it (%s), the model does not' % out['error']
            return 'implementation raised %s (%s), model says %s' % (out['error'], out['msg'][-120:], r.raw[:100])
        if not r.ok:
            if case.get('malformed') and r.status == 'err':
                return 'skip:input outside the quantifier: the model refuses it, the implementation returns a result'
            return 'model: %s, implementation returned %d columns' % (r.raw[:120], len(out['cols']))
        if float(r.args['margin']) < 1e-7 * max(1.0, case['thresh']):
            return 'skip:near-tie on the sift threshold'
        mf = r.vecs[0] or []
        if len(mf) != len(out['freqs']):
            return 'mask frequencies: model %d values, impl %d' % (len(mf), len(out['freqs']))
        for a, b in zip(mf, out['freqs']):
            if (src == 'list' and float(a) != b) or abs(float(a) - b) > 1e-12 * max(1.0, abs(b)):
                return 'mask frequency: model %s impl %r' % (a, b)
        if int(r.args['k']) != len(out['cols']):
            return 'columns: model %s impl %d' % (r.args['k'], len(out['cols']))
        amax = max([abs(L['amp']) for L in sp['layers']] + [0.0])
        for j, c in enumerate(out['cols']):
            if not _msk.frac_close(r.vecs[1 + j], c, _tol(x, amax)):
                return 'column %d differs from the model' % j
        return None

    def _rule_failures(self, case, x, src, z, freqs, cap, sp, got_f, cols, which=''):
        """the documented rule on ONE returned (IMFs, mask frequencies) pair"""
        fs = []
        # "the returned mask frequencies are the ones used": judged on the entries that belong to a returned column;
        # further entries (the rest of the ladder / of the user's list) are not constrained by the statement
        nused = min(len(cols), len(freqs))
        if src == 'list':
            if got_f[:nused] != freqs[:nused]:
                fs.append(Failure('returned-freqs-not-user-list', '%sreturned %s for list %s (%d columns)' % (which, got_f[:8], freqs[:8], len(cols))))
        else:
            if len(got_f) < nused or any(abs(a - b) > 1e-12 * max(1.0, abs(b)) for a, b in zip(got_f[:nused], freqs[:nused])):
                fs.append(Failure('returned-freqs-not-ladder', '%sreturned %s, expected z/step^k = %s (z=%r step=%r, %d columns)'
                                  % (which, got_f[:6], freqs[:6], z, case['step'], len(cols))))
        # the stopping rule (cap, continue flags, sift threshold) is C03's subject, not in C07's words: mechanism level
        if len(cols) > max(cap, 1):
            fs.append(Failure('more-columns-than-cap', '%s%d columns, cap %d (list length %s)' % (which, len(cols), cap, len(freqs)), literal=False))
        if sp['error'] is None and len(cols) != len(sp['cols']):
            fs.append(Failure('masksift-wrong-column-count', '%srule gives %d columns, implementation %d' % (which, len(sp['cols']), len(cols)),
                              literal=False))
        # peeling, with the implementation's own earlier columns and the frequencies it returned
        opts = dict(_msk.IMF_OPTS[case['opts']])
        for k, c in enumerate(cols):
            if k >= len(got_f):
                break
            resid = x - (np.sum(cols[:k], axis=0) if k else 0.0)
            if case['mode'] == 'abs':
                sd = 1.0
            elif case['mode'] == 'ratio_sig' or k == 0:
                sd = float(np.std(x))
            else:
                sd = float(np.std(cols[k - 1]))
            if isinstance(case['amp'], list) and k >= len(case['amp']):
                break
            a = case['amp'][k] if isinstance(case['amp'], list) else case['amp']
            want, _, _ = _msk.spec_gnim(resid, got_f[k], a * sd, case['nphases'], opts)
            dev = float(np.max(np.abs(want - c)))
            if dev > _tol(x, abs(a * sd)):
                fs.append(Failure('column-not-masked-extraction-of-residual',
                                  '%scolumn %d deviates %.3g from the masked extraction of x - sum(previous) with f=%r amp=%r (%s, nphases=%d)'
                                  % (which, k, dev, got_f[k], a * sd, case['mode'], case['nphases'])))
                break
        return fs

    @_guarded
    def holds(self, case, out):
        if case.get('malformed'):
            return []
        if isinstance(out, ImplError):
            if out['error'] == 'EMDSiftCovergeError':
                return []      # the documented non-convergence error of an underlying extraction: not a C07 matter (C04)
            if _is_timeout(out):
                return []      # run time is not the property's subject (tagged)
            return [Failure('raises:' + out['error'], out['msg'])]
        x, src, z, freqs, cap, sp = self._spec(case, out)
        if z is not None and not np.isfinite(z):
            return []
        fs = self._rule_failures(case, x, src, z, freqs, cap, sp, out['freqs'], [np.array(c) for c in out['cols']])
        if not all(out['same']):
            bad = [n for n, s in zip(case['nprocs'], out['same']) if not s]
            fs.append(Failure('nprocesses-changes-result', 'calls made one after the other with the same argument objects: output differs '
                              'bitwise from the first call (nprocesses=%d) for nprocesses in %s' % (case['nprocs'][0], bad)))
            lt = out.get('later')
            if lt and not any(f.literal for f in fs if f.kind != 'nprocesses-changes-result'):
                # which of the two results is wrong? the later call (same arguments) judged by the documented rule
                seen = {f.kind for f in fs}
                fs += [f for f in self._rule_failures(case, x, src, z, freqs, cap, sp, lt['freqs'], [np.array(c) for c in lt['cols']],
                                                      which='the later call with nprocesses=%d and the same arguments: ' % lt['nprocesses'])
                       if f.kind not in seen]
        return fs

    def tags(self, case, out):
        f = case['freqs']
        t = ['src=' + ('list' if isinstance(f, list) else f if isinstance(f, str) else 'float'), 'mode=' + case['mode'],
             'amp=' + ('array' if isinstance(case['amp'], list) else 'scalar'), 'nphases=%d' % case['nphases'],
             'cap=%d' % case['cap'], 'step=%s' % case['step'], 'opts=%d' % case['opts'], 'nprocs=%d' % len(case['nprocs']),
             'stored=' + case.get('store', 'float64')]
        if isinstance(f, list) and 0.0 in f:
            t.append('list-with-zero-frequency')
        if isinstance(out, ImplError):
            t.append('error=' + out['error'])
            if _is_timeout(out):
                t.append('timeout-not-judged')
        else:
            t.append('columns=%d' % len(out['cols']))
            if isinstance(f, list) and len(f) < case['cap']:
                t.append('cap-lowered-to-list')
            if len(out['cols']) < (min(case['cap'], len(f)) if isinstance(f, list) else case['cap']):
                t.append('stopped-before-cap')
        return t

    def nontrivial(self, case, out):
        return (not isinstance(out, ImplError)) and len(out['cols']) >= 2 and case['nphases'] >= 2

    def shrink(self, case):
        if len(case['nprocs']) > 2:
            yield dict(case, nprocs=case['nprocs'][:2])
        if case['cap'] > 1:
            yield dict(case, cap=case['cap'] - 1)
        if case['sig']['n'] > 32:
            yield dict(case, sig=dict(case['sig'], n=max(32, case['sig']['n'] // 2)))
        if case['opts'] != 0:
            yield dict(case, opts=0)
        if case['nphases'] > 1:
            yield dict(case, nphases=case['nphases'] - 1)


def _pool_job(a, tdpath, delay):
    import time
    if delay:
        _msk.jitter()
    with open(os.path.join(tdpath, '%d.log' % os.getpid()), 'a') as f:
        f.write('%d %d\n' % (time.monotonic_ns(), a))       # completion time: the order results become available
    return a * a + 1


class PoolOrder(Stream):
    """Assumption validator: Pool.starmap returns results in argument order for whatever assignment of
    jobs to workers happens; the observed schedule is replayed through the model's pool."""
    name = 'pool_order'
    parallel = False

    def corpus(self):
        return [{'n': 8, 'p': 8, 'delay': True}, {'n': 1, 'p': 3, 'delay': False}, {'n': 5, 'p': 2, 'delay': True}]

    def generate(self, rng, tier):
        for _ in range(60 if tier == 'thorough' else 10):
            yield {'n': rng.randint(1, 12), 'p': rng.randint(1, 8), 'delay': rng.random() < 0.8, 'salt': rng.randrange(1000)}

    def impl(self, case):
        args = [3 * i + case.get('salt', 0) for i in range(case['n'])]
        with _msk.TraceDir() as td:
            with mp.Pool(processes=case['p']) as p:
                res = p.starmap(_pool_job, [(a, td.path, case['delay']) for a in args])
            events = []
            for w, (pid, data) in enumerate(sorted(td.files().items())):
                toks = data.decode().split()
                for i in range(0, len(toks), 2):
                    events.append((int(toks[i]), args.index(int(toks[i + 1])), w))
        events.sort()
        workers = [0] * case['n']
        for _, j, w in events:
            workers[j] = w
        return {'res': [int(v) for v in res], 'order': [j for _, j, _ in events], 'workers': workers, 'args': args}

    def ops(self, case, out):
        if isinstance(out, ImplError):
            return []
        return [proto.op('POOLMAP', {'n': case['n'], 'p': case['p']}, [out['order'], out['workers'], out['args']])]

    def compare(self, case, out, results):
        if isinstance(out, ImplError):
            return 'pool raised %s' % out['error']
        r = results[0]
        if not r.ok or [int(v) for v in (r.vecs[0] or [])] != out['res']:
            return 'model pool %s vs real pool %s under schedule order=%s workers=%s' % (r.raw[:100], out['res'], out['order'], out['workers'])
        return None

    @_guarded
    def holds(self, case, out):
        # validator of an ASSUMPTION about Python's multiprocessing (emd is not called): never a property violation
        if isinstance(out, ImplError):
            if _is_timeout(out):
                return []
            return [Failure('raises:' + out['error'], out['msg'], literal=False)]
        if out['res'] != [a * a + 1 for a in out['args']]:
            return [Failure('starmap-not-in-argument-order', '%s' % out, literal=False)]
        return []

    def tags(self, case, out):
        if isinstance(out, ImplError):
            return ['error']
        return ['workers-used=%d' % len(set(out['workers'])), 'p=%d' % case['p'],
                'in-order' if out['order'] == sorted(out['order']) else 'out-of-order-execution']

    def nontrivial(self, case, out):
        return not isinstance(out, ImplError) and len(set(out['workers'])) >= 2


class CosOracle(Stream):
    """Validator of the model's single numerical oracle cosTurn(x) = cos(2 pi x) as the harness tabulates it
    (half-turn antisymmetry: hypothesis of C07.mask_shift_closed / C02.maskSift_ratio_smul_neg_cos), and instance check
    of the waveform on the implementation: the masked signals get_next_imf_mask really hands to get_next_imf (observed by
    wrapping the public attribute, per-pid trace files) minus the input are amp * cos(2 pi z t + 2 pi i / nphases)."""
    name = 'cos_oracle'
    parallel = False

    def corpus(self):
        return [{'z': 0.2, 'n': 64, 'p': 4, 'amp': 1.5, 'seed': 1}, {'z': 0.25, 'n': 32, 'p': 2, 'amp': 1.0, 'seed': 2},
                {'z': 0.0, 'n': 16, 'p': 8, 'amp': 0.5, 'seed': 3}, {'z': 0.4, 'n': 512, 'p': 6, 'amp': 250.0, 'seed': 4},
                {'z': 0.37, 'n': 100, 'p': 1, 'amp': 2.0, 'seed': 5}, {'z': 0.11, 'n': 48, 'p': 7, 'amp': 0.01, 'seed': 6}]

    def generate(self, rng, tier):
        for _ in range(150 if tier == 'thorough' else 25):
            yield {'z': rng.choice([0.25, 0.125, rng.uniform(0.003, 0.49), rng.uniform(0.003, 0.49)]),
                   'n': rng.choice(SIZES_T if tier == 'thorough' else SIZES_Q), 'p': rng.randint(1, 8),
                   'amp': rng.choice([1.0, rng.uniform(0.05, 3.0), 250.0, 0.01]), 'seed': rng.randrange(1 << 30)}

    def impl(self, case):
        import emd
        n, z, p, amp = case['n'], case['z'], case['p'], case['amp']
        u = _msk.unit_masks(n, z, p)
        t = np.arange(n)
        res = {'max_abs': max(float(np.max(np.abs(v))) for v in u), 'at0': float(u[0][0]), 'half': 0.0, 'grid': 0.0}
        if p % 2 == 0:
            res['half'] = max(float(np.max(np.abs(u[(i + p // 2) % p] + u[i]))) for i in range(p))
        # the table is the cosine of the documented argument, phases equally spaced by 1/p of a turn
        res['grid'] = max(float(np.max(np.abs(u[i] - np.cos(2 * np.pi * (z * t + i / p))))) for i in range(p))
        x = _msk.make_signal({'fam': 'tones', 'n': n, 'seed': case['seed'], 'scale': 1.0})
        with _msk.TraceDir() as td:
            def before(a, k):
                first = a[0] if a else k.get('X')
                if first is not None:
                    td.log(np.ascontiguousarray(np.asarray(first, dtype=float).ravel()).tobytes())
            with _msk.wrapped_public(emd.sift, 'get_next_imf', before), _msk.time_limit(60):
                try:
                    emd.sift.get_next_imf_mask(x, z, amp, nphases=p, nprocesses=min(p, 1 + case['seed'] % 3))
                except Exception as e:  # noqa  (a non-converging extraction does not matter here: the arguments were recorded)
                    res['raised'] = type(e).__name__
            seen = []
            for data in td.files().values():
                a = np.frombuffer(data, dtype=float)
                seen += [a[j:j + n] for j in range(0, len(a) - n + 1, n)]
        res['njobs'] = len(seen)
        want = [amp * v for v in u]
        dev, used = 0.0, []
        for a in seen:
            m = a - x
            d = [float(np.max(np.abs(m - w))) for w in want]
            i = int(np.argmin(d))
            used.append(i)
            dev = max(dev, d[i])
        res['mask_dev'] = dev
        res['phases_used'] = sorted(used)
        return res

    def ops(self, case, out):
        return []

    def compare(self, case, out, results):
        return None

    @_guarded
    def holds(self, case, out):
        # Everything here is mechanism-level (literal=False): the cosine tables are the theorems' oracle, and the masks are
        # OBSERVED by replacing the module attribute emd.sift.get_next_imf (positional first argument, per-pid trace files
        # inherited by fork) - an implementation that binds the extractor at import time, calls it by keyword, uses a
        # spawn pool or shares coinciding masks is not traceable this way and is not judged (tag 'untraceable'). The
        # literal statement about the waveform is the phase-average check of the gnim stream.
        if isinstance(out, ImplError):
            if _is_timeout(out):
                return []
            return [Failure('raises:' + out['error'], out.get('msg', ''), literal=False)]
        fs = []

        def oracle(kind, detail):
            fs.append(Failure(kind, detail, literal=False))   # a broken oracle: the theorems no longer apply to the deployed numpy
        arg = 2 * np.pi * (0.5 * case['n'] + 1)
        eps = 4e-16 * arg + 1e-15
        if out['half'] > eps:
            oracle('oracle:cos-half-turn', 'max |cos(a + pi) + cos(a)| = %.3g on the table of z=%r p=%d' % (out['half'], case['z'], case['p']))
        if out['max_abs'] > 1.0 or out['at0'] != 1.0 or out['grid'] > eps:
            oracle('oracle:cos-table', 'max|cos|=%r cos(0)=%r grid deviation %.3g' % (out['max_abs'], out['at0'], out['grid']))
        if out['njobs'] != case['p']:
            return fs           # untraceable (tagged): nothing observed, or not one observation per phase
        if out['phases_used'] != list(range(case['p'])):
            fs.append(Failure('mask-phases-not-the-documented-grid', 'observed %d extraction jobs, nearest documented phases %s (nphases=%d)'
                              % (out['njobs'], out['phases_used'], case['p']), literal=False))
        elif out['mask_dev'] > _msk.TOL * max(1.0, abs(case['amp'])):
            fs.append(Failure('mask-not-documented-waveform', 'observed masks deviate %.3g from amp*cos(2 pi z t + 2 pi i/p), z=%r amp=%r p=%d'
                              % (out['mask_dev'], case['z'], case['amp'], case['p']), literal=False))
        return fs

    def tags(self, case, out):
        t = ['nphases=%d' % case['p'], 'even' if case['p'] % 2 == 0 else 'odd', 'z=0.25' if case['z'] == 0.25 else 'z=other']
        if not isinstance(out, ImplError):
            t.append('masks-observed' if out['njobs'] == case['p'] else 'untraceable')
        return t

    def nontrivial(self, case, out):
        return not isinstance(out, ImplError) and case['p'] >= 2


STREAMS = [Gnim(), MaskSift(), PoolOrder(), CosOracle()]
