"""Shared pieces of the extrema / envelope check (C05): independent oracles and encoders."""
import itertools
import math

import numpy as np

from common import proto
from common.framework import Failure

LEVELS = [-1.0, 0.0, 1.0]          # 3-level alphabet of the exhaustive stream (abs() creates extra ties)
MODES = ['peaks', 'troughs', 'abs_peaks']
EMODES = {'upper': 'peaks', 'lower': 'troughs', 'combined': 'abs_peaks'}
METHODS = ['splrep', 'pchip', 'mono_pchip']
PADS = [0, 1, 2, 3, 4, 5]


def enum_block(length, prefix):
    rest = length - len(prefix)
    for tail in itertools.product(range(len(LEVELS)), repeat=rest):
        yield [LEVELS[i] for i in tuple(prefix) + tail]


# ---------------------------------------------------------------------------------------------
# the property's own words, independent of the implementation and of the model


def mode_signal(x, mode):
    if mode == 'peaks':
        return list(x)
    if mode == 'troughs':
        return [-v for v in x]
    return [abs(v) for v in x]


def strict_extrema(x, mode):
    """indices of the strict local maxima (peaks / abs_peaks) or minima (troughs): brute force"""
    y = mode_signal(x, mode)
    return [i for i in range(1, len(y) - 1) if y[i - 1] < y[i] and y[i + 1] < y[i]]


def vertex(y0, y1, y2):
    """vertex of the parabola through (-1,y0),(0,y1),(1,y2): (offset, height) — textbook formula"""
    d = y0 - 2.0 * y1 + y2
    off = 0.5 * (y0 - y2) / d
    return off, y1 - 0.125 * (y0 - y2) ** 2 / d


def ref_pad_round(a, w):
    """odd reflection of `w` values on both sides, written pointwise (numpy >= 2 chunking)"""
    m = len(a)
    out = list(a)
    rem = w
    while rem > 0:
        per = ((len(out) - 1) // (m - 1)) * (m - 1)
        c = min(per, rem)
        left = [2 * out[0] - out[k] for k in range(c, 0, -1)]
        right = [2 * out[-1] - out[-1 - k] for k in range(1, c + 1)]
        out = left + out + right
        rem -= c
    return out


def _find_block(locs, want, tol):
    """index p with locs[p:p+len(want)] == want (within tol), preferring the centred position; None if there is none"""
    m, extra = len(want), len(locs) - len(want)
    if extra < 0:
        return None
    order = sorted(range(extra + 1), key=lambda p: (abs(2 * p - extra), p))
    for p in order:
        if all(abs(a - b) <= tol for a, b in zip(locs[p:p + m], want)):
            return p
    return None


def check_padded(x, w, mode, parab, locs, mags, tol=0.0, prefix='', mtol=None, need_cover=False):
    """C05 (extrema / padding half) on one output of get_padded_extrema. Returns list[Failure].

    tol / mtol: tolerance for locations / magnitudes (mtol defaults to tol).  Literal kinds are the property's own words
    (interior extrema = the strict extrema, untouched; strictly ordered; pads only outside the interior block and mirrored);
    the conventions of the current code that the statement does not fix (None for fewer than two extrema, equally many pads
    on both sides, a multiple of the width, pad magnitudes = edge magnitude) are mechanism-level (literal=False).
    need_cover: the padded extrema must span every sample (needed for "one envelope value per sample": envelope stream)."""
    n = len(x)
    fs = []
    mtol = tol if mtol is None else mtol
    ext = strict_extrema(x, mode)
    y = mode_signal(x, mode)
    sign = -1.0 if mode == 'troughs' else 1.0
    if len(ext) < 2:
        if locs is not None:
            # with 0 / 1 strict extremum the statement only says that no other sample may be reported as one; that the answer
            # is None (rather than the 0- or 1-element set, possibly padded) is the code's convention
            inside = [v for v in locs if 0 <= v <= n - 1]
            honest = all(any(abs(v - e) <= max(tol, 0.5 if parab else 0.0) for e in ext) for v in inside) and len(inside) <= len(ext)
            fs.append(Failure(prefix + 'extrema-returned-with-fewer-than-two', '%d strict extrema, got %s' % (len(ext), locs[:12]),
                              literal=not honest))
        return fs
    if locs is None:
        return [Failure(prefix + 'extrema-missing', '%d strict extrema but None returned' % len(ext))]
    if len(locs) != len(mags):
        return [Failure(prefix + 'locs-mags-length-differ', '%d vs %d' % (len(locs), len(mags)))]
    m = len(ext)
    if parab:
        want_l, want_m = [], []
        for i in ext:
            off, h = vertex(y[i - 1], y[i], y[i + 1])
            want_l.append(i + off)
            want_m.append(sign * h)
    else:
        want_l = [float(i) for i in ext]
        want_m = [sign * y[i] for i in ext]
    weff = min(w, m)
    extra = len(locs) - m
    if extra < 0:
        return [Failure(prefix + 'padding-asymmetric-or-extrema-lost', '%d locations for %d extrema' % (len(locs), m))]
    # the interior block is located by value (the statement does not say that both sides get equally many pads)
    p = _find_block(locs, want_l, tol)
    if p is None:
        # not found as a block: judge the centred block (what the current code produces) and say what differs
        p = extra // 2
        inner_l = locs[p:p + m]
        kind = 'interior-extrema-not-strict-extrema'
        if parab and all(abs(a - i) <= 0.5 for a, i in zip(inner_l, ext)):
            kind = 'refined-location-wrong'
        fs.append(Failure(prefix + kind, 'interior %s, strict extrema %s' % (inner_l[:12], want_l[:12])))
    pl, pr = p, extra - p
    inner_l, inner_m = locs[p:p + m], mags[p:p + m]
    if pl != pr:
        fs.append(Failure(prefix + 'padding-asymmetric-or-extrema-lost', '%d pads before and %d after the %d extrema' % (pl, pr, m),
                          literal=False))
    if any(abs(a - b) > mtol for a, b in zip(inner_m, want_m)):
        fs.append(Failure(prefix + 'interior-magnitudes-wrong', 'interior %s, expected %s' % (inner_m[:12], want_m[:12])))
    if parab:
        if any(abs(a - i) > 0.5 + tol for a, i in zip(inner_l, ext)):
            fs.append(Failure(prefix + 'refinement-beyond-half-sample', '%s vs %s' % (inner_l[:12], ext[:12])))
        if any(sign * (a - sign * y[i]) < -mtol for a, i in zip(inner_m, ext)):
            fs.append(Failure(prefix + 'refined-height-below-sample', ''))
    if any(b <= a for a, b in zip(locs, locs[1:])):
        fs.append(Failure(prefix + 'not-strictly-ordered', 'locs %s' % (locs[:16],)))
    if weff == 0:
        if extra != 0:
            fs.append(Failure(prefix + 'padded-with-zero-width', '%d added' % extra))
        return fs
    if pl == 0 or pr == 0 or pl % weff or pr % weff:
        # how many pads are added is the re-padding loop's mechanism; what the envelope needs is coverage (below)
        fs.append(Failure(prefix + 'pad-count-not-multiple-of-width', '%d / %d added, width %d' % (pl, pr, weff), literal=False))
    # every sample index 0..n-1 must lie in [first, last) for the envelope to have one value per sample
    if not (locs[0] <= 0 and locs[-1] > n - 1):
        fs.append(Failure(prefix + 'edges-not-covered', 'first %s last %s n %d' % (locs[0], locs[-1], n), literal=bool(need_cover)))
    if any(abs(v - inner_m[0]) > mtol for v in mags[:pl]) or any(abs(v - inner_m[-1]) > mtol for v in mags[pl + m:]):
        # "mirrored extrema": mirroring the magnitudes as well would satisfy the words; edge-value padding is the default np.pad rule
        fs.append(Failure(prefix + 'pad-magnitude-not-edge-value', 'mags %s' % (mags[:16],), literal=False))
    # mirrored: rebuild round by round from the interior block, pointwise
    if pl == pr and pl % weff == 0 and pl > 0:
        ref = list(inner_l)
        for _ in range(pl // weff):
            ref = ref_pad_round(ref, weff)
        if len(ref) != len(locs) or any(abs(a - b) > max(tol, tol * abs(b)) for a, b in zip(locs, ref)):
            fs.append(Failure(prefix + 'padding-not-mirrored', 'locs %s, odd reflection gives %s' % (locs[:16], ref[:16])))
    return fs


# ---------------------------------------------------------------------------------------------
# implementation calls (public API only)


class Timeout(Exception):
    """the implementation did not return within its budget (e.g. a re-padding loop that never covers the edges)"""


class time_limit:
    """wall-clock budget for one implementation call (SIGALRM; impl() runs in the main thread of its process)"""

    def __init__(self, seconds):
        self.seconds = seconds

    def _raise(self, *a):
        raise Timeout('no result after %.1f s' % self.seconds)

    def __enter__(self):
        import signal
        self.old = signal.signal(signal.SIGALRM, self._raise)
        signal.setitimer(signal.ITIMER_REAL, self.seconds)

    def __exit__(self, *a):
        import signal
        signal.setitimer(signal.ITIMER_REAL, 0)
        signal.signal(signal.SIGALRM, self.old)
        return False


CALL_BUDGET_S = 4.0


def call_gpe(x, w, mode, parab=False, col2d=False):
    import emd
    X = np.array(x, dtype=float)
    if col2d:
        X = X[:, None]
    # a fresh writable array (read-only inputs are C19's subject, not C05's)
    with time_limit(CALL_BUDGET_S):
        locs, mags = emd.sift.get_padded_extrema(X, pad_width=w, mode=mode, parabolic_extrema=bool(parab))
    if locs is None:
        if mags is not None:
            raise AssertionError('locs None but mags not None')
        return None
    # integral VALUES (the statement says nothing about the dtype the locations are stored in)
    la = np.asarray(locs)
    integral = bool(np.issubdtype(la.dtype, np.integer) or (la.size and np.all(np.isfinite(la)) and np.all(la == np.round(la))))
    return {'locs': [int(v) for v in locs] if integral else [float(v) for v in locs],
            'mags': [float(v) for v in mags], 'int': integral}


def build_interp(method, locs, mags):
    from scipy import interpolate as interp
    locs = np.asarray(locs, dtype=float)
    mags = np.asarray(mags, dtype=float)
    if method == 'splrep':
        f = interp.splrep(locs, mags)
        return lambda t: interp.splev(np.asarray(t, dtype=float), f)
    if method == 'mono_pchip':
        return interp.PchipInterpolator(locs, mags)
    if method == 'pchip':
        return interp.pchip(locs, mags)
    raise ValueError(method)


DTYPES = ['int64', 'int32', 'float32']     # storage types of the input signal besides float64


def as_dtype(x, dtype):
    """The values of x that are exactly representable in `dtype` (what the implementation is actually handed)."""
    if dtype in (None, 'float64'):
        return [float(v) for v in x]
    if dtype.startswith('int'):
        return [float(int(round(v))) for v in x]
    return [float(np.dtype(dtype).type(v)) for v in x]


def call_env(x, emode, method, w, parab, col2d=False, dtype=None):
    import emd
    X = np.array(x, dtype=float)
    if dtype not in (None, 'float64'):
        Xd = X.astype(dtype)
        if not np.array_equal(Xd.astype(float), X):
            raise RuntimeError('harness: case values are not representable as %s' % dtype)
        X = Xd
    n = len(X)
    if col2d:
        X = X[:, None]
    fn = emd.sift.interp_envelope      # the documented home (emd.utils only holds an incidental import of the name)
    opts = {'pad_width': w, 'parabolic_extrema': bool(parab)}
    with time_limit(CALL_BUDGET_S):
        r = fn(X, mode=emode, interp_method=method, extrema_opts=opts, ret_extrema=True)
    if r is None:
        return {'none': True}
    env, (locs, mags) = r
    f = build_interp(method, locs, mags)
    tab = np.asarray(f(np.arange(n)), dtype=float)
    knots = np.asarray(f(np.asarray(locs, dtype=float)), dtype=float)
    return {'env': [float(v) for v in np.asarray(env).ravel()], 'locs': [float(v) for v in locs],
            'mags': [float(v) for v in mags], 'tab': [float(v) for v in tab], 'knots': [float(v) for v in knots]}


# ---------------------------------------------------------------------------------------------
# model ops


def padext_op(x, w, mode, parab):
    return proto.op('PADEXT', {'pad': int(w), 'mode': mode, 'parab': int(bool(parab))}, [[float(v) for v in x]])


def env_op(x, emode, w, parab, tab):
    return proto.op('ENV', {'pad': int(w), 'emode': emode, 'parab': int(bool(parab))},
                    [[float(v) for v in x], tab])


def parab_condition(x, mode):
    """relative size of the smallest |curvature| at a strict extremum (small = ill-conditioned refinement)"""
    y = mode_signal(x, mode)
    ext = strict_extrema(x, mode)
    # relative to the signal's own amplitude: the vertex formula is homogeneous, so a signal in small units (1e-13) is exactly as
    # well conditioned as the same signal at order one (round-3 seeded change: an ABSOLUTE curvature threshold inside the code)
    scale = max([abs(v) for v in y] + [0.0]) or 1.0
    if not ext:
        return 1.0
    return min(abs(y[i - 1] - 2 * y[i] + y[i + 1]) for i in ext) / scale


# ---------------------------------------------------------------------------------------------
# signal families


def synth_signal(rng, n, family):
    """signals from the repo's vocabulary: sums of sinusoids + noise, quantised (ties/plateaus), steps"""
    t = np.arange(n)
    if family == 'levels':           # few integer levels: many ties and plateaus
        k = rng.choice([2, 3, 4, 6])
        return [float(rng.randrange(k)) for _ in range(n)]
    if family == 'signed-levels':
        return [float(rng.choice([-2, -1, 0, 1, 2])) for _ in range(n)]
    if family == 'ripple':
        # an oscillation that is tiny compared with its offset: extrema stand out from their neighbours by a few units in the last
        # place of the offset (round-2 seeded change: a prominence filter of 4*eps*max|X| dropped such strict extrema)
        if rng.random() < 0.6:
            base = rng.choice([1024.0, -4096.0, 1.0, 3.0e5])
            u = abs(float(np.spacing(base)))
            return [base + u * rng.randint(0, 3) for _ in range(n)]
        base = rng.choice([1.0e6, -2.5e5])
        f = rng.uniform(0.05, 0.3)
        return [base + 2e-10 * math.sin(2 * math.pi * f * i + 1.0) for i in range(n)]
    if family == 'bursts':
        # order-one bursts separated by quiet stretches (1e-2 .. 1e-3): neighbouring extrema of |x| differ by orders of
        # magnitude, a cubic spline through them undershoots zero in the gaps (round-3 seeded change: 'combined' envelope clipped at 0)
        f = rng.uniform(0.08, 0.3)
        seg = rng.randint(12, 40)
        quiet = rng.choice([1e-2, 3e-3, 1e-3])
        ph = rng.uniform(0, 6.28)
        off = rng.randrange(2)
        x = []
        for i in range(n):
            a = 1.0 if ((i // seg) + off) % 2 == 0 else quiet
            x.append(a * rng.uniform(0.7, 1.0) * math.sin(2 * math.pi * f * i + ph))
        return x
    f1 = rng.uniform(0.01, 0.3)
    f2 = rng.uniform(0.01, 0.45)
    x = np.sin(2 * np.pi * f1 * t + rng.uniform(0, 6.28)) + rng.uniform(0, 1) * np.sin(2 * np.pi * f2 * t + rng.uniform(0, 6.28))
    x = x + rng.uniform(0, 0.3) * np.array([rng.gauss(0, 1) for _ in range(n)])
    if family == 'quantised':        # rounded to a coarse grid: plateaus at the crests
        q = rng.choice([0.5, 0.25, 0.125])
        x = np.round(x / q) * q
    elif family == 'scaled':
        x = x * rng.choice([1e-3, 1e3, 37.0])
    elif family == 'tiny':           # data in small physical units (e.g. Tesla): everything is homogeneous, so nothing may change
        x = x * rng.choice([3e-13, 1e-11, 2.5e-15, 1e-9])
    elif family == 'trend':
        x = x + rng.uniform(-0.05, 0.05) * t
    return [float(v) for v in x]


FAMILIES = ['levels', 'signed-levels', 'smooth', 'quantised', 'scaled', 'trend', 'tiny', 'bursts', 'ripple']
