"""Shared pieces of the masked / ensemble sift checks (C07, C08): signal families, the executable
specification of the masking rule (plain numpy + the public single-IMF extractor), op encoders."""
import contextlib
import functools
import hashlib
import os
import shutil
import tempfile
import time

import numpy as np

from common import proto

TWO_PI = 2 * np.pi
TOL = 1e-9

IMF_OPTS = [
    {},
    {},
    {'stop_method': 'fixed', 'max_iters': 3},
    {'sd_thresh': 0.05},
    {'env_step_size': 0.5},
    {'stop_method': 'rilling'},
]


def make_signal(spec):
    """Deterministic signal from a JSON-able spec {'fam', 'n', 'seed', ...}."""
    n = int(spec['n'])
    g = np.random.default_rng(int(spec['seed']))
    t = np.arange(n)
    fam = spec['fam']
    if fam == 'tones':
        k = 2 + int(g.integers(0, 3))
        x = np.zeros(n)
        for j in range(k):
            per = float(g.uniform(4, max(6, n / 3)))
            x += g.uniform(0.3, 1.5) * np.sin(TWO_PI * t / per + g.uniform(0, TWO_PI))
        x += 0.05 * g.standard_normal(n)
    elif fam == 'chirp':
        f0, f1 = sorted(g.uniform(0.01, 0.3, size=2))
        ph = TWO_PI * np.cumsum(np.linspace(f0, f1, n))
        x = np.sin(ph) * (1 + 0.5 * np.sin(TWO_PI * t / max(8.0, n / 2))) + 0.2 * g.standard_normal(n)
    elif fam == 'noise':
        x = g.standard_normal(n)
    elif fam == 'walk':
        x = np.cumsum(g.standard_normal(n)) * 0.3
    elif fam == 'intermittent':
        x = np.sin(TWO_PI * t / 25.0)
        a, b = sorted(g.integers(0, n, size=2))
        x[a:b] += 0.4 * np.sin(TWO_PI * t[a:b] / 5.0)
        x += 0.02 * g.standard_normal(n)
    elif fam == 'dyadic':        # short dyadic values: float sums are exact
        x = g.integers(-64, 65, size=n) / 16.0
    elif fam == 'offset':        # all positive: no zero crossings
        x = 5 + np.sin(TWO_PI * t / 9.0) + 0.3 * np.sin(TWO_PI * t / 3.7)
    else:
        raise ValueError(fam)
    return np.ascontiguousarray(x * float(spec.get('scale', 1.0)), dtype=float)


FAMILIES = ['tones', 'tones', 'chirp', 'noise', 'walk', 'intermittent', 'dyadic', 'offset']


def rand_signal_spec(rng, sizes):
    return {'fam': rng.choice(FAMILIES), 'n': rng.choice(sizes), 'seed': rng.randrange(1 << 30),
            'scale': rng.choice([1.0, 1.0, 1.0, 0.01, 250.0])}


def sha(a):
    return hashlib.sha1(np.ascontiguousarray(a, dtype=float).tobytes()).hexdigest()


# --------------------------------------------------------------------------- documented masking rule

def doc_masks(n, z, amp, nphases):
    """amp * cos(2 pi z t + 2 pi i / nphases), i = 0..nphases-1 — the documented rule."""
    t = np.arange(n)
    return [amp * np.cos(TWO_PI * z * t + TWO_PI * i / nphases) for i in range(nphases)]


def unit_masks(n, z, nphases):
    """the cosTurn oracle table of one mask frequency: entry [i][t] = cos(2 pi (z t + i / nphases))"""
    t = np.arange(n)
    return [np.cos(TWO_PI * z * t + TWO_PI * i / nphases) for i in range(nphases)]


def extract(x, imf_opts):
    """The real single-IMF extractor (public emd.sift.get_next_imf)."""
    import emd
    imf, flag = emd.sift.get_next_imf(np.asarray(x, dtype=float)[:, None], **(imf_opts or {}))
    return np.asarray(imf)[:, 0].copy(), bool(flag)


def spec_gnim(x, z, amp, nphases, imf_opts, masks=None):
    """Phase average of (extract(x + m_i) - m_i); returns (imf, flag, rows) with rows = table entries."""
    masks = doc_masks(len(x), z, amp, nphases) if masks is None else masks
    rows = []
    for m in masks:
        arg = x + m
        r, f = extract(arg, imf_opts)
        rows.append((m, arg, r, f))
    imf = np.mean([r - m for (m, _, r, _) in rows], axis=0)
    return imf, any(f for (_, _, _, f) in rows), rows


def spec_mask_sift(x, amp, mode, freqs, cap, thresh, nphases, imf_opts):
    """Peeling with the documented ladder/amplitude rule. freqs: list of floats (already resolved).
    Returns dict(cols, layers=[(f, amp_k, sd_k, rows)], error)."""
    cols, layers = [], []
    k = 0
    while True:
        if mode == 'abs':
            sd = 1.0
        elif mode == 'ratio_sig' or k == 0:
            sd = float(np.std(x))
        else:
            sd = float(np.std(cols[-1]))
        if isinstance(amp, list):
            if k >= len(amp):
                return {'cols': cols, 'layers': layers, 'error': 'IndexError'}
            a = amp[k]
        else:
            a = amp
        if k >= len(freqs):
            return {'cols': cols, 'layers': layers, 'error': 'IndexError'}
        resid = x - (np.sum(cols, axis=0) if cols else 0.0)
        f = freqs[k]
        units = unit_masks(len(x), f, nphases)
        ak = a * sd
        col, flag, rows = spec_gnim(resid, f, ak, nphases, imf_opts, masks=[ak * u for u in units])
        cols.append(col)
        layers.append({'f': f, 'amp': ak, 'sd': sd, 'units': units, 'rows': rows, 'flag': flag, 'resid': resid})
        if (not flag) or k == cap - 1 or np.abs(col).sum() < thresh:
            return {'cols': cols, 'layers': layers, 'error': None}
        k += 1


def ladder(z, step, cap):
    return [z / step ** k for k in range(cap)]


# --------------------------------------------------------------------------- worker delays / pid trace

@contextlib.contextmanager
def wrapped_public(module, name, before=None):
    """Replace the public attribute `module.name` by a wrapper (picklable by reference, inherited by
    forked pool workers) that calls `before(args, kwargs)` first. Restores on exit."""
    orig = getattr(module, name)

    @functools.wraps(orig)
    def wrapper(*a, **k):
        if before is not None:
            before(a, k)
        return orig(*a, **k)
    setattr(module, name, wrapper)
    try:
        yield orig
    finally:
        setattr(module, name, orig)


class TraceDir:
    """mkdtemp directory with one append-only file per pid; removed on exit."""

    def __enter__(self):
        self.path = tempfile.mkdtemp(prefix='emdverif-trace-')
        return self

    def __exit__(self, *exc):
        shutil.rmtree(self.path, ignore_errors=True)

    def log(self, rec_bytes):
        with open(os.path.join(self.path, '%d.log' % os.getpid()), 'ab') as f:
            f.write(rec_bytes)

    def files(self):
        out = {}
        for fn in sorted(os.listdir(self.path)):
            if fn.endswith('.log'):
                out[int(fn[:-4])] = open(os.path.join(self.path, fn), 'rb').read()
        return out


_TIMEOUTS = [0]


class Timeout(Exception):
    """the implementation did not return within the budget (error kind 'Timeout')"""


@contextlib.contextmanager
def time_limit(seconds):
    """Bound one implementation call: a non-terminating loop (e.g. complete_ensemble_sift on a mutated
    tree) becomes error kind 'Timeout'. The interrupted call's pool is left to its own finalizer (terminating
    workers by hand can poison the pool's queue locks)."""
    import signal
    if _TIMEOUTS[0] >= 2:          # after two timeouts in this process: keep shrinking a non-terminating case cheap
        seconds = min(seconds, 4)

    def handler(signum, frame):
        _TIMEOUTS[0] += 1
        raise Timeout('no result after %ss' % seconds)
    old = signal.signal(signal.SIGALRM, handler)
    signal.setitimer(signal.ITIMER_REAL, seconds)
    try:
        yield
    finally:
        signal.setitimer(signal.ITIMER_REAL, 0)
        signal.signal(signal.SIGALRM, old)


def jitter():
    time.sleep((os.urandom(1)[0] % 5) * 0.0004)


def vlist(a):
    return [float(v) for v in np.asarray(a, dtype=float).ravel()]


def max_abs(a):
    a = np.asarray(a, dtype=float)
    return float(np.max(np.abs(a))) if a.size else 0.0


def frac_close(model_vec, impl_vec, tol):
    """|impl - model| <= tol element-wise; model values are Fractions."""
    if model_vec is None or len(model_vec) != len(impl_vec):
        return False
    for m, v in zip(model_vec, impl_vec):
        if abs(float(m) - float(v)) > tol:
            return False
    return True


def gnim_op(x, z, amp, nphases, rows, tol, rot):
    """GNIM: the model builds the masks itself (amp * cosTurn(z t + i/p)); the harness supplies only the cosine
    values cos(2 pi (z t + i / p)) of this call (the cosTurn oracle table, keyed by sample t and phase index i)."""
    vecs = [vlist(x)] + [vlist(u) for u in unit_masks(len(x), z, nphases)]
    for (m, arg, r, f) in rows:
        vecs += [vlist(arg), vlist(r), [1 if f else 0]]
    return proto.op('GNIM', {'p': nphases, 'tol': tol, 'rot': rot, 'z': z, 'amp': amp}, vecs)
