"""C17 — feature matching (emd.cycles.kdt_match) returns a valid one-to-one pairing."""
import itertools
import math

import numpy as np

from common import proto
from common.framework import Failure, ImplError, Stream

ID = 'C17'
LEAN_MODULES = ['Proofs.C17']
REQUIRED = ['C17.kdt_len_eq', 'C17.kdt_x_distinct_inrange', 'C17.kdt_y_inrange', 'C17.kdt_knn_member',
            'C17.kdt_y_injective', 'C17.kdt_pairs_one_to_one', 'C17.kdt_row_marked_at_most_once', 'C17.kdt_matched_iff',
            'C17.kdt_matched_iff_wf',
            'C17.kdt_marks_greedy', 'C17.kdt_closest_claimant', 'C17.kdt_first_neighbour_matched',
            'C17.kdt_sortedpos_not_injective', 'C17.kdt_among_K_nearest',
            'C17.kdt_K1_spec', 'C17.kdt_K1_nearest_within_bound', 'C17.kdt_nearest_clause_one_sided',
            'C17.kdt_count_le_min']
TRUSTED = ['scipy.spatial.cKDTree(y).query(x, k=K, distance_upper_bound=b) is an oracle: its result (D, inds) is obtained from the '
           'real library on the same inputs and handed to the model exactly (distances as exact rationals, inf as a sentinel)',
           'that the entries of a query row are the K nearest points of y is scipy\'s contract; the instance check recomputes it by brute force',
           'ORACLE-LEVEL clauses (header of lean/Proofs/C17.lean): "among the K nearest neighbours" and "not farther than the bound" are '
           'proved relative to the query table (kdt_knn_member: membership in the query row, reported distance within the bound) and, in the '
           'property\'s own words, relative to the hypothesis C17.KNNContract (kdt_among_K_nearest: true distance within the bound, fewer '
           'than K rows of y strictly closer). KNNContract - reported distances are the true ones, unlisted rows are at least as far as listed '
           'ones - is NOT executable in the model; it is what pairing_failures checks by brute force on every case (kinds '
           'y-not-among-K-nearest, pair-beyond-bound), independently of the KD-tree and of the model',
           'the order of exactly tied neighbours within a query row is whatever the KD-tree returns: the closest-claimant and '
           'first-neighbour instance checks read the real query table for it']
ASSUMPTIONS = ['kdquery_wellformed (Kdt.wfCheck, the executable form of WFQuery, evaluated by the model on every query result of the run): '
               'nx rows of K entries; entry = real neighbour (index < ny, finite distance in [0, bound]) or padding (index ny, distance inf); '
               'distances non-decreasing along a row; real neighbours of a row distinct']
# which `_unique_inds` the model runs: 'rows' = occurrence row numbers (repaired code), 'sortedpos' = pinned code (D13)
UNIQ = 'rows'
RULE = ('random: x, y with 1-4 features and 1-200 rows each from the families {gauss, integer grid, duplicated rows, shuffled linspace, '
        'clusters}, rows shuffled, K in 1..15 (also K > ny), distance bound in {inf, moderate, tight} (quantiles of the true nearest-neighbour '
        'distances), 1-feature inputs passed both as (n,) and (n,1); exhaustive: every pair of 1-D point sets over the grid {0,1,2,3} with '
        'nx, ny <= 3 (quick) / nx + ny <= 7 (thorough) x K in 1..3(4) x bound in {inf, 1.5, 0.5}. '
        '30 % of the random cases mix dtypes (one set int64 with integer-valued features or float32, the other float64 with fractional '
        'parts); 2 (quick) / 8 (thorough) random cases have 1030-2600 rows in x (beyond the quantifier\'s 200: the statement has no size limit). '
        'x and y are handed over as writable copies (a change is the mechanism-level kind input-modified); the pairing is compared with the '
        'model as a set of pairs; time-outs are skipped and tagged. '
        'Outside the quantifier, recorded only: K = 0, feature-count mismatch (stream kdt_malformed, nothing demanded). '
        'Non-trivial: at least one row of x is matched and at least one is omitted.')


# --------------------------------------------------------------------------------------------
# calling the implementation and the oracle

DTYPES = {'f8': np.float64, 'i8': np.int64, 'f4': np.float32}


def _arrays(case):
    """x, y as handed to kdt_match: float64 unless the case names another dtype for one of them ('xd' / 'yd': int64 for
    integer-valued features such as durations in samples, float32); the stored values are exactly representable there"""
    x = np.array(case['x'], dtype=float).astype(DTYPES[case.get('xd', 'f8')])
    y = np.array(case['y'], dtype=float).astype(DTYPES[case.get('yd', 'f8')])
    if case.get('flat'):
        x, y = x[:, 0], y[:, 0]
    return x, y


def _bound(case):
    return np.inf if case.get('bound') is None else float(case['bound'])


def query(x, y, K, bound):
    """The oracle table: the real KD-tree query, as an (nx, K) pair of nested lists (inf -> -1)."""
    from scipy import spatial
    x2 = np.asarray(x[:, None] if x.ndim == 1 else x, dtype=float)     # the true points, whatever dtype they came in
    y2 = np.asarray(y[:, None] if y.ndim == 1 else y, dtype=float)
    D, inds = spatial.cKDTree(y2).query(x2, k=K, distance_upper_bound=bound)
    D = np.asarray(D, dtype=float).reshape(x2.shape[0], -1)
    inds = np.asarray(inds).reshape(x2.shape[0], -1)
    return ([[-1 if math.isinf(v) else float(v) for v in row] for row in D],
            [[int(v) for v in row] for row in inds])


def run_match(x, y, K, bound):
    """the real call, on writable copies (the property does not speak about read-only buffers)"""
    import emd
    xc, yc = x.copy(), y.copy()
    kw = {}
    if bound is not None and not math.isinf(bound):
        kw['distance_upper_bound'] = bound
    xi, yi = emd.cycles.kdt_match(xc, yc, K=K, **kw)
    mutated = not (np.array_equal(xc, x) and np.array_equal(yc, y))
    return [int(v) for v in np.asarray(xi).ravel()], [int(v) for v in np.asarray(yi).ravel()], mutated


def call(x, y, K, bound):
    D, inds = query(x, y, K, bound)
    out = {'D': D, 'inds': inds}
    try:
        out['x_inds'], out['y_inds'], out['mutated'] = run_match(x, y, K, bound)
    except Exception as e:  # noqa
        out['error'] = type(e).__name__
        out['msg'] = str(e)[:200]
    return out


def kdt_op(out, nx, ny, K, bound):
    return proto.op('KDT', {'uniq': UNIQ, 'nx': nx, 'ny': ny, 'k': K,
                            'bound': 'inf' if (bound is None or math.isinf(bound)) else float(bound)},
                    [[v for row in out['D'] for v in row], [v for row in out['inds'] for v in row]])


def compare_one(out, r):
    if 'error' in out:
        return 'implementation raised %s (%s); model: %s' % (out['error'], out.get('msg', ''), r.raw[:160])
    if not r.ok:
        return 'model answered %s' % r.raw[:160]
    if r.args.get('wf') != 1:
        return 'assumption kdquery_wellformed violated by the real cKDTree.query result: D=%s inds=%s' % (out['D'][:4], out['inds'][:4])
    mx = [int(v) for v in (r.vecs[0] or [])]
    my = [int(v) for v in (r.vecs[1] or [])]
    if sorted(zip(mx, my)) != sorted(zip(out['x_inds'], out['y_inds'])) or len(mx) != len(out['x_inds']):     # the pairing, not its order
        return 'impl x=%s y=%s model x=%s y=%s' % (out['x_inds'][:30], out['y_inds'][:30], mx[:30], my[:30])
    return None


# --------------------------------------------------------------------------------------------
# instance check: the property's own words, brute force, independent of the model and of the KD-tree

def pairing_failures(x, y, K, bound, out):
    if 'error' in out:
        return [Failure('raises:' + out['error'], out.get('msg', ''))]
    x2 = np.asarray(x[:, None] if x.ndim == 1 else x, dtype=float)
    y2 = np.asarray(y[:, None] if y.ndim == 1 else y, dtype=float)
    nx, ny = x2.shape[0], y2.shape[0]
    xi, yi = out['x_inds'], out['y_inds']
    fs = []
    if out.get('mutated'):      # side effects on the arguments are C19's subject: mechanism-level here
        fs.append(Failure('input-modified', 'kdt_match changed x or y in place', literal=False))
    if len(xi) != len(yi):
        return [Failure('length-mismatch', '%d x indices, %d y indices' % (len(xi), len(yi)))]
    if len(set(xi)) != len(xi):
        fs.append(Failure('x-repeated', 'x_inds=%s' % xi[:40]))
    if len(set(yi)) != len(yi):
        dup = sorted(v for v in set(yi) if yi.count(v) > 1)
        fs.append(Failure('y-repeated', 'y rows %s matched more than once; pairs=%s' % (dup[:10], list(zip(xi, yi))[:40])))
    if any(not (0 <= v < nx) for v in xi):
        fs.append(Failure('x-out-of-range', 'x_inds=%s nx=%d' % (xi[:40], nx)))
    if any(not (0 <= v < ny) for v in yi):
        fs.append(Failure('y-out-of-range', 'y_inds=%s ny=%d' % (yi[:40], ny)))
    if any(f.literal for f in fs):
        return fs
    for i, j in zip(xi, yi):
        d = np.sqrt(((y2 - x2[i]) ** 2).sum(axis=1))
        dij = d[j]
        closer = int(np.sum(d < dij * (1 - 1e-12) - 1e-300))
        if closer >= K:
            fs.append(Failure('y-not-among-K-nearest', 'pair (%d,%d): %d points of y are strictly closer, K=%d' % (i, j, closer, K)))
            break
    for i, j in zip(xi, yi):
        dij = float(np.sqrt(((y2[j] - x2[i]) ** 2).sum()))
        if dij > bound * (1 + 1e-12):
            fs.append(Failure('pair-beyond-bound', 'pair (%d,%d) is %r apart, bound %r' % (i, j, dij, bound)))
            break
    return fs + omitted_failures(x2, y2, K, bound, xi) + greedy_failures(out, ny)


def omitted_failures(x2, y2, K, bound, xi):
    """ "Rows without a unique admissible neighbour are simply omitted" - so a row WITH one is not. Judged only where no
    reading of 'unique admissible' can disagree: row i of x whose single nearest row j of y is within the bound and is
    not among the K nearest-within-the-bound of ANY other row of x (nobody else can claim j) must appear in the pairing.
    Ties and distances at the bound / at the K-th neighbour are resolved against the demand (brute force, true distances)."""
    nx, ny = x2.shape[0], y2.shape[0]
    if nx * ny > 12_000_000:
        return []
    DM = np.sqrt(((x2[:, None, :] - y2[None, :, :]) ** 2).sum(axis=2))
    srt = np.sort(DM, axis=1)
    kth = srt[:, min(K, ny) - 1]
    may_claim = (DM <= kth[:, None] * (1 + 1e-9) + 1e-300) & (DM <= bound * (1 + 1e-9))
    claimants = may_claim.sum(axis=0)
    matched = set(xi)
    for i in range(nx):
        j = int(np.argmin(DM[i]))
        d = DM[i, j]
        if ny > 1 and not (srt[i, 1] > d * (1 + 1e-9) + 1e-300):
            continue                                   # nearest neighbour tied
        if not (d <= bound * (1 - 1e-9)) or not (d < np.inf):
            continue
        if claimants[j] == 1 and may_claim[i, j] and i not in matched:
            return [Failure('uncontested-nearest-neighbour-omitted',
                            'row %d of x: its nearest row %d of y is %r away (bound %r) and is not among the %d nearest of any '
                            'other row of x, yet row %d is not in the pairing (%d pairs)' % (i, j, float(d), bound, K, i, len(xi)))]
    return []


def greedy_failures(out, ny):
    """The anchored mechanism ("each candidate goes to its closest claimant", theorems kdt_closest_claimant and
    kdt_first_neighbour_matched), evaluated on the implementation's output against the real query table: the order of
    tied neighbours within a row is defined by that table only, so these two checks read it instead of recomputing it."""
    D, inds = out['D'], out['inds']
    dist = lambda r, c: math.inf if D[r][c] == -1 else D[r][c]  # noqa: E731
    partner = dict(zip(out['y_inds'], out['x_inds']))
    fs = []
    for i, j in zip(out['x_inds'], out['y_inds']):
        for c in [c for c in range(len(inds[i])) if inds[i][c] == j][:1]:
            rivals = [r for r in range(len(inds)) if inds[r][c] == j and dist(r, c) < dist(i, c)]
            if rivals:
                fs.append(Failure('not-closest-claimant', 'pair (%d,%d) formed in column %d at distance %r, but row %d has the same '
                                  'candidate there at %r' % (i, j, c, dist(i, c), rivals[0], dist(rivals[0], c)), literal=False))
                break
        if fs:
            break
    firsts = {}
    for r in range(len(inds)):
        v = inds[r][0]
        if v < ny:
            firsts.setdefault(v, []).append(r)
    for v, rows in sorted(firsts.items()):
        if v not in partner:
            fs.append(Failure('first-neighbour-unmatched', 'row %d of y is the nearest neighbour of rows %s of x but is not matched; '
                              'pairs=%s' % (v, rows[:10], list(zip(out['x_inds'], out['y_inds']))[:20]), literal=False))
            break
        x = partner[v]
        if x not in rows or dist(x, 0) > min(dist(r, 0) for r in rows):
            fs.append(Failure('first-neighbour-not-closest', 'row %d of y is the nearest neighbour of rows %s of x, matched to row %d'
                              % (v, rows[:10], x), literal=False))
            break
    return fs


# --------------------------------------------------------------------------------------------

def make_points(rng, family, n, f):
    if family == 'gauss':
        return [[rng.gauss(0, 1) for _ in range(f)] for _ in range(n)]
    if family == 'grid':
        m = rng.choice([2, 3, 5, 9])
        return [[float(rng.randrange(m)) for _ in range(f)] for _ in range(n)]
    if family == 'halfgrid':
        m = rng.choice([3, 6])
        return [[rng.randrange(m) / 2.0 for _ in range(f)] for _ in range(n)]
    if family == 'linspace':
        pts = [[(i / max(1, n - 1)) * (1 + k) for k in range(f)] for i in range(n)]
        return pts
    if family == 'clusters':
        c = [[rng.gauss(0, 3) for _ in range(f)] for _ in range(rng.randint(1, 4))]
        return [[v + rng.gauss(0, 0.2) for v in rng.choice(c)] for _ in range(n)]
    raise ValueError(family)


FAMILIES = ['gauss', 'grid', 'halfgrid', 'linspace', 'clusters', 'dup']


def nn_quantile(x, y, q):
    x = np.array(x, dtype=float)
    y = np.array(y, dtype=float)
    d = np.sqrt(((x[:, None, :] - y[None, :, :]) ** 2).sum(axis=2)).min(axis=1)
    return float(np.quantile(d, q))


class Random(Stream):
    name = 'kdt_random'

    def corpus(self):
        return [
            # D13 (fixed in 27b5baa): positions in the sorted copy used as row numbers -> pinned code returned x=[1,2], y=[0,0]
            {'x': [[0.0], [0.1], [0.2]], 'y': [[1.0], [-1.0]], 'K': 2, 'bound': None, 'flat': 0, 'family': 'corpus'},
            {'x': [[0.0], [0.1], [0.2]], 'y': [[1.0], [-1.0]], 'K': 2, 'bound': None, 'flat': 1, 'family': 'corpus'},
            # D13, the witness of theorem C17.kdt_sortedpos_not_injective: pinned code returned x=[1,2], y=[0,0]
            {'x': [[0.0], [1.0], [1.0]], 'y': [[2.0]], 'K': 2, 'bound': 1.5, 'flat': 0, 'family': 'corpus'},
            {'x': [[0.0], [3.0], [1.0]], 'y': [[1.0], [0.0], [3.5]], 'K': 2, 'bound': None, 'flat': 0, 'family': 'corpus'},
            # D21 (fixed in 0aa5014): K = 1, cKDTree.query returns 1-D arrays -> pinned code raised IndexError
            {'x': [[0.0], [0.1], [0.2]], 'y': [[1.0], [-1.0]], 'K': 1, 'bound': None, 'flat': 0, 'family': 'corpus'},
            {'x': [[0.0], [3.0], [1.0]], 'y': [[1.0], [0.0], [3.5]], 'K': 1, 'bound': None, 'flat': 0, 'family': 'corpus'},
            {'x': [[0.0, 1.0]], 'y': [[1.0, 0.0]], 'K': 1, 'bound': None, 'flat': 0, 'family': 'corpus'},
            # K = 1 with a FINITE bound; the table of theorem C17.kdt_nearest_clause_one_sided (x1 is closer to y0 than its partner x0)
            {'x': [[0.0], [9.0], [11.0]], 'y': [[5.0], [11.4]], 'K': 1, 'bound': 6.0, 'flat': 0, 'family': 'corpus'},
            {'x': [[0.0], [9.0], [11.0]], 'y': [[5.0], [11.4]], 'K': 1, 'bound': 4.5, 'flat': 1, 'family': 'corpus'},
            # the repo's own test: two sorted linspace vectors, K = 2
            {'x': [[v] for v in np.linspace(0, 1, 10)], 'y': [[v] for v in np.linspace(0, 1, 10)], 'K': 2, 'bound': None,
             'flat': 1, 'family': 'corpus'},
            # K > ny: padding columns
            {'x': [[0.0], [0.4], [2.0], [2.1]], 'y': [[0.0], [2.0]], 'K': 5, 'bound': None, 'flat': 0, 'family': 'corpus'},
            # everything beyond a tight bound / exact ties / bound hit exactly
            {'x': [[0.0], [1.0]], 'y': [[5.0], [6.0]], 'K': 2, 'bound': 0.5, 'flat': 0, 'family': 'corpus'},
            {'x': [[0.0, 0.0], [0.0, 0.0], [0.0, 0.0]], 'y': [[0.0, 0.0], [0.0, 0.0], [1.0, 1.0]], 'K': 3, 'bound': None,
             'flat': 0, 'family': 'corpus'},
            {'x': [[0.0]], 'y': [[0.0], [1.0], [2.0]], 'K': 3, 'bound': 1.0, 'flat': 0, 'family': 'corpus'},
            # mixed dtypes: integer-valued y in an integer array, float x with fractional parts (x must not be truncated to y's dtype:
            # 23.7 is nearest to 24, and 0.7 from 23 is beyond a bound of 0.5)
            {'x': [[23.7], [5.2]], 'y': [[23.0], [24.0], [5.0]], 'K': 1, 'bound': None, 'flat': 0, 'family': 'corpus', 'yd': 'i8'},
            {'x': [[23.7], [5.2]], 'y': [[23.0], [30.0], [5.0]], 'K': 2, 'bound': 0.5, 'flat': 1, 'family': 'corpus', 'yd': 'i8'},
            {'x': [[3.0], [7.0]], 'y': [[2.6], [3.3], [7.4]], 'K': 1, 'bound': None, 'flat': 0, 'family': 'corpus', 'xd': 'i8'},
            {'x': [[0.1234567891], [1.0]], 'y': [[0.125], [0.12345679104328156]], 'K': 1, 'bound': None, 'flat': 0,
             'family': 'corpus', 'yd': 'f4'},
            # contested neighbours in later columns
            {'x': [[0.0], [0.1], [0.2], [0.3]], 'y': [[0.05], [1.0], [-1.0]], 'K': 3, 'bound': None, 'flat': 0, 'family': 'corpus'},
        ]

    def generate(self, rng, tier):
        n_cases = 1500 if tier == 'thorough' else 220
        n_long = 8 if tier == 'thorough' else 2
        for i in range(n_cases):
            f = rng.randint(1, 4)
            big = rng.random() < (0.35 if tier == 'thorough' else 0.2)
            nx = rng.randint(1, 200) if big else rng.randint(1, 25)
            ny = rng.randint(1, 200) if big else rng.randint(1, 30)
            fam = rng.choice(FAMILIES)
            if i < n_long:
                # a few feature sets far longer than the quantifier's 200 rows (the statement itself has no size limit;
                # an implementation that walks x in blocks must still give ONE one-to-one pairing)
                f = rng.randint(1, 3)
                nx = rng.randint(1030, 1500) if i % 2 == 0 else rng.randint(2050, 2600)
                ny = rng.randint(200, 2500)
                fam = rng.choice(['gauss', 'clusters', 'grid'])
            if fam == 'dup':
                base = make_points(rng, rng.choice(['gauss', 'grid']), max(1, ny // 2), f)
                y = [list(rng.choice(base)) for _ in range(ny)]
                x = [list(rng.choice(base)) if rng.random() < 0.7 else [rng.gauss(0, 1) for _ in range(f)] for _ in range(nx)]
            else:
                y = make_points(rng, fam, ny, f)
                x = make_points(rng, fam if rng.random() < 0.8 else 'gauss', nx, f)
            rng.shuffle(x)
            rng.shuffle(y)
            dt = {}
            if rng.random() < 0.3:
                # mixed dtypes: one set holds integer-valued features in an integer array (durations in samples, counts)
                # or float32 values, the other stays float64 with fractional parts
                side, d = rng.choice([('yd', 'i8'), ('yd', 'i8'), ('xd', 'i8'), ('yd', 'f4'), ('xd', 'f4')])
                dt[side] = d
                if d == 'i8':
                    sc = rng.choice([1, 3, 10])
                    x = [[v * sc for v in r] for r in x]
                    y = [[v * sc for v in r] for r in y]
                    if side == 'yd':
                        y = [[float(round(v)) for v in r] for r in y]
                        if fam in ('grid', 'halfgrid', 'dup'):      # give the float side fractional parts
                            x = [[v + rng.uniform(-0.49, 0.99) for v in r] for r in x]
                    else:
                        x = [[float(round(v)) for v in r] for r in x]
                elif side == 'yd':
                    y = [[float(np.float32(v)) for v in r] for r in y]
                else:
                    x = [[float(np.float32(v)) for v in r] for r in x]
            K = rng.randint(1, 15)
            if rng.random() < 0.1 or (dt and rng.random() < 0.4):
                K = rng.choice([1, 2, ny, ny + 1, 15] if not dt else [1, 1, 2, 3])
            if i < n_long:
                K = rng.randint(1, 6)
            bk = rng.choice(['inf', 'moderate', 'tight'])
            if bk == 'inf':
                bound = None
            else:
                q = nn_quantile(x, y, 0.7 if bk == 'moderate' else 0.15)
                bound = q * rng.choice([1.0, 1.5]) if bk == 'moderate' else rng.choice([q, q * 0.5, 0.25])
                if not (bound > 0):
                    bound = 0.5
            yield dict({'x': x, 'y': y, 'K': max(1, K), 'bound': bound, 'flat': int(f == 1 and rng.random() < 0.5), 'family': fam,
                        'bk': bk}, **dt)

    def impl(self, case):
        x, y = _arrays(case)
        return call(x, y, case['K'], _bound(case))

    def ops(self, case, out):
        if isinstance(out, ImplError):
            return []
        return [kdt_op(out, len(case['x']), len(case['y']), case['K'], _bound(case))]

    def compare(self, case, out, results):
        if isinstance(out, ImplError) and out['error'] == 'Timeout':
            return 'skip:time-out (termination is not this property\'s subject)'
        if isinstance(out, ImplError):
            return 'the KD-tree query itself raised %s (%s)' % (out['error'], out.get('msg', ''))
        return compare_one(out, results[0])

    def holds(self, case, out):
        if isinstance(out, ImplError):      # the harness's own oracle query failed (or the case timed out): not the property's words
            return [] if out['error'] == 'Timeout' else [Failure('query-raises:' + out['error'], out.get('msg', ''), literal=False)]
        x, y = _arrays(case)
        return pairing_failures(x, y, case['K'], _bound(case), out)

    def tags(self, case, out):
        nx, ny, K = len(case['x']), len(case['y']), case['K']
        t = ['family=%s' % case.get('family'), 'features=%d' % len(case['x'][0]),
             'K=%s' % ('1' if K == 1 else '2-5' if K <= 5 else '6-15'),
             'bound=%s' % case.get('bk', 'inf' if case.get('bound') is None else 'finite'),
             'rows=%s' % ('<=30' if max(nx, ny) <= 30 else '31-200' if max(nx, ny) <= 200 else '>200 (beyond the quantifier)'),
             'dtypes=x:%s,y:%s' % (case.get('xd', 'f8'), case.get('yd', 'f8'))]
        if isinstance(out, ImplError) and out['error'] == 'Timeout':
            t.append('skipped:time-out')
        if K > ny:
            t.append('K>ny')
        if case.get('flat'):
            t.append('1-D input')
        if isinstance(out, dict) and 'x_inds' in out:
            m = len(out['x_inds'])
            t.append('matched=%s' % ('none' if m == 0 else 'all' if m == nx else 'some'))
            if any(-1 in row for row in out['D']):
                t.append('padding-present')
            cols = list(zip(*out['inds']))
            if any(len(set(c)) < len(c) for c in cols):
                t.append('contested-column')
        return t

    def nontrivial(self, case, out):
        return isinstance(out, dict) and 'x_inds' in out and 0 < len(out['x_inds']) < len(case['x'])

    def shrink(self, case):
        nx, ny = len(case['x']), len(case['y'])
        for cut in (nx // 2, nx // 4, 1):
            if 0 < cut < nx:
                yield dict(case, x=case['x'][cut:])
                yield dict(case, x=case['x'][:nx - cut])
        for cut in (ny // 2, ny // 4, 1):
            if 0 < cut < ny:
                yield dict(case, y=case['y'][cut:])
                yield dict(case, y=case['y'][:ny - cut])
        if case['K'] > 1:
            yield dict(case, K=case['K'] - 1)
            yield dict(case, K=max(1, case['K'] // 2))
        f = len(case['x'][0])
        if f > 1 and not case.get('flat'):
            yield dict(case, x=[r[:-1] for r in case['x']], y=[r[:-1] for r in case['y']])
        if case.get('bound') is not None:
            yield dict(case, bound=None)


GRID = [0.0, 1.0, 2.0, 3.0]
GRID_BOUNDS = [None, 1.5, 0.5]


class GridExhaustive(Stream):
    """Every pair of small 1-D point sets on an integer grid: all tie patterns."""
    name = 'kdt_grid_exhaustive'
    exhaustive = True

    def generate(self, rng, tier):
        if tier == 'thorough':
            sizes = [(a, b) for a in range(1, 5) for b in range(1, 5) if a + b <= 7]
            ks = [1, 2, 3, 4]
        else:
            sizes = [(a, b) for a in range(1, 4) for b in range(1, 4)]
            ks = [1, 2, 3]
        for nx, ny in sizes:
            for K in ks:
                for bi in range(len(GRID_BOUNDS)):
                    for first in range(len(GRID)):
                        yield {'nx': nx, 'ny': ny, 'K': K, 'bi': bi, 'first': first}

    def _variants(self, case):
        nx, ny = case['nx'], case['ny']
        for rest in itertools.product(GRID, repeat=nx - 1):
            xs = [GRID[case['first']]] + list(rest)
            for ys in itertools.product(GRID, repeat=ny):
                yield xs, list(ys)

    def impl(self, case):
        b = GRID_BOUNDS[case['bi']]
        bound = np.inf if b is None else b
        return [call(np.array(xs)[:, None], np.array(ys)[:, None], case['K'], bound) for xs, ys in self._variants(case)]

    def ops(self, case, out):
        if isinstance(out, ImplError):
            return []
        b = GRID_BOUNDS[case['bi']]
        return [kdt_op(o, case['nx'], case['ny'], case['K'], b) for o in out]

    def compare(self, case, out, results):
        if isinstance(out, ImplError) and out['error'] == 'Timeout':
            return 'skip:time-out (termination is not this property\'s subject)'
        if isinstance(out, ImplError):
            return 'the KD-tree query itself raised %s (%s)' % (out['error'], out.get('msg', ''))
        for (xs, ys), o, r in zip(self._variants(case), out, results):
            d = compare_one(o, r)
            if d:
                return 'x=%s y=%s K=%d bound=%s: %s' % (xs, ys, case['K'], GRID_BOUNDS[case['bi']], d)
        return None

    def holds(self, case, out):
        if isinstance(out, ImplError):      # the harness's own oracle query failed (or the case timed out): not the property's words
            return [] if out['error'] == 'Timeout' else [Failure('query-raises:' + out['error'], out.get('msg', ''), literal=False)]
        b = GRID_BOUNDS[case['bi']]
        bound = np.inf if b is None else b
        fs = {}
        for (xs, ys), o in zip(self._variants(case), out):
            for f in pairing_failures(np.array(xs)[:, None], np.array(ys)[:, None], case['K'], bound, o):
                f.detail = 'x=%s y=%s K=%d bound=%s: %s' % (xs, ys, case['K'], b, f.detail)
                fs.setdefault(f.kind, f)
        return list(fs.values())

    def tags(self, case, out):
        return ['nx=%d' % case['nx'], 'ny=%d' % case['ny'], 'K=%d' % case['K'], 'bound=%s' % GRID_BOUNDS[case['bi']]]

    def nontrivial(self, case, out):
        return not isinstance(out, ImplError) and any('x_inds' in o and 0 < len(o['x_inds']) < case['nx'] for o in out)


class Malformed(Stream):
    """Inputs outside the quantifier (K = 0, feature-count mismatch): nothing is demanded, outcomes are recorded."""
    name = 'kdt_malformed'
    parallel = False

    def generate(self, rng, tier):
        for i in range(12 if tier == 'thorough' else 6):
            nx, ny = rng.randint(1, 6), rng.randint(1, 6)
            yield {'what': 'K=0', 'x': make_points(rng, 'gauss', nx, 2), 'y': make_points(rng, 'gauss', ny, 2), 'K': 0}
            yield {'what': 'feature-mismatch', 'x': make_points(rng, 'gauss', nx, 2), 'y': make_points(rng, 'gauss', ny, 3),
                   'K': rng.randint(2, 4)}

    def impl(self, case):
        x = np.array(case['x'], dtype=float)
        y = np.array(case['y'], dtype=float)
        try:
            xi, yi, _ = run_match(x, y, case['K'], None)
            return {'x_inds': xi, 'y_inds': yi}
        except Exception as e:  # noqa
            return {'error': type(e).__name__, 'msg': str(e)[:200]}

    def ops(self, case, out):
        return []

    def compare(self, case, out, results):
        # K = 0 and unequal feature counts are outside the quantifier (K = 1..15, two sets of the same features): any
        # error, an empty pairing or anything else is acceptable; the outcome is recorded as a tag only
        return None

    def tags(self, case, out):
        return [case['what'], 'outcome=%s' % out.get('error', 'returned')]

    def nontrivial(self, case, out):
        return False


STREAMS = [Random(), GridExhaustive(), Malformed()]
